(* C08/LemGraph.v — lemmas for part A of the model: BFS with fuel = node count never runs out of
   fuel, is_connected is sound and complete, and connect_graph always returns a connected graph. *)
From Coq Require Import Arith ZArith QArith Qcanon List Bool Lia Relations.
From AV.lib Require Import QcInst.
From AV.C08 Require Import Model.
Import ListNotations.
Local Open Scope nat_scope.

Lemma mem_In x l : mem x l = true <-> In x l.
Proof.
  unfold mem. rewrite existsb_exists. split.
  - intros [y [H1 H2]]. apply Nat.eqb_eq in H2. subst. exact H1.
  - intros H. exists x. split; [exact H|apply Nat.eqb_refl].
Qed.

Lemma mem_false x l : mem x l = false <-> ~ In x l.
Proof.
  rewrite <- mem_In. destruct (mem x l); split; intros H.
  - discriminate.
  - exfalso. apply H. reflexivity.
  - discriminate.
  - reflexivity.
Qed.

Lemma edge_is_sym i j e : edge_is i j e = edge_is j i e.
Proof. unfold edge_is. apply orb_comm. Qed.

Lemma has_edge_sym es i j : has_edge es i j = has_edge es j i.
Proof.
  unfold has_edge. induction es as [|e es IH]; cbn [existsb]; [reflexivity|].
  rewrite IH, edge_is_sym. reflexivity.
Qed.

Lemma edge_is_spec i j e :
  edge_is i j e = true <-> (fst e = i /\ snd e = j) \/ (fst e = j /\ snd e = i).
Proof.
  unfold edge_is. rewrite orb_true_iff, !andb_true_iff, !Nat.eqb_eq. reflexivity.
Qed.

Lemma has_edge_spec es i j :
  has_edge es i j = true <->
  exists e, In e es /\ ((fst e = i /\ snd e = j) \/ (fst e = j /\ snd e = i)).
Proof.
  unfold has_edge. rewrite existsb_exists. split; intros [e [H1 H2]]; exists e; split; try exact H1;
    apply edge_is_spec; exact H2.
Qed.

Lemma has_edge_incl es es' i j : incl es es' -> has_edge es i j = true -> has_edge es' i j = true.
Proof.
  intros Hi H. apply has_edge_spec in H. destruct H as [e [H1 H2]].
  apply has_edge_spec. exists e. split; [apply Hi; exact H1|exact H2].
Qed.

Lemma has_edge_bounded n es v w : bounded_es n es -> has_edge es v w = true -> v < n /\ w < n.
Proof.
  intros Hb H. apply has_edge_spec in H. destruct H as [e [H1 H2]].
  destruct (Hb e H1) as [A B]. destruct H2 as [[E1 E2]|[E1 E2]]; subst; split; assumption.
Qed.

Lemma nbrs_In es v w : In w (nbrs es v) <-> has_edge es v w = true.
Proof.
  unfold nbrs. rewrite in_flat_map, has_edge_spec. split.
  - intros [e [H1 H2]]. exists e. split; [exact H1|].
    destruct (fst e =? v) eqn:E1.
    + apply Nat.eqb_eq in E1. destruct H2 as [H2|[]]. left. split; assumption.
    + destruct (snd e =? v) eqn:E2.
      * apply Nat.eqb_eq in E2. destruct H2 as [H2|[]]. right. split; assumption.
      * destruct H2.
  - intros [e [H1 H2]]. exists e. split; [exact H1|].
    destruct H2 as [[A B]|[A B]].
    + rewrite A, Nat.eqb_refl. left. exact B.
    + destruct (fst e =? v) eqn:E1.
      * apply Nat.eqb_eq in E1. left. congruence.
      * rewrite B, Nat.eqb_refl. left. exact A.
Qed.

Lemma add_edge_incl es i j : incl es (add_edge es i j).
Proof.
  unfold add_edge. destruct (has_edge es i j); [apply incl_refl|apply incl_appl, incl_refl].
Qed.

Lemma add_edge_has es i j : has_edge (add_edge es i j) i j = true.
Proof.
  unfold add_edge. destruct (has_edge es i j) eqn:E; [exact E|].
  unfold has_edge. rewrite existsb_app. apply orb_true_iff. right. cbn [existsb].
  unfold edge_is. cbn [fst snd]. rewrite !Nat.eqb_refl. reflexivity.
Qed.

Lemma add_edge_bounded n es i j : bounded_es n es -> i < n -> j < n -> bounded_es n (add_edge es i j).
Proof.
  intros Hb Hi Hj e He. unfold add_edge in He. destruct (has_edge es i j); [apply Hb; exact He|].
  apply in_app_or in He. destruct He as [He|[He|[]]]; [apply Hb; exact He|].
  subst e. split; assumption.
Qed.

(* ---------- reachability ---------- *)
Lemma reach_sym es a b : reach es a b -> reach es b a.
Proof.
  unfold reach. induction 1 as [x y H|x|x y z _ IH1 _ IH2].
  - apply rt_step. unfold adj in *. rewrite has_edge_sym. exact H.
  - apply rt_refl.
  - eapply rt_trans; eassumption.
Qed.

Lemma reach_trans es a b c : reach es a b -> reach es b c -> reach es a c.
Proof. unfold reach. intros. eapply rt_trans; eassumption. Qed.

Lemma reach_mono es es' a b : incl es es' -> reach es a b -> reach es' a b.
Proof.
  intros Hi. unfold reach. induction 1 as [x y H|x|x y z _ IH1 _ IH2].
  - apply rt_step. unfold adj in *. eapply has_edge_incl; eassumption.
  - apply rt_refl.
  - eapply rt_trans; eassumption.
Qed.

Lemma connected_mono n es es' : incl es es' -> connected n es -> connected n es'.
Proof. intros Hi Hc i j A B. eapply reach_mono; [exact Hi|apply Hc; assumption]. Qed.

Lemma closed_reach es r s w :
  (forall v x, In v r -> has_edge es v x = true -> In x r) -> In s r -> reach es s w -> In w r.
Proof.
  intros Hc Hs H. unfold reach in H. apply clos_rt_rtn1 in H.
  induction H as [|y z Hyz _ IH]; [exact Hs|]. eapply Hc; [exact IH|exact Hyz].
Qed.

(* ---------- one BFS round ---------- *)
Lemma NoDup_app_intro {A} (l1 l2 : list A) :
  NoDup l1 -> NoDup l2 -> (forall x, In x l1 -> ~ In x l2) -> NoDup (l1 ++ l2).
Proof.
  induction l1 as [|a l1 IH]; intros H1 H2 H; cbn [app]; [exact H2|].
  inversion H1 as [|? ? Ha Hl]; subst. constructor.
  - intros Hin. apply in_app_or in Hin. destruct Hin as [Hin|Hin]; [exact (Ha Hin)|].
    apply (H a); [left; reflexivity|exact Hin].
  - apply IH; [exact Hl|exact H2|]. intros x Hx. apply H. right. exact Hx.
Qed.

Lemma fold_add_new_spec ws : forall acc,
  exists t, fold_left add_new ws acc = acc ++ t /\
            (forall x, In x t -> In x ws /\ ~ In x acc) /\ NoDup t /\
            (forall w, In w ws -> In w acc \/ In w t).
Proof.
  induction ws as [|w ws IH]; intros acc; cbn [fold_left].
  - exists []. rewrite app_nil_r. split; [reflexivity|]. split; [intros x []|]. split; [constructor|intros w []].
  - unfold add_new at 2. destruct (mem w acc) eqn:E.
    + destruct (IH acc) as [t [H1 [H2 [H3 H4]]]]. exists t. repeat split; try assumption.
      * right. apply (H2 x H).
      * apply (H2 x H).
      * intros w0 [Hw|Hw]; [subst; left; apply mem_In; exact E|apply H4; exact Hw].
    + destruct (IH (acc ++ [w])) as [t [H1 [H2 [H3 H4]]]]. apply mem_false in E.
      exists (w :: t). split; [rewrite H1, <- app_assoc; reflexivity|]. split; [|split].
      * intros x [Hx|Hx]; [subst; split; [left; reflexivity|exact E]|].
        destruct (H2 x Hx) as [A B]. split; [right; exact A|].
        intros C. apply B. apply in_or_app. left. exact C.
      * constructor; [|exact H3]. intros Hin. destruct (H2 w Hin) as [_ B]. apply B.
        apply in_or_app. right. left. reflexivity.
      * intros w0 [Hw|Hw]; [subst; right; left; reflexivity|].
        destruct (H4 w0 Hw) as [A|A]; [|right; right; exact A].
        apply in_app_or in A. destruct A as [A|[A|[]]]; [left; exact A|subst; right; left; reflexivity].
Qed.

Lemma grow_spec es vis :
  exists t, grow es vis = vis ++ t /\
            (forall x, In x t -> (exists v, In v vis /\ has_edge es v x = true) /\ ~ In x vis) /\
            NoDup t /\
            (forall v w, In v vis -> has_edge es v w = true -> In w vis \/ In w t).
Proof.
  unfold grow. destruct (fold_add_new_spec (flat_map (nbrs es) vis) vis) as [t [H1 [H2 [H3 H4]]]].
  exists t. split; [exact H1|]. split; [|split; [exact H3|]].
  - intros x Hx. destruct (H2 x Hx) as [A B]. split; [|exact B].
    apply in_flat_map in A. destruct A as [v [Hv Hn]]. exists v. split; [exact Hv|].
    apply nbrs_In. exact Hn.
  - intros v w Hv Hw. apply H4. apply in_flat_map. exists v. split; [exact Hv|]. apply nbrs_In. exact Hw.
Qed.

Lemma nodup_bounded_length n l : NoDup l -> bounded_l n l -> length l <= n.
Proof.
  intros Hn Hb. rewrite <- (seq_length n 0). apply NoDup_incl_length; [exact Hn|].
  intros x Hx. apply in_seq. specialize (Hb x Hx). lia.
Qed.

Lemma nodup_full n l : NoDup l -> bounded_l n l -> length l = n -> forall i, i < n -> In i l.
Proof.
  intros Hn Hb Hl i Hi.
  assert (H : incl (seq 0 n) l).
  { apply NoDup_length_incl; [exact Hn|rewrite seq_length; lia|].
    intros x Hx. apply in_seq. specialize (Hb x Hx). lia. }
  apply H. apply in_seq. lia.
Qed.

(* ---------- BFS: fuel = node count suffices; the result is closed, duplicate free, reachable ---------- *)
Lemma bfs_spec n es : bounded_es n es ->
  forall fuel vis, NoDup vis -> bounded_l n vis -> n < length vis + fuel ->
  exists r, bfs fuel es vis = Some r /\ incl vis r /\ NoDup r /\ bounded_l n r /\
            (forall v w, In v r -> has_edge es v w = true -> In w r) /\
            (forall w, In w r -> exists v, In v vis /\ reach es v w).
Proof.
  intros Hes. induction fuel as [|f IH]; intros vis Hn Hb Hf.
  - pose proof (nodup_bounded_length n vis Hn Hb). lia.
  - cbn [bfs]. destruct (grow_spec es vis) as [t [H1 [H2 [H3 H4]]]]. rewrite H1, app_length.
    destruct (length vis + length t =? length vis) eqn:E.
    + apply Nat.eqb_eq in E. assert (t = []) by (destruct t; [reflexivity|cbn in E; lia]). subst t.
      exists vis. split; [reflexivity|]. split; [apply incl_refl|]. split; [exact Hn|]. split; [exact Hb|].
      split.
      * intros v w Hv Hw. destruct (H4 v w Hv Hw) as [A|[]]. exact A.
      * intros w Hw. exists w. split; [exact Hw|apply rt_refl].
    + apply Nat.eqb_neq in E.
      assert (Hn' : NoDup (vis ++ t)).
      { apply NoDup_app_intro; [exact Hn|exact H3|]. intros x Hx Hx'. destruct (H2 x Hx') as [_ B]. exact (B Hx). }
      assert (Hb' : bounded_l n (vis ++ t)).
      { intros x Hx. apply in_app_or in Hx. destruct Hx as [Hx|Hx]; [apply Hb; exact Hx|].
        destruct (H2 x Hx) as [[v [_ Hv]] _]. apply (has_edge_bounded n es v x Hes Hv). }
      destruct (IH (vis ++ t) Hn' Hb') as [r [R1 [R2 [R3 [R4 [R5 R6]]]]]]; [rewrite app_length; lia|].
      exists r. split; [exact R1|]. split; [intros x Hx; apply R2, in_or_app; left; exact Hx|].
      split; [exact R3|]. split; [exact R4|]. split; [exact R5|].
      intros w Hw. destruct (R6 w Hw) as [v [Hv Hr]]. apply in_app_or in Hv. destruct Hv as [Hv|Hv].
      * exists v. split; assumption.
      * destruct (H2 v Hv) as [[u [Hu Huv]] _]. exists u. split; [exact Hu|].
        eapply reach_trans; [apply rt_step; exact Huv|exact Hr].
Qed.

Lemma bfs_fuel_suffices n es s : bounded_es n es -> s < n -> bfs n es [s] <> None.
Proof.
  intros Hes Hs. destruct (bfs_spec n es Hes n [s]) as [r [H _]].
  - constructor; [intros []|constructor].
  - intros v [Hv|[]]. subst. exact Hs.
  - cbn [length]. lia.
  - rewrite H. discriminate.
Qed.

Lemma bfs_from n es s : bounded_es n es -> s < n ->
  exists r, bfs n es [s] = Some r /\ In s r /\ NoDup r /\ bounded_l n r /\
            (forall v w, In v r -> has_edge es v w = true -> In w r) /\
            (forall w, In w r -> reach es s w).
Proof.
  intros Hes Hs. destruct (bfs_spec n es Hes n [s]) as [r [R1 [R2 [R3 [R4 [R5 R6]]]]]].
  - constructor; [intros []|constructor].
  - intros v [Hv|[]]. subst. exact Hs.
  - cbn [length]. lia.
  - exists r. split; [exact R1|]. split; [apply R2; left; reflexivity|]. split; [exact R3|].
    split; [exact R4|]. split; [exact R5|]. intros w Hw. destruct (R6 w Hw) as [v [[Hv|[]] Hr]]. subst. exact Hr.
Qed.

(* ---------- is_connected is sound and complete ---------- *)
Lemma is_connected_total n es : 1 <= n -> bounded_es n es -> exists b, is_connected n es = Some (Some b).
Proof.
  intros Hn Hes. destruct n as [|n']; [lia|]. unfold is_connected.
  destruct (bfs_from (S n') es 0 Hes) as [r [R1 _]]; [lia|]. rewrite R1. eexists. reflexivity.
Qed.

Lemma is_connected_sound n es : bounded_es n es -> is_connected n es = Some (Some true) -> connected n es.
Proof.
  intros Hes H. destruct n as [|n']; [discriminate|]. unfold is_connected in H.
  destruct (bfs_from (S n') es 0 Hes) as [r [R1 [R2 [R3 [R4 [R5 R6]]]]]]; [lia|]. rewrite R1 in H.
  injection H as H. apply Nat.eqb_eq in H.
  intros i j Hi Hj.
  pose proof (nodup_full (S n') r R3 R4 H) as Hfull.
  eapply reach_trans; [apply reach_sym, R6, Hfull; exact Hi|apply R6, Hfull; exact Hj].
Qed.

Lemma is_connected_complete n es :
  1 <= n -> bounded_es n es -> connected n es -> is_connected n es = Some (Some true).
Proof.
  intros Hn Hes Hc. destruct n as [|n']; [lia|]. unfold is_connected.
  destruct (bfs_from (S n') es 0 Hes) as [r [R1 [R2 [R3 [R4 [R5 R6]]]]]]; [lia|]. rewrite R1.
  do 2 f_equal. apply Nat.eqb_eq.
  assert (Hincl : incl (seq 0 (S n')) r).
  { intros i Hi. apply in_seq in Hi. eapply closed_reach; [exact R5|exact R2|apply Hc; lia]. }
  pose proof (NoDup_incl_length (seq_NoDup (S n') 0) Hincl) as L1. rewrite seq_length in L1.
  pose proof (nodup_bounded_length (S n') r R3 R4). lia.
Qed.

(* ---------- components ---------- *)
Definition good_comp (n : nat) (es : list edge) (c : list nat) : Prop :=
  c <> [] /\ bounded_l n c /\ (forall a b, In a c -> In b c -> reach es a b).

Lemma comps_from_spec n es : bounded_es n es ->
  forall todo acc, bounded_l n todo -> Forall (good_comp n es) acc ->
  exists cs, comps_from n es todo acc = Some cs /\ Forall (good_comp n es) cs /\
             (forall v, In v todo -> exists c, In c cs /\ In v c) /\ incl acc cs.
Proof.
  intros Hes. induction todo as [|v t IH]; intros acc Hb Hacc; cbn [comps_from].
  - exists acc. split; [reflexivity|]. split; [exact Hacc|]. split; [intros v []|apply incl_refl].
  - assert (Hbt : bounded_l n t) by (intros x Hx; apply Hb; right; exact Hx).
    destruct (existsb (mem v) acc) eqn:E.
    + destruct (IH acc Hbt Hacc) as [cs [C1 [C2 [C3 C4]]]]. exists cs. split; [exact C1|]. split; [exact C2|].
      split; [|exact C4]. intros w [Hw|Hw]; [|apply C3; exact Hw]. subst w.
      apply existsb_exists in E. destruct E as [c [Hc Hm]]. exists c. split; [apply C4; exact Hc|apply mem_In; exact Hm].
    + destruct (bfs_from n es v Hes) as [r [R1 [R2 [R3 [R4 [R5 R6]]]]]]; [apply Hb; left; reflexivity|].
      rewrite R1.
      assert (Hg : good_comp n es r).
      { split; [intros ->; destruct R2|]. split; [exact R4|].
        intros a b Ha Hb'. eapply reach_trans; [apply reach_sym, R6; exact Ha|apply R6; exact Hb']. }
      destruct (IH (acc ++ [r]) Hbt) as [cs [C1 [C2 [C3 C4]]]].
      { apply Forall_app. split; [exact Hacc|constructor; [exact Hg|constructor]]. }
      exists cs. split; [exact C1|]. split; [exact C2|]. split.
      * intros w [Hw|Hw]; [|apply C3; exact Hw]. subst w. exists r. split; [|exact R2].
        apply C4, in_or_app. right. left. reflexivity.
      * intros c Hc. apply C4, in_or_app. left. exact Hc.
Qed.

Lemma components_spec n es : bounded_es n es ->
  exists cs, components n es = Some cs /\ Forall (good_comp n es) cs /\
             (forall v, v < n -> exists c, In c cs /\ In v c).
Proof.
  intros Hes. unfold components.
  destruct (comps_from_spec n es Hes (seq 0 n) []) as [cs [C1 [C2 [C3 _]]]].
  - intros v Hv. apply in_seq in Hv. lia.
  - constructor.
  - exists cs. split; [exact C1|]. split; [exact C2|]. intros v Hv. apply C3, in_seq. lia.
Qed.

(* ---------- combinations ---------- *)
Lemma pairs_In {A} (l : list A) a b : In (a, b) (pairs l) -> In a l /\ In b l.
Proof.
  induction l as [|x t IH]; cbn [pairs]; [intros []|]. intros H. apply in_app_or in H. destruct H as [H|H].
  - apply in_map_iff in H. destruct H as [y [E Hy]]. injection E as -> ->. split; [left; reflexivity|right; exact Hy].
  - destruct (IH H) as [P Q]. split; right; assumption.
Qed.

Lemma pairs_cover {A} (l : list A) a b :
  In a l -> In b l -> a = b \/ In (a, b) (pairs l) \/ In (b, a) (pairs l).
Proof.
  induction l as [|x t IH]; [intros []|]. intros Ha Hb. cbn [pairs].
  destruct Ha as [Ha|Ha], Hb as [Hb|Hb].
  - left. congruence.
  - subst x. right. left. apply in_or_app. left. apply in_map. exact Hb.
  - subst x. right. right. apply in_or_app. left. apply in_map. exact Ha.
  - destruct (IH Ha Hb) as [H|[H|H]]; [left; exact H|right; left|right; right]; apply in_or_app; right; exact H.
Qed.

(* ---------- closest pair ---------- *)
Lemma min_pair_fold dist (P : nat * nat -> Prop) l : forall best,
  (match best with Some b => P b | None => True end) -> (forall x, In x l -> P x) ->
  (best <> None \/ l <> []) ->
  exists b, fold_left (fun best ij =>
               match best with
               | None => Some ij
               | Some b => if Qcltb (dist (fst ij) (snd ij)) (dist (fst b) (snd b)) then Some ij else best
               end) l best = Some b /\ P b.
Proof.
  induction l as [|x l IH]; intros best Hb Hl Hne; cbn [fold_left].
  - destruct best as [b|]; [exists b; split; [reflexivity|exact Hb]|]. destruct Hne as [H|H]; exfalso; apply H; reflexivity.
  - apply IH.
    + destruct best as [b|]; [|apply Hl; left; reflexivity].
      destruct (Qcltb _ _); [apply Hl; left; reflexivity|exact Hb].
    + intros y Hy. apply Hl. right. exact Hy.
    + left. destruct best as [b|]; [destruct (Qcltb _ _)|]; discriminate.
Qed.

Lemma min_pair_spec dist ci cj : ci <> [] -> cj <> [] ->
  exists ij, min_pair dist ci cj = Some ij /\ In (fst ij) ci /\ In (snd ij) cj.
Proof.
  intros Hi Hj. unfold min_pair.
  destruct (min_pair_fold dist (fun ij => In (fst ij) ci /\ In (snd ij) cj) (list_prod ci cj) None) as [b [B1 B2]].
  - exact I.
  - intros [x y] H. apply in_prod_iff in H. exact H.
  - right. destruct ci as [|a ci]; [exfalso; apply Hi; reflexivity|].
    destruct cj as [|b cj]; [exfalso; apply Hj; reflexivity|].
    intros E. assert (H : In (a, b) (list_prod (a :: ci) (b :: cj))) by (apply in_prod; left; reflexivity).
    rewrite E in H. destruct H.
  - exists b. split; [exact B1|exact B2].
Qed.

(* ---------- joining ---------- *)
Lemma join_fold n dist ps :
  (forall cc, In cc ps -> (fst cc <> [] /\ bounded_l n (fst cc)) /\ (snd cc <> [] /\ bounded_l n (snd cc))) ->
  forall es, bounded_es n es ->
  exists es2, fold_left (join_step dist) ps (Some es) = Some es2 /\ incl es es2 /\ bounded_es n es2 /\
              (forall cc, In cc ps -> exists i j, In i (fst cc) /\ In j (snd cc) /\ has_edge es2 i j = true).
Proof.
  induction ps as [|cc ps IH]; intros Hps es Hes; cbn [fold_left].
  - exists es. split; [reflexivity|]. split; [apply incl_refl|]. split; [exact Hes|intros cc []].
  - destruct (Hps cc (or_introl eq_refl)) as [[A1 A2] [B1 B2]].
    destruct (min_pair_spec dist (fst cc) (snd cc) A1 B1) as [ij [M1 [M2 M3]]].
    unfold join_step at 2. rewrite M1.
    destruct (IH (fun c Hc => Hps c (or_intror Hc)) (add_edge es (fst ij) (snd ij))) as [es2 [E1 [E2 [E3 E4]]]].
    { apply add_edge_bounded; [exact Hes|apply A2; exact M2|apply B2; exact M3]. }
    exists es2. split; [exact E1|]. split; [eapply incl_tran; [apply add_edge_incl|exact E2]|]. split; [exact E3|].
    intros c [Hc|Hc]; [|apply E4; exact Hc]. subst c. exists (fst ij), (snd ij). split; [exact M2|]. split; [exact M3|].
    eapply has_edge_incl; [exact E2|apply add_edge_has].
Qed.

Lemma join_spec n dist cs es : Forall (good_comp n es) cs -> bounded_es n es ->
  exists es2, join dist cs es = Some es2 /\ incl es es2 /\ bounded_es n es2 /\
              (forall ci cj, In (ci, cj) (pairs cs) -> exists i j, In i ci /\ In j cj /\ has_edge es2 i j = true).
Proof.
  intros Hcs Hes. unfold join. rewrite Forall_forall in Hcs.
  destruct (join_fold n dist (pairs cs)) with (es := es) as [es2 [E1 [E2 [E3 E4]]]].
  - intros [ci cj] H. apply pairs_In in H. destruct H as [Hi Hj]. cbn [fst snd].
    destruct (Hcs ci Hi) as [A [B _]]. destruct (Hcs cj Hj) as [C [D _]]. repeat split; assumption.
  - exact Hes.
  - exists es2. split; [exact E1|]. split; [exact E2|]. split; [exact E3|].
    intros ci cj H. apply (E4 (ci, cj) H).
Qed.

Lemma joined_connected n es es2 cs :
  Forall (good_comp n es) cs -> (forall v, v < n -> exists c, In c cs /\ In v c) -> incl es es2 ->
  (forall ci cj, In (ci, cj) (pairs cs) -> exists i j, In i ci /\ In j cj /\ has_edge es2 i j = true) ->
  connected n es2.
Proof.
  intros Hcs Hcov Hinc Hp u v Hu Hv. rewrite Forall_forall in Hcs.
  destruct (Hcov u Hu) as [cu [Cu Iu]]. destruct (Hcov v Hv) as [cv [Cv Iv]].
  destruct (Hcs cu Cu) as [_ [_ Ru]]. destruct (Hcs cv Cv) as [_ [_ Rv]].
  destruct (pairs_cover cs cu cv Cu Cv) as [E|[H|H]].
  - subst cv. eapply reach_mono; [exact Hinc|apply Ru; assumption].
  - destruct (Hp cu cv H) as [i [j [Hi [Hj He]]]].
    eapply reach_trans; [eapply reach_mono; [exact Hinc|apply Ru; [exact Iu|exact Hi]]|].
    eapply reach_trans; [apply rt_step; exact He|]. eapply reach_mono; [exact Hinc|apply Rv; assumption].
  - destruct (Hp cv cu H) as [i [j [Hi [Hj He]]]].
    eapply reach_trans; [eapply reach_mono; [exact Hinc|apply Ru; [exact Iu|exact Hj]]|].
    eapply reach_trans; [apply reach_sym, rt_step; exact He|]. eapply reach_mono; [exact Hinc|apply Rv; assumption].
Qed.

(* ---------- hydrogen-bond and constraint edges ---------- *)
Lemma hbond_step_spec c09 a dist n es : bounded_es n es ->
  incl es (hbond_step c09 a dist n es) /\ bounded_es n (hbond_step c09 a dist n es).
Proof.
  unfold hbond_step. intros Hes.
  assert (Hp : forall ij, In ij (pairs (seq 0 n)) -> fst ij < n /\ snd ij < n).
  { intros [i j] H. apply pairs_In in H. destruct H as [A B]. apply in_seq in A. apply in_seq in B. cbn [fst snd]. lia. }
  revert es Hes. induction (pairs (seq 0 n)) as [|ij l IH]; intros es Hes; cbn [fold_left].
  - split; [apply incl_refl|exact Hes].
  - destruct (Hp ij (or_introl eq_refl)) as [A B].
    destruct (hb_pair a (fst ij) (snd ij) && Qcltb _ _).
    + destruct (IH (fun x Hx => Hp x (or_intror Hx)) (add_edge es (fst ij) (snd ij))) as [I1 I2].
      { apply add_edge_bounded; assumption. }
      split; [eapply incl_tran; [apply add_edge_incl|exact I1]|exact I2].
    + apply IH; [intros x Hx; apply Hp; right; exact Hx|exact Hes].
Qed.

Lemma add_constraints_spec n cons : bounded_es n cons -> forall es, bounded_es n es ->
  incl es (add_constraints cons es) /\ bounded_es n (add_constraints cons es) /\
  (forall e, In e cons -> has_edge (add_constraints cons es) (fst e) (snd e) = true).
Proof.
  unfold add_constraints. induction cons as [|c cons IH]; intros Hc es Hes; cbn [fold_left].
  - split; [apply incl_refl|]. split; [exact Hes|intros e []].
  - destruct (Hc c (or_introl eq_refl)) as [A B].
    destruct (IH (fun x Hx => Hc x (or_intror Hx)) (add_edge es (fst c) (snd c))) as [I1 [I2 I3]].
    { apply add_edge_bounded; assumption. }
    split; [eapply incl_tran; [apply add_edge_incl|exact I1]|]. split; [exact I2|].
    intros e [He|He]; [|apply I3; exact He]. subst e. eapply has_edge_incl; [exact I1|apply add_edge_has].
Qed.

Lemma finish_ok n cons es : 1 <= n -> bounded_es n es -> bounded_es n cons -> connected n es ->
  exists es', finish n cons es = COk es' /\ connected n es' /\ incl es es' /\ bounded_es n es' /\
              (forall e, In e cons -> has_edge es' (fst e) (snd e) = true).
Proof.
  intros Hn Hes Hc Hcon. unfold finish. rewrite (is_connected_complete n es Hn Hes Hcon).
  destruct (add_constraints_spec n cons Hc es Hes) as [I1 [I2 I3]].
  exists (add_constraints cons es). split; [reflexivity|]. split; [eapply connected_mono; eassumption|].
  split; [exact I1|]. split; [exact I2|exact I3].
Qed.

(* ---------- the whole function ---------- *)
Lemma connect_graph_ok c09 a dist n cons es :
  1 <= n -> bounded_es n es -> bounded_es n cons ->
  exists es', connect_graph c09 a dist n cons es = COk es' /\ connected n es' /\ incl es es' /\
              (forall e, In e cons -> has_edge es' (fst e) (snd e) = true).
Proof.
  intros Hn Hes Hc. unfold connect_graph.
  destruct (hbond_step_spec c09 a dist n es Hes) as [H1 H2].
  set (es1 := hbond_step c09 a dist n es) in *.
  destruct (is_connected_total n es1 Hn H2) as [b Hb]. rewrite Hb. destruct b.
  - destruct (finish_ok n cons es1 Hn H2 Hc (is_connected_sound n es1 H2 Hb)) as [es' [F1 [F2 [F3 [_ F5]]]]].
    exists es'. split; [exact F1|]. split; [exact F2|]. split; [eapply incl_tran; eassumption|exact F5].
  - destruct (components_spec n es1 H2) as [cs [C1 [C2 C3]]]. rewrite C1.
    destruct (join_spec n dist cs es1 C2 H2) as [es2 [J1 [J2 [J3 J4]]]]. rewrite J1.
    destruct (finish_ok n cons es2 Hn J3 Hc (joined_connected n es1 es2 cs C2 C3 J2 J4)) as [es' [F1 [F2 [F3 [_ F5]]]]].
    exists es'. split; [exact F1|]. split; [exact F2|].
    split; [eapply incl_tran; [exact H1|eapply incl_tran; eassumption]|exact F5].
Qed.
