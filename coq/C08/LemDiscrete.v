(* C08/LemDiscrete.v — lemmas for parts B (close_to), D (index layout) and E (clear_tensors machine). *)
From Coq Require Import Arith ZArith QArith Qabs Qcanon List Bool Lia Lqa Permutation.
From AV.lib Require Import QcInst.
From AV.C08 Require Import Model LemGraph.
Import ListNotations.
Local Open Scope nat_scope.

(* ================================================================================================
   B. close_to
   ================================================================================================ *)
Section CloseTo.
Local Open Scope Q_scope.

Lemma Qltb_true a b : Qltb a b = true <-> a < b.
Proof.
  unfold Qltb. rewrite negb_true_iff. split.
  - intros H. apply Qnot_le_lt. intros C. apply Qle_bool_iff in C. congruence.
  - intros H. destruct (Qle_bool b a) eqn:E; [|reflexivity]. apply Qle_bool_iff in E. lra.
Qed.

Lemma Qltb_false a b : Qltb a b = false <-> b <= a.
Proof.
  unfold Qltb. rewrite negb_false_iff. apply Qle_bool_iff.
Qed.

Lemma Qabs_le_iff x y : Qabs x <= y <-> - y <= x /\ x <= y.
Proof. apply Qabs_Qle_condition. Qed.

Lemma Qabs_gt x y : y < Qabs x -> x < - y \/ y < x.
Proof.
  intros H. destruct (Qlt_le_dec x (- y)) as [A|A]; [left; exact A|].
  destruct (Qlt_le_dec y x) as [B|B]; [right; exact B|].
  exfalso. assert (Qabs x <= y) by (apply Qabs_le_iff; split; assumption). lra.
Qed.

(* the three possible outcomes of the code *)
Lemma close1_cases pi_ q other :
  0 < pi_ ->
  (Qabs (q - other) <= pi_ /\ close1 pi_ q other = q) \/
  (pi_ < q - other /\ close1 pi_ q other == q - 2 * pi_) \/
  (q - other < - pi_ /\ close1 pi_ q other == q + 2 * pi_).
Proof.
  intros Hpi. unfold close1. cbv zeta.
  destruct (Qltb pi_ (Qabs (q - other))) eqn:E.
  - apply Qltb_true in E. apply Qabs_gt in E. right. unfold Qsign. destruct E as [E|E].
    + right. split; [exact E|].
      assert (H1 : Qltb 0 (q - other) = false) by (apply Qltb_false; lra).
      assert (H2 : Qltb (q - other) 0 = true) by (apply Qltb_true; lra).
      rewrite H1, H2. ring.
    + left. split; [exact E|].
      assert (H1 : Qltb 0 (q - other) = true) by (apply Qltb_true; lra).
      rewrite H1. ring.
  - apply Qltb_false in E. left. split; [exact E|reflexivity].
Qed.

(* internals.py:147-150: within the code's actual range |q - other| <= 3 pi the result is within pi
   of the reference and differs from q by a multiple (-1, 0, +1) of 2 pi *)
Lemma close1_within pi_ q other :
  0 < pi_ -> Qabs (q - other) <= 3 * pi_ ->
  Qabs (close1 pi_ q other - other) <= pi_ /\
  (close1 pi_ q other == q \/ close1 pi_ q other == q + 2 * pi_ \/ close1 pi_ q other == q - 2 * pi_).
Proof.
  intros Hpi H. apply Qabs_le_iff in H. destruct H as [H1 H2].
  destruct (close1_cases pi_ q other Hpi) as [[A B]|[[A B]|[A B]]].
  - rewrite B. split; [exact A|left; reflexivity].
  - split; [|right; right; exact B]. rewrite B. apply Qabs_le_iff. split; lra.
  - split; [|right; left; exact B]. rewrite B. apply Qabs_le_iff. split; lra.
Qed.

(* a value already within pi is returned unchanged *)
Lemma close1_id pi_ q other : Qabs (q - other) <= pi_ -> close1 pi_ q other = q.
Proof.
  intros H. unfold close1. cbv zeta.
  assert (E : Qltb pi_ (Qabs (q - other)) = false) by (apply Qltb_false; exact H).
  rewrite E. reflexivity.
Qed.

(* beyond 3 pi ONE shift is not enough: a freshly computed dihedral q in (-pi, pi] against a reference
   that has been followed for more than a full turn *)
Lemma close1_beyond_3pi pi_ : 0 < pi_ ->
  exists q other, Qabs q <= pi_ /\ ~ (Qabs (close1 pi_ q other - other) <= pi_).
Proof.
  intros Hpi. exists pi_, (- (3 * pi_)). split.
  - apply Qabs_le_iff. split; lra.
  - intros H. destruct (close1_cases pi_ pi_ (- (3 * pi_)) Hpi) as [[A B]|[[A B]|[A B]]].
    + apply Qabs_le_iff in A. lra.
    + rewrite B in H. apply Qabs_le_iff in H. lra.
    + lra.
Qed.

Lemma close_to_length pi_ : forall ds qs os,
  length qs = length ds -> length os = length ds -> length (close_to pi_ ds qs os) = length ds.
Proof.
  induction ds as [|d ds IH]; intros [|x qs] [|o os] H1 H2; cbn in *; try reflexivity; try discriminate.
  f_equal. apply IH; lia.
Qed.

Lemma close_to_nth pi_ : forall ds qs os i,
  length qs = length ds -> length os = length ds -> (i < length ds)%nat ->
  nth i (close_to pi_ ds qs os) 0 =
  if nth i ds false then close1 pi_ (nth i qs 0) (nth i os 0) else nth i qs 0.
Proof.
  induction ds as [|d ds IH]; intros [|x qs] [|o os] i H1 H2 Hi; cbn [length] in *; try lia; try discriminate.
  destruct i as [|i]; cbn [close_to nth]; [reflexivity|]. apply IH; lia.
Qed.
End CloseTo.

(* ================================================================================================
   E. clear_tensors machine
   ================================================================================================ *)
Lemma crun_app k s a b : crun k s (a ++ b) = crun k (crun k s a) b.
Proof. unfold crun. apply fold_left_app. Qed.

Lemma change_clears k s o : is_change o = true ->
  t_e (cstep k s o) = None /\ t_g (cstep k s o) = None /\ t_h (cstep k s o) = None /\ t_hinv (cstep k s o) = None /\
  ver (cstep k s o) = S (ver s).
Proof. destruct k, o; cbn; intros H; try discriminate; repeat split. Qed.

(* every stored tensor (the inverse Hessian included) was stored at the current coordinates *)
Definition all_fresh (s : cstate) : Prop :=
  fresh_tag s (t_e s) /\ fresh_tag s (t_g s) /\ fresh_tag s (t_h s) /\ fresh_tag s (t_hinv s).

Lemma all_fresh_cleared s : all_fresh (cleared s).
Proof. unfold all_fresh. cbn. auto. Qed.
Lemma all_fresh_changed s : all_fresh (changed s).
Proof. unfold all_fresh. cbn. auto. Qed.
Lemma all_fresh_raw_dic s : all_fresh (raw_iadd KDic s).
Proof. apply all_fresh_changed. Qed.
Lemma all_fresh_cadd k s : all_fresh (cadd k s).
Proof. destruct k; unfold all_fresh; cbn; auto. Qed.

Lemma all_fresh_raw k s : all_fresh (raw_iadd k s).
Proof. destruct k; unfold all_fresh; cbn; auto. Qed.

Lemma cstep_fresh k s o : all_fresh s -> all_fresh (cstep k s o).
Proof.
  intros [A [B [C D]]].
  destruct o as [| | | | | | | | |b|b|b|b| |]; cbn [cstep].
  - apply all_fresh_changed.
  - apply all_fresh_cadd.
  - apply all_fresh_cadd.
  - repeat split; assumption.
  - apply all_fresh_cadd.
  - apply all_fresh_cadd.
  - apply all_fresh_raw.
  - apply all_fresh_cleared.
  - repeat split; assumption.
  - unfold all_fresh. destruct b; cbn; (split; [first [reflexivity|exact I]|split; [exact B|split; [exact C|exact D]]]).
  - unfold all_fresh. destruct b; cbn; (split; [exact A|split; [first [reflexivity|exact I]|split; [exact C|exact D]]]).
  - unfold all_fresh. destruct b; cbn; (split; [exact A|split; [exact B|split; [first [reflexivity|exact I]|exact D]]]).
  - unfold all_fresh. destruct b; cbn; (split; [exact A|split; [exact B|split; [exact C|first [reflexivity|exact I]]]]).
  - unfold all_fresh. destruct (t_h s) eqn:Eh; [cbn; rewrite ?Eh; repeat split; assumption|].
    destruct (t_hinv s) eqn:Ei; cbn; rewrite ?Eh, ?Ei; repeat split; try assumption; try exact I.
  - unfold all_fresh. destruct (t_hinv s) eqn:Ei; [cbn; rewrite ?Ei; repeat split; assumption|].
    destruct (t_h s) eqn:Eh; cbn; rewrite ?Eh, ?Ei; repeat split; try assumption; try exact I.
Qed.

Lemma crun_fresh k ops : forall s, all_fresh s -> all_fresh (crun k s ops).
Proof.
  induction ops as [|o ops IH]; intros s Hs; [exact Hs|].
  cbn [crun fold_left]. apply IH. apply cstep_fresh. exact Hs.
Qed.

Lemma raw_iadd_clears k s :
  t_e (raw_iadd k s) = None /\ t_g (raw_iadd k s) = None /\ t_h (raw_iadd k s) = None /\ t_hinv (raw_iadd k s) = None /\
  ver (raw_iadd k s) = S (ver s).
Proof. destruct k; cbn; repeat split. Qed.

(* ================================================================================================
   D. index layout
   ================================================================================================ *)
Lemma sat_from_spec flags : forall k i,
  In i (sat_from k flags) <-> k <= i /\ i < k + length flags /\ nth (i - k) flags false = true.
Proof.
  induction flags as [|b r IH]; intros k i; cbn [sat_from length].
  - split; [intros []|]. intros [A [B _]]. lia.
  - assert (Hr : In i (sat_from (S k) r) <-> S k <= i /\ i < k + S (length r) /\ nth (i - k) (b :: r) false = true).
    { rewrite IH. split; intros [A [B C]]; (split; [lia|split; [lia|]]).
      - replace (i - k) with (S (i - S k)) by lia. exact C.
      - replace (i - k) with (S (i - S k)) in C by lia. exact C. }
    destruct b.
    + cbn [In]. rewrite Hr. split.
      * intros [E|[A [B C]]]; [subst; split; [lia|split; [lia|]]; rewrite Nat.sub_diag; reflexivity|].
        split; [lia|split; [lia|exact C]].
      * intros [A [B C]]. destruct (Nat.eq_dec k i) as [E|E]; [left; exact E|right]. split; [lia|split; [lia|exact C]].
    + rewrite Hr. split.
      * intros [A [B C]]. split; [lia|split; [lia|exact C]].
      * intros [A [B C]]. destruct (Nat.eq_dec k i) as [E|E].
        { subst. rewrite Nat.sub_diag in C. cbn in C. discriminate. }
        split; [lia|split; [lia|exact C]].
Qed.

Lemma sat_from_NoDup flags : forall k, NoDup (sat_from k flags).
Proof.
  induction flags as [|b r IH]; intros k; cbn [sat_from]; [constructor|].
  destruct b; [|apply IH]. constructor; [|apply IH].
  intros H. apply sat_from_spec in H. lia.
Qed.

Lemma sat_idxs_spec flags i : In i (sat_idxs flags) <-> i < length flags /\ nth i flags false = true.
Proof.
  unfold sat_idxs. rewrite sat_from_spec. rewrite Nat.sub_0_r. split; intros H; [destruct H as [_ H]; exact H|].
  split; [lia|exact H].
Qed.

Lemma NoDup_map_inj {A B} (f : A -> B) l :
  (forall x y, In x l -> In y l -> f x = f y -> x = y) -> NoDup l -> NoDup (map f l).
Proof.
  induction l as [|a l IH]; intros Hf Hn; cbn [map]; [constructor|].
  inversion Hn as [|? ? Ha Hl]; subst. constructor.
  - intros H. apply in_map_iff in H. destruct H as [y [E Hy]].
    assert (y = a) by (apply Hf; [right; exact Hy|left; reflexivity|exact E]). subst. exact (Ha Hy).
  - apply IH; [|exact Hl]. intros x y Hx Hy. apply Hf; right; assumption.
Qed.

Lemma inactive_spec n flags i : length flags <= n ->
  (In i (inactive_indexes n flags) <->
   exists t, t < length flags /\ nth t flags false = true /\ (i = n - length flags + t \/ i = n + t)).
Proof.
  intros Hm. unfold inactive_indexes. cbv zeta. rewrite in_app_iff, !in_map_iff. split.
  - intros [[t [E H]]|[t [E H]]]; apply sat_idxs_spec in H; destruct H as [A B]; exists t;
      (split; [exact A|split; [exact B|]]); [left|right]; symmetry; exact E.
  - intros [t [A [B [E|E]]]]; [left|right]; exists t; (split; [symmetry; exact E|apply sat_idxs_spec; split; assumption]).
Qed.

Lemma inactive_NoDup n flags : length flags <= n -> NoDup (inactive_indexes n flags).
Proof.
  intros Hm. unfold inactive_indexes. cbv zeta. apply NoDup_app_intro.
  - apply NoDup_map_inj; [intros; lia|apply sat_from_NoDup].
  - apply NoDup_map_inj; [intros; lia|apply sat_from_NoDup].
  - intros x H1 H2. apply in_map_iff in H1. apply in_map_iff in H2.
    destruct H1 as [t [E1 T1]]. destruct H2 as [u [E2 T2]].
    apply sat_idxs_spec in T1. apply sat_idxs_spec in T2. lia.
Qed.

Lemma inactive_bound n flags i : length flags <= n -> In i (inactive_indexes n flags) -> i < n + length flags.
Proof.
  intros Hm H. apply inactive_spec in H; [|exact Hm]. destruct H as [t [A [_ [E|E]]]]; lia.
Qed.

Lemma active_spec n flags i :
  In i (active_indexes n flags) <-> i < n + length flags /\ ~ In i (inactive_indexes n flags).
Proof.
  unfold active_indexes. cbv zeta. rewrite filter_In, in_seq, negb_true_iff, mem_false. split; intros [A B]; (split; [lia|exact B]).
Qed.

Lemma layout_partition n flags : length flags <= n ->
  Permutation (active_indexes n flags ++ inactive_indexes n flags) (seq 0 (n + length flags)).
Proof.
  intros Hm. apply NoDup_Permutation.
  - apply NoDup_app_intro.
    + unfold active_indexes. cbv zeta. apply NoDup_filter, seq_NoDup.
    + apply inactive_NoDup; exact Hm.
    + intros x H1 H2. apply active_spec in H1. destruct H1 as [_ H1]. exact (H1 H2).
  - apply seq_NoDup.
  - intros x. rewrite in_app_iff, in_seq, active_spec. split.
    + intros [[A _]|H]; [lia|]. pose proof (inactive_bound n flags x Hm H). lia.
    + intros [_ H]. destruct (in_dec Nat.eq_dec x (inactive_indexes n flags)) as [I|I]; [right; exact I|left].
      split; [lia|exact I].
Qed.
