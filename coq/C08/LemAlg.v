(* C08/LemAlg.v — algebra over an arbitrary field (Leibniz equality): Schmidt orthogonalisation (C),
   the Lagrangian g/h assembly (D) and the pull-back of gradient and Hessian (F).  Every lemma holds
   for every dimension. *)
From Coq Require Import Arith List Bool Lia Field Ring.
From AV.lib Require Import Sums.
From AV.C08 Require Import Model.
Import ListNotations.
Local Open Scope nat_scope.

Section Alg.
Variable F : Type.
Variables (F0 F1 : F) (Fadd Fmul Fsub : F -> F -> F) (Fopp : F -> F) (Fdiv : F -> F -> F) (Finv : F -> F).
Hypothesis Fth : field_theory F0 F1 Fadd Fmul Fsub Fopp Fdiv Finv (@eq F).
Add Field FfC08 : Fth.
Variable fsqrt : F -> F.

Declare Scope F_scope.
Delimit Scope F_scope with F.
Notation "0" := F0 : F_scope.
Notation "1" := F1 : F_scope.
Infix "+" := Fadd : F_scope.
Infix "*" := Fmul : F_scope.
Infix "-" := Fsub : F_scope.
Infix "/" := Fdiv : F_scope.
Notation "- x" := (Fopp x) : F_scope.

Notation vec := (nat -> F).
Notation mat := (nat -> nat -> F).
Notation sum := (Sums.sum F F0 Fadd).
Notation dot := (Sums.dot F F0 Fadd Fmul).
Notation vsub := (Sums.vsub F Fsub).
Notation vscal := (Sums.vscal F Fmul).
Notation vdivs := (Sums.vdivs F Fdiv).
Notation matmul := (Sums.matmul F F0 Fadd Fmul).
Notation matvec := (Sums.matvec F F0 Fadd Fmul).
Notation transpose := (Sums.transpose F).
Notation unitv := (Model.unitv F F0 F1).
Notation proj_sub := (Model.proj_sub F F0 Fadd Fmul Fsub Fdiv).
Notation mgs := (Model.mgs F F0 Fadd Fmul Fsub Fdiv).
Notation normalize := (Model.normalize F F0 Fadd Fmul Fdiv fsqrt).
Notation schmidt_step := (Model.schmidt_step F F0 Fadd Fmul Fsub Fdiv fsqrt).
Notation schmidt_raw := (Model.schmidt_raw F F0 F1 Fadd Fmul Fsub Fdiv fsqrt).
Notation schmidt := (Model.schmidt F F0 F1 Fadd Fmul Fsub Fdiv fsqrt).
Notation no_zero := (Model.no_zero F F0 Fadd Fmul Fsub Fdiv fsqrt).
Notation sqrt_exact := (Model.sqrt_exact F F0 Fadd Fmul Fsub Fdiv fsqrt).
Notation upd := (Model.upd F).
Notation upd2 := (Model.upd2 F).
Notation g_full := (Model.g_full F F0 F1 Fmul Fsub Fopp).
Notation zero_rowcol := (Model.zero_rowcol F F0).
Notation h_full := (Model.h_full F F0 F1 Fopp).
Notation pull_g := (Model.pull_g F F0 Fadd Fmul).
Notation pull_h := (Model.pull_h F F0 Fadd Fmul).
Notation projP := (Model.projP F F0 Fadd Fmul).

Let sum_ext' := sum_ext F F0 Fadd.
Let sum_zero' := sum_zero F F0 F1 Fadd Fmul Fsub Fopp Fdiv Finv Fth.
Let sum_add' := sum_add F F0 F1 Fadd Fmul Fsub Fopp Fdiv Finv Fth.
Let sum_scal_l' := sum_scal_l F F0 F1 Fadd Fmul Fsub Fopp Fdiv Finv Fth.
Let sum_scal_r' := sum_scal_r F F0 F1 Fadd Fmul Fsub Fopp Fdiv Finv Fth.
Let sum_div_r' := sum_div_r F F0 F1 Fadd Fmul Fsub Fopp Fdiv Finv Fth.
Let sum_swap' := sum_swap F F0 F1 Fadd Fmul Fsub Fopp Fdiv Finv Fth.
Let sum_single' := sum_single F F0 F1 Fadd Fmul Fsub Fopp Fdiv Finv Fth.
Let dot_comm' := dot_comm F F0 F1 Fadd Fmul Fsub Fopp Fdiv Finv Fth.
Let dot_vsub_r' := dot_vsub_r F F0 F1 Fadd Fmul Fsub Fopp Fdiv Finv Fth.
Let dot_vscal_r' := dot_vscal_r F F0 F1 Fadd Fmul Fsub Fopp Fdiv Finv Fth.

Local Open Scope F_scope.

Lemma F1_neq_0 : 1 <> 0.
Proof. exact (F_1_neq_0 Fth). Qed.

(* ================================================================================================
   C. Schmidt
   ================================================================================================ *)
Lemma dot_unitv_l np k v : (k < np)%nat -> dot np (unitv k) v = v k.
Proof.
  intros Hk. unfold Sums.dot, Model.unitv.
  rewrite (sum_ext' np _ (fun i => if Nat.eqb i k then v i else 0)).
  - apply sum_single'. exact Hk.
  - intros i _. destruct (Nat.eqb i k); ring.
Qed.

Lemma dot_unitv_unitv np a b : (a < np)%nat -> dot np (unitv a) (unitv b) = if Nat.eqb a b then 1 else 0.
Proof. intros Ha. rewrite dot_unitv_l by exact Ha. reflexivity. Qed.

Lemma dot_proj_sub np x v u :
  dot np x (proj_sub np v u) = dot np x v - (dot np u v / dot np u u) * dot np x u.
Proof.
  change (proj_sub np v u) with (vsub v (vscal (dot np u v / dot np u u) u)).
  rewrite dot_vsub_r', dot_vscal_r'. reflexivity.
Qed.

Lemma dot_vdivs_r np a b s : s <> 0 -> dot np a (vdivs b s) = dot np a b / s.
Proof.
  intros Hs. unfold Sums.dot, Sums.vdivs.
  rewrite <- sum_div_r' by exact Hs. apply sum_ext'. intros i _. field. exact Hs.
Qed.

Definition orthonormal (np : nat) (us : list vec) : Prop :=
  (forall u, In u us -> dot np u u = 1) /\ ForallOrdPairs (fun a b => dot np a b = 0) us.

Lemma FOP_app_elim {A} (R : A -> A -> Prop) l1 l2 :
  ForallOrdPairs R (l1 ++ l2) ->
  ForallOrdPairs R l1 /\ ForallOrdPairs R l2 /\ (forall a b, In a l1 -> In b l2 -> R a b).
Proof.
  induction l1 as [|x l1 IH]; cbn [app]; intros H.
  - split; [constructor|]. split; [exact H|intros a b []].
  - inversion H as [|? ? Hx Hl]; subst. destruct (IH Hl) as [A1 [A2 A3]].
    rewrite Forall_app in Hx. destruct Hx as [X1 X2]. split; [constructor; assumption|]. split; [exact A2|].
    intros a b [Ha|Ha] Hb; [subst; rewrite Forall_forall in X2; apply X2; exact Hb|apply A3; assumption].
Qed.

Lemma FOP_app_intro {A} (R : A -> A -> Prop) l1 l2 :
  ForallOrdPairs R l1 -> ForallOrdPairs R l2 -> (forall a b, In a l1 -> In b l2 -> R a b) ->
  ForallOrdPairs R (l1 ++ l2).
Proof.
  induction l1 as [|x l1 IH]; cbn [app]; intros H1 H2 H; [exact H2|].
  inversion H1 as [|? ? Hx Hl]; subst. constructor.
  - apply Forall_app. split; [exact Hx|]. apply Forall_forall. intros b Hb. apply H; [left; reflexivity|exact Hb].
  - apply IH; [exact Hl|exact H2|]. intros a b Ha Hb. apply H; [right; exact Ha|exact Hb].
Qed.

Lemma orthonormal_swap np l1 l2 : orthonormal np (l1 ++ l2) -> orthonormal np (l2 ++ l1).
Proof.
  intros [H1 H2]. split.
  - intros u Hu. apply H1. apply in_app_or in Hu. apply in_or_app. tauto.
  - destruct (FOP_app_elim _ _ _ H2) as [A [B C]]. apply FOP_app_intro; [exact B|exact A|].
    intros a b Ha Hb. rewrite dot_comm'. apply C; assumption.
Qed.

(* modified Gram-Schmidt leaves a vector orthogonal to every vector it was projected against *)
Lemma mgs_orth_gen np : forall l2 l1 v,
  orthonormal np (l1 ++ l2) -> (forall x, In x l1 -> dot np x v = 0) ->
  forall x, In x (l1 ++ l2) -> dot np x (fold_left (proj_sub np) l2 v) = 0.
Proof.
  induction l2 as [|u l2 IH]; intros l1 v Ho Hv x Hx; cbn [fold_left].
  - rewrite app_nil_r in Hx. apply Hv. exact Hx.
  - assert (E : l1 ++ u :: l2 = (l1 ++ [u]) ++ l2) by (rewrite <- app_assoc; reflexivity).
    rewrite E in Ho, Hx. apply (IH (l1 ++ [u])); [exact Ho| |exact Hx].
    intros y Hy. rewrite dot_proj_sub. destruct Ho as [Hn Hp].
    apply in_app_or in Hy. destruct Hy as [Hy|[Hy|[]]].
    + rewrite (Hv y Hy).
      assert (Hyu : dot np y u = 0).
      { rewrite <- E in Hp. destruct (FOP_app_elim _ _ _ Hp) as [_ [_ C]]. apply C; [exact Hy|left; reflexivity]. }
      rewrite Hyu. ring.
    + subst y. assert (Huu : dot np u u = 1) by (apply Hn; apply in_or_app; left; apply in_or_app; right; left; reflexivity).
      rewrite Huu. field. exact F1_neq_0.
Qed.

Lemma mgs_orth np us a : orthonormal np us -> forall x, In x us -> dot np x (mgs np us a) = 0.
Proof.
  intros Ho x Hx. unfold Model.mgs. apply (mgs_orth_gen np us [] a); [exact Ho|intros y []|exact Hx].
Qed.

Lemma schmidt_step_orthonormal np us a :
  orthonormal np us ->
  dot np (mgs np us a) (mgs np us a) <> 0 ->
  fsqrt (dot np (mgs np us a) (mgs np us a)) * fsqrt (dot np (mgs np us a) (mgs np us a))
    = dot np (mgs np us a) (mgs np us a) ->
  orthonormal np (schmidt_step np us a).
Proof.
  intros Ho Hnz Hsq. unfold Model.schmidt_step.
  set (w := mgs np us a) in *. set (s := fsqrt (dot np w w)) in *.
  assert (Hs : s <> 0) by (intros E; apply Hnz; rewrite <- Hsq, E; ring).
  change (normalize np w) with (vdivs w s).
  assert (Hnn : dot np (vdivs w s) (vdivs w s) = 1).
  { rewrite dot_vdivs_r by exact Hs. rewrite dot_comm', dot_vdivs_r by exact Hs. rewrite <- Hsq. field. exact Hs. }
  assert (Hor : forall x, In x us -> dot np x (vdivs w s) = 0).
  { intros x Hx. rewrite dot_vdivs_r by exact Hs. unfold w. rewrite (mgs_orth np us a Ho x Hx). field. exact Hs. }
  destruct Ho as [H1 H2]. split.
  - intros u Hu. apply in_app_or in Hu. destruct Hu as [Hu|[Hu|[]]]; [apply H1; exact Hu|subst u; exact Hnn].
  - apply FOP_app_intro; [exact H2|constructor; constructor|]. intros x b Hx [Hb|[]]. subst b. apply Hor. exact Hx.
Qed.

Lemma schmidt_fold_orthonormal np : forall todo us,
  orthonormal np us -> no_zero np us todo -> sqrt_exact np us todo ->
  orthonormal np (fold_left (schmidt_step np) todo us).
Proof.
  induction todo as [|a t IH]; intros us Ho Hz Hq; cbn [fold_left]; [exact Ho|].
  cbn [Model.no_zero] in Hz. cbn [Model.sqrt_exact] in Hq. cbv zeta in Hq.
  destruct Hz as [Z1 Z2]. destruct Hq as [Q1 Q2].
  apply IH; [apply schmidt_step_orthonormal; assumption|exact Z2|exact Q2].
Qed.

Lemma schmidt_fold_shape np : forall todo us,
  exists tl, fold_left (schmidt_step np) todo us = us ++ tl /\ length tl = length todo.
Proof.
  induction todo as [|a t IH]; intros us; cbn [fold_left].
  - exists []. rewrite app_nil_r. split; reflexivity.
  - change (schmidt_step np us a) with (us ++ [normalize np (mgs np us a)]).
    destruct (IH (us ++ [normalize np (mgs np us a)])) as [tl [E L]].
    exists (normalize np (mgs np us a) :: tl). split; [rewrite E, <- app_assoc; reflexivity|cbn [length]; lia].
Qed.

Lemma unit_orthonormal np : forall idxs, NoDup idxs -> (forall k, In k idxs -> (k < np)%nat) ->
  orthonormal np (map unitv idxs).
Proof.
  induction idxs as [|a l IH]; intros Hn Hb; cbn [map].
  - split; [intros u []|constructor].
  - inversion Hn as [|? ? Ha Hl]; subst.
    destruct (IH Hl (fun k Hk => Hb k (or_intror Hk))) as [I1 I2].
    assert (Ha' : (a < np)%nat) by (apply Hb; left; reflexivity). split.
    + intros u [Hu|Hu]; [subst u; rewrite dot_unitv_unitv by exact Ha'; rewrite Nat.eqb_refl; reflexivity|apply I1; exact Hu].
    + constructor; [|exact I2]. apply Forall_forall. intros v Hv. apply in_map_iff in Hv. destruct Hv as [b [E Hb']]. subst v.
      rewrite dot_unitv_unitv by exact Ha'. destruct (Nat.eqb a b) eqn:Eab; [|reflexivity].
      apply Nat.eqb_eq in Eab. subst b. exfalso. exact (Ha Hb').
Qed.

Lemma FOP_nth {A} (R : A -> A -> Prop) d : forall l i j,
  ForallOrdPairs R l -> (i < j)%nat -> (j < length l)%nat -> R (nth i l d) (nth j l d).
Proof.
  induction l as [|x l IH]; intros i j H Hij Hj; cbn [length] in Hj; [lia|].
  inversion H as [|? ? Hx Hl]; subst. destruct j as [|j]; [lia|]. destruct i as [|i]; cbn [nth].
  - rewrite Forall_forall in Hx. apply Hx. apply nth_In. lia.
  - apply IH; [exact Hl|lia|lia].
Qed.

Lemma orthonormal_nth np us d i j : orthonormal np us -> (i < length us)%nat -> (j < length us)%nat ->
  dot np (nth i us d) (nth j us d) = if Nat.eqb i j then 1 else 0.
Proof.
  intros [H1 H2] Hi Hj. destruct (Nat.eqb i j) eqn:E.
  - apply Nat.eqb_eq in E. subst j. apply H1. apply nth_In. exact Hi.
  - apply Nat.eqb_neq in E. destruct (Nat.lt_ge_cases i j) as [L|L].
    + apply (FOP_nth _ d us i j H2 L Hj).
    + rewrite dot_comm'. apply (FOP_nth _ d us j i H2); [lia|exact Hi].
Qed.

Lemma skipn_app_exact {A} (l1 l2 : list A) : skipn (length l1) (l1 ++ l2) = l2.
Proof. induction l1 as [|x l1 IH]; cbn; [reflexivity|exact IH]. Qed.
Lemma firstn_app_exact {A} (l1 l2 : list A) : firstn (length l1) (l1 ++ l2) = l1.
Proof. induction l1 as [|x l1 IH]; cbn; [reflexivity|rewrite IH; reflexivity]. Qed.

(* the main Schmidt lemma; m = length idxs constrained primitives, n = length cols columns *)
Lemma schmidt_spec np cols idxs U :
  NoDup idxs ->
  schmidt np cols idxs = Some U ->
  no_zero np (map unitv idxs) (skipn (length idxs) cols) ->
  sqrt_exact np (map unitv idxs) (skipn (length idxs) cols) ->
  let m := length idxs in let n := length cols in
  (m <= n)%nat /\ (forall k, In k idxs -> (k < np)%nat) /\ length U = n /\ orthonormal np U /\
  (forall t d, (t < m)%nat -> nth (n - m + t) U d = unitv (nth t idxs O)) /\
  (forall c t d, (c < n - m)%nat -> (t < m)%nat -> nth c U d (nth t idxs O) = 0).
Proof.
  intros Hnd Hs Hz Hq m n. unfold Model.schmidt in Hs. fold m n in Hs.
  destruct ((n <? m)%nat || existsb (fun k => (np <=? k)%nat) idxs) eqn:E; [discriminate|].
  apply orb_false_iff in E. destruct E as [E1 E2]. apply Nat.ltb_ge in E1.
  assert (Hb : forall k, In k idxs -> (k < np)%nat).
  { intros k Hk. destruct (Nat.lt_ge_cases k np) as [L|L]; [exact L|].
    assert (C : existsb (fun k => (np <=? k)%nat) idxs = true) by (apply existsb_exists; exists k; split; [exact Hk|apply Nat.leb_le; exact L]).
    congruence. }
  injection Hs as Hs. unfold Model.schmidt_raw in Hs. fold m in Hs.
  destruct (schmidt_fold_shape np (skipn m cols) (map unitv idxs)) as [tl [Esh Ltl]].
  assert (Ho : orthonormal np (map unitv idxs ++ tl)).
  { rewrite <- Esh. apply schmidt_fold_orthonormal; [apply unit_orthonormal; assumption|exact Hz|exact Hq]. }
  rewrite Esh in Hs.
  assert (Lm : length (map unitv idxs) = m) by (rewrite map_length; reflexivity).
  rewrite <- Lm in Hs. rewrite skipn_app_exact, firstn_app_exact in Hs.
  assert (Ltl' : length tl = (n - m)%nat) by (rewrite Ltl, skipn_length; reflexivity).
  split; [exact E1|]. split; [exact Hb|]. subst U. split; [rewrite app_length, Lm, Ltl'; lia|].
  split; [apply orthonormal_swap; exact Ho|]. split.
  - intros t d Ht. rewrite app_nth2 by lia. replace (n - m + t - length tl)%nat with t by lia.
    rewrite (nth_indep _ d (unitv O)) by (rewrite Lm; exact Ht). apply map_nth.
  - intros c t d Hc Ht. rewrite app_nth1 by lia.
    assert (Hk : (nth t idxs O < np)%nat) by (apply Hb, nth_In; exact Ht).
    rewrite <- (dot_unitv_l np _ (nth c tl d) Hk).
    destruct Ho as [_ Hp]. destruct (FOP_app_elim _ _ _ Hp) as [_ [_ C]]. apply C.
    + apply in_map. apply nth_In. exact Ht.
    + apply nth_In. lia.
Qed.

(* sums of squares are non-negative in an ordered field, hence a sqrt that is right on non-negative
   numbers is right on every squared length *)
Section Ordered.
Variable Fle : F -> F -> Prop.
Hypothesis Fle_refl0 : Fle 0 0.
Hypothesis Fle_sq : forall x, Fle 0 (x * x).
Hypothesis Fle_add : forall a b, Fle 0 a -> Fle 0 b -> Fle 0 (a + b).
Hypothesis sqrt_spec : forall x, Fle 0 x -> fsqrt x * fsqrt x = x.

Lemma dot_self_nonneg np v : Fle 0 (dot np v v).
Proof.
  unfold Sums.dot. induction np as [|k IH]; cbn [Sums.sum]; [exact Fle_refl0|]. apply Fle_add; [exact IH|apply Fle_sq].
Qed.

Lemma sqrt_exact_all np : forall todo us, sqrt_exact np us todo.
Proof.
  induction todo as [|a t IH]; intros us; cbn [Model.sqrt_exact]; [exact I|]. cbv zeta.
  split; [apply sqrt_spec, dot_self_nonneg|apply IH].
Qed.
End Ordered.

(* ================================================================================================
   D. g / h assembly
   ================================================================================================ *)
Lemma sum_split n m (f : nat -> F) : sum (n + m) f = sum n f + sum m (fun i => f (n + i)%nat).
Proof.
  induction m as [|m IH].
  - rewrite Nat.add_0_r. cbn [Sums.sum]. ring.
  - rewrite Nat.add_succ_r. cbn [Sums.sum]. rewrite IH. ring.
Qed.

Ltac bd :=
  repeat match goal with
  | |- context [Nat.ltb ?a ?b] => destruct (Nat.ltb_spec a b)
  | |- context [Nat.leb ?a ?b] => destruct (Nat.leb_spec a b)
  | |- context [Nat.eqb ?a ?b] => destruct (Nat.eqb_spec a b)
  end; cbn [andb orb negb]; try lia; try reflexivity.

(* a fold of point updates at k0+s, k0+s+1, ... : position r is rewritten once, from its initial value *)
Lemma fold_upd_shift k0 (f : F -> nat -> F) : forall m s (a0 : vec) r,
  fold_left (fun a i => upd a (k0 + i) (f (a (k0 + i)%nat) i)) (seq s m) a0 r =
  if ((k0 + s <=? r) && (r <? k0 + s + m))%nat then f (a0 r) (r - k0)%nat else a0 r.
Proof.
  induction m as [|m IH]; intros s a0 r; cbn [seq fold_left].
  - bd.
  - rewrite IH. unfold Model.upd.
    destruct (Nat.eqb_spec r (k0 + s)) as [E|E].
    + subst r. replace (k0 + s - k0)%nat with s by lia. bd.
    + bd.
Qed.

Lemma g_full_spec n m g lam delta r : (m <= n)%nat ->
  g_full n m g lam delta r =
  if (r <? n - m)%nat then g r
  else if (r <? n)%nat then g r - lam (r - (n - m))%nat * 1
  else if (r <? n + m)%nat then - delta (r - n)%nat
  else 0.
Proof.
  intros Hm. unfold Model.g_full. cbv zeta.
  rewrite (fold_upd_shift n (fun _ i => - delta i) m 0).
  rewrite (fold_upd_shift (n - m) (fun x i => x - lam i * 1) m 0).
  bd.
Qed.

Definition couple_cond (n m s m' r c : nat) : bool :=
  ((n + s <=? r) && (r <? n + s + m') && (c + m =? r))%nat ||
  ((n + s <=? c) && (c <? n + s + m') && (r + m =? c))%nat.

Lemma couple_cond_true n m s m' r c : couple_cond n m s m' r c = true ->
  ((n + s <= r)%nat /\ (r < n + s + m')%nat /\ (c + m = r)%nat) \/
  ((n + s <= c)%nat /\ (c < n + s + m')%nat /\ (r + m = c)%nat).
Proof.
  unfold couple_cond. rewrite orb_true_iff, !andb_true_iff, !Nat.leb_le, !Nat.ltb_lt, !Nat.eqb_eq. tauto.
Qed.

Lemma couple_cond_false n m s m' r c : couple_cond n m s m' r c = false ->
  ~ (((n + s <= r)%nat /\ (r < n + s + m')%nat /\ (c + m = r)%nat) \/
     ((n + s <= c)%nat /\ (c < n + s + m')%nat /\ (r + m = c)%nat)).
Proof.
  intros H C. assert (couple_cond n m s m' r c = true); [|congruence].
  unfold couple_cond. rewrite orb_true_iff, !andb_true_iff, !Nat.leb_le, !Nat.ltb_lt, !Nat.eqb_eq. tauto.
Qed.

Lemma fold_couple n m x : (m <= n)%nat -> forall m' s (A0 : mat) r c,
  fold_left (fun A i => upd2 (upd2 A (n + i) (n - m + i) x) (n - m + i) (n + i) x) (seq s m') A0 r c =
  if couple_cond n m s m' r c then x else A0 r c.
Proof.
  intros Hm. induction m' as [|m' IH]; intros s A0 r c; cbn [seq fold_left].
  - destruct (couple_cond n m s 0 r c) eqn:E; [|reflexivity]. apply couple_cond_true in E. lia.
  - rewrite IH. unfold Model.upd2.
    destruct (couple_cond n m (S s) m' r c) eqn:E1; destruct (couple_cond n m s (S m') r c) eqn:E2;
      first [apply couple_cond_true in E1|apply couple_cond_false in E1];
      first [apply couple_cond_true in E2|apply couple_cond_false in E2];
      destruct (Nat.eqb_spec r (n - m + s)), (Nat.eqb_spec c (n + s)),
               (Nat.eqb_spec r (n + s)), (Nat.eqb_spec c (n - m + s));
      cbn [andb]; try reflexivity; exfalso; lia.
Qed.

Lemma fold_zero_rowcol n : forall m' s (A0 : mat) r c,
  fold_left (fun A i => zero_rowcol A (n + i)) (seq s m') A0 r c =
  if (((n + s <=? r) && (r <? n + s + m')) || ((n + s <=? c) && (c <? n + s + m')))%nat then 0 else A0 r c.
Proof.
  induction m' as [|m' IH]; intros s A0 r c; cbn [seq fold_left].
  - bd.
  - rewrite IH. unfold Model.zero_rowcol. bd.
Qed.

Lemma h_full_spec n m h r c : (m <= n)%nat ->
  h_full n m h r c =
  if ((r <? n) && (c <? n))%nat then h r c
  else if couple_cond n m 0 m r c then - (1) else 0.
Proof.
  intros Hm. unfold Model.h_full. cbv zeta.
  rewrite (fold_couple n m (- (1)) Hm m 0). rewrite fold_zero_rowcol.
  destruct (couple_cond n m 0 m r c) eqn:E.
  - apply couple_cond_true in E. bd.
  - bd.
Qed.

Lemma h_full_symmetric n m h : (m <= n)%nat ->
  (forall r c, (r < n)%nat -> (c < n)%nat -> h r c = h c r) ->
  forall r c, h_full n m h r c = h_full n m h c r.
Proof.
  intros Hm Hs r c. rewrite !h_full_spec by exact Hm.
  assert (Ec : couple_cond n m 0 m r c = couple_cond n m 0 m c r) by (unfold couple_cond; apply orb_comm).
  rewrite Ec.
  destruct (Nat.ltb_spec r n), (Nat.ltb_spec c n); cbn [andb]; try reflexivity. apply Hs; assumption.
Qed.

(* The assembled g and h are consistent: if the molecular gradient is affine in s with Jacobian h
   and the constraint functions are C_i(s) = s_(n-m+i) - target_i, then the assembled gradient is
   affine in (s, lambda) and its Jacobian is the assembled Hessian (the -1 couplings are exactly
   d/d lambda_i of row n-m+i and d/d s_(n-m+i) of row n+i). *)
Lemma lagrange_gh_consistent n m (G G' : vec) (H : mat) (lam dlam delta delta' ds : vec) :
  (m <= n)%nat ->
  (forall r, (r < n)%nat -> G' r = G r + sum n (fun c => H r c * ds c)) ->
  (forall i, (i < m)%nat -> delta' i = delta i + ds (n - m + i)%nat) ->
  forall r, (r < n + m)%nat ->
  g_full n m G' (fun i => lam i + dlam i) delta' r =
  g_full n m G lam delta r +
  sum (n + m) (fun c => h_full n m H r c * (if (c <? n)%nat then ds c else dlam (c - n)%nat)).
Proof.
  intros Hm HG Hd r Hr. rewrite sum_split.
  rewrite (sum_ext' n _ (fun c => (if (r <? n)%nat then H r c else if (c + m =? r)%nat then - (1) else 0) * ds c)).
  2:{ intros c Hc. rewrite h_full_spec by exact Hm.
      assert (Hcn : (c <? n)%nat = true) by (apply Nat.ltb_lt; exact Hc). rewrite Hcn, andb_true_r.
      apply (f_equal (fun t => t * ds c)).
      destruct (couple_cond n m 0 m r c) eqn:E;
        [apply couple_cond_true in E|apply couple_cond_false in E]; bd. }
  rewrite (sum_ext' m _ (fun i => (if (n - m + i =? r)%nat then - (1) else 0) * dlam i)).
  2:{ intros i Hi. rewrite h_full_spec by exact Hm.
      assert (Hc : (n + i <? n)%nat = false) by (apply Nat.ltb_ge; lia). rewrite Hc.
      replace (n + i - n)%nat with i by lia. rewrite andb_false_r. apply (f_equal (fun t => t * dlam i)).
      destruct (couple_cond n m 0 m r (n + i)) eqn:E;
        [apply couple_cond_true in E|apply couple_cond_false in E]; bd. }
  rewrite !g_full_spec by exact Hm.
  destruct (Nat.ltb_spec r (n - m)) as [L1|L1].
  - (* free coordinates *)
    assert (Hrn : (r <? n)%nat = true) by (apply Nat.ltb_lt; lia). rewrite Hrn.
    rewrite (sum_ext' m _ (fun _ => 0)) by (intros i Hi; destruct (Nat.eqb_spec (n - m + i) r); [lia|ring]).
    rewrite sum_zero'. rewrite HG by lia. ring.
  - destruct (Nat.ltb_spec r n) as [L2|L2].
    + (* constrained coordinates: - lambda_i, coupling -1 with lambda_i *)
      rewrite (sum_ext' m _ (fun i => if Nat.eqb i (r - (n - m)) then - (1) * dlam i else 0)).
      2:{ intros i Hi. destruct (Nat.eqb_spec (n - m + i) r), (Nat.eqb_spec i (r - (n - m))); try lia; ring. }
      rewrite (sum_single' m (r - (n - m))%nat (fun i => - (1) * dlam i)) by lia.
      rewrite HG by lia. ring.
    + (* multiplier rows: - delta_i, coupling -1 with s_(n-m+i) *)
      destruct (Nat.ltb_spec r (n + m)) as [L3|L3]; [|lia].
      rewrite (sum_ext' n _ (fun c => if Nat.eqb c (r - m) then - (1) * ds c else 0)).
      2:{ intros c Hc. destruct (Nat.eqb_spec (c + m) r), (Nat.eqb_spec c (r - m)); try lia; ring. }
      rewrite (sum_single' n (r - m)%nat (fun c => - (1) * ds c)) by lia.
      rewrite (sum_ext' m _ (fun _ => 0)) by (intros i Hi; destruct (Nat.eqb_spec (n - m + i) r); [lia|ring]).
      rewrite sum_zero'. rewrite Hd by lia. replace (n - m + (r - n))%nat with (r - m)%nat by lia. ring.
Qed.

(* ================================================================================================
   F. pull-back
   ================================================================================================ *)
Lemma matmul_assoc p q (A B C : mat) i j :
  matmul q (matmul p A B) C i j = matmul p A (matmul q B C) i j.
Proof.
  unfold Sums.matmul.
  rewrite (sum_ext' q _ (fun k => sum p (fun l => A i l * B l k * C k j))) by (intros; rewrite sum_scal_r'; reflexivity).
  rewrite sum_swap'. apply sum_ext'. intros l _. rewrite <- sum_scal_l'. apply sum_ext'. intros. ring.
Qed.

Lemma transpose_matmul p (A B : mat) i j :
  transpose (matmul p A B) i j = matmul p (transpose B) (transpose A) i j.
Proof. unfold Sums.transpose, Sums.matmul. apply sum_ext'. intros. ring. Qed.

Lemma matmul_ext_l p q (A A' B : mat) i j : (i < q)%nat ->
  (forall a b, (a < q)%nat -> (b < p)%nat -> A a b = A' a b) -> matmul p A B i j = matmul p A' B i j.
Proof. intros Hi H. unfold Sums.matmul. apply sum_ext'. intros l Hl. rewrite H by assumption. reflexivity. Qed.

Lemma matmul_ext_r p q (A B B' : mat) i j : (j < q)%nat ->
  (forall a b, (a < p)%nat -> (b < q)%nat -> B a b = B' a b) -> matmul p A B i j = matmul p A B' i j.
Proof. intros Hj H. unfold Sums.matmul. apply sum_ext'. intros l Hl. rewrite H by assumption. reflexivity. Qed.

Section Pullback.
Variables (n k : nat) (B A : mat).     (* B : n x k  (dic.B),  A : k x n  (dic.B_T_inv = pinv(B)) *)
(* the Moore-Penrose equations of the oracle *)
Hypothesis MP1 : forall i j, (i < n)%nat -> (j < k)%nat -> matmul n (matmul k B A) B i j = B i j.
Hypothesis MP2 : forall i j, (i < k)%nat -> (j < n)%nat -> matmul k (matmul n A B) A i j = A i j.
Hypothesis MP4 : forall i j, (i < k)%nat -> (j < k)%nat -> matmul n A B i j = matmul n A B j i.

(* B^T g_s = P g_x *)
Lemma pull_g_defining gx j : (j < k)%nat ->
  sum n (fun i => B i j * pull_g k A gx i) = sum k (fun p => projP n A B j p * gx p).
Proof.
  intros Hj. unfold Model.pull_g, Model.projP, Sums.matvec, Sums.transpose.
  rewrite (sum_ext' n _ (fun i => sum k (fun p => B i j * (A p i * gx p)))) by (intros; rewrite sum_scal_l'; reflexivity).
  rewrite sum_swap'. apply sum_ext'. intros p Hp. rewrite (MP4 j p Hj Hp).
  unfold Sums.matmul. rewrite <- sum_scal_r'. apply sum_ext'. intros. ring.
Qed.

(* P is symmetric, idempotent, and B P = B *)
Lemma projP_idem i j : (i < k)%nat -> (j < k)%nat -> matmul k (projP n A B) (projP n A B) i j = projP n A B i j.
Proof.
  intros Hi Hj. unfold Model.projP. rewrite <- matmul_assoc.
  apply (matmul_ext_l n k _ A B i j Hi). intros a b Ha Hb. apply MP2; assumption.
Qed.

Lemma B_projP i j : (i < n)%nat -> (j < k)%nat -> matmul k B (projP n A B) i j = B i j.
Proof. intros Hi Hj. unfold Model.projP. rewrite <- matmul_assoc. apply MP1; assumption. Qed.

(* B^T H_s B = P H_x P *)
Lemma pull_h_defining Hx i j : (i < k)%nat -> (j < k)%nat ->
  matmul n (matmul n (transpose B) (pull_h k A Hx)) B i j =
  matmul k (matmul k (projP n A B) Hx) (projP n A B) i j.
Proof.
  intros Hi Hj. unfold Model.pull_h, Model.projP.
  (* (B^T ((A^T Hx) A)) B  =  ((B^T A^T) Hx) (A B) *)
  rewrite matmul_assoc.
  rewrite (matmul_ext_r n k (transpose B) _ (matmul k (matmul k (transpose A) Hx) (matmul n A B)) i j Hj)
    by (intros a b _ _; apply matmul_assoc).
  rewrite <- matmul_assoc.
  apply (matmul_ext_l k k _ _ (matmul n A B) i j Hi). intros a b Ha Hb.
  rewrite <- matmul_assoc.
  apply (matmul_ext_l k k _ _ Hx a b Ha). intros a' b' Ha' Hb'.
  rewrite <- transpose_matmul. unfold Sums.transpose. symmetry. apply MP4; assumption.
Qed.

(* with full row rank (B A = I) g_s is the ONLY internal gradient whose push-forward is P g_x *)
Lemma pull_g_unique gx (g' : vec) :
  (forall i j, (i < n)%nat -> (j < n)%nat -> matmul k B A i j = if Nat.eqb i j then 1 else 0) ->
  (forall j, (j < k)%nat -> sum n (fun i => B i j * g' i) = sum k (fun p => projP n A B j p * gx p)) ->
  forall i, (i < n)%nat -> g' i = pull_g k A gx i.
Proof.
  intros HI Hg i Hi.
  (* g'_i = sum_l (BA)_{l i} g'_l = sum_j A_{j i} (B^T g')_j = sum_j A_{j i} (P gx)_j = sum_p (P A)_{p i}^T ... *)
  assert (E1 : g' i = sum n (fun l => matmul k B A l i * g' l)).
  { rewrite (sum_ext' n _ (fun l => if Nat.eqb l i then g' l else 0)).
    - symmetry. apply sum_single'. exact Hi.
    - intros l Hl. rewrite HI by assumption. destruct (Nat.eqb l i); ring. }
  rewrite E1. unfold Sums.matmul at 1.
  rewrite (sum_ext' n _ (fun l => sum k (fun j => A j i * (B l j * g' l)))).
  2:{ intros l _. rewrite <- sum_scal_r'. apply sum_ext'. intros. ring. }
  rewrite sum_swap'.
  rewrite (sum_ext' k _ (fun j => A j i * sum k (fun p => projP n A B j p * gx p))).
  2:{ intros j Hj. rewrite sum_scal_l'. rewrite <- Hg by exact Hj. reflexivity. }
  unfold Model.pull_g, Sums.matvec, Sums.transpose.
  rewrite (sum_ext' k _ (fun j => sum k (fun p => A j i * (projP n A B j p * gx p)))) by (intros; rewrite sum_scal_l'; reflexivity).
  rewrite sum_swap'. apply sum_ext'. intros p Hp.
  rewrite (sum_ext' k _ (fun j => (projP n A B p j * A j i) * gx p)).
  2:{ intros j Hj. unfold Model.projP. rewrite (MP4 j p Hj Hp). ring. }
  rewrite sum_scal_r'. f_equal. apply (MP2 p i Hp Hi).
Qed.
End Pullback.

End Alg.
