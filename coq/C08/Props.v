(* C08/Props.v — the property theorems of C08 (statements; each closed by lemmas of Lemmas.v).

   Scope.  These theorems cover the discrete and algebraic pieces of the property.  Completeness of
   the primitive set (rank B = 3N-6/5 for every connectivity and shape), the eigenvalue threshold of
   DIC._calc_U, _symmetry_inequivalent_u and convergence of the iterative back-transformation are
   numerical claims that no theorem here reaches: they are exercised by the implementation oracles
   of harness/c08.py only (the claim is PARTIAL).  `_refuted` theorems are statements of the
   property that are false of the faithful model; each has a replay on the implementation. *)
From Coq Require Import Arith ZArith QArith Qabs Qcanon List Bool Lia Permutation Field.
From AV.lib Require Import Sums QcInst.
From AV.C08 Require Import Model Lemmas.
Import ListNotations.
Local Open Scope nat_scope.

(* ---------------------------------------------------------------------------------------------
   A.  _connect_graph_for_species always returns a connected graph: for every graph, every
   component structure, every atom labelling, every distance function and every constraint set
   (none of the error outcomes - BFS fuel, empty component, the assert of internals.py:573 - can
   occur), the original edges are kept and every constrained pair is an edge.
   --------------------------------------------------------------------------------------------- *)
Theorem connected_after_connect :
  forall c09 (a : atominfo) (dist : nat -> nat -> Qc) n cons es,
    1 <= n -> bounded_es n es -> bounded_es n cons ->
    exists es', connect_graph c09 a dist n cons es = COk es' /\ connected n es' /\ incl es es' /\
                (forall e, In e cons -> has_edge es' (fst e) (snd e) = true).
Proof. intros. apply connect_graph_ok; assumption. Qed.

(* fuel = number of nodes suffices for the breadth-first search of the model *)
Theorem bfs_fuel_suffices :
  forall n es s, bounded_es n es -> s < n -> bfs n es [s] <> None.
Proof. intros. apply LemGraph.bfs_fuel_suffices; assumption. Qed.

Example connect_nonvacuous :   (* two fragments {0,1} and {2}: one joining edge is added *)
  exists es', connect_graph (qc 9 10) (mkInfo (fun _ => false) (fun _ => false) (fun _ => Q2Qc 1))
                            (fun i j => Q2Qc (Z.of_nat (i + j) # 1)) 3 [] [(0, 1)] = COk es' /\ es' = [(0, 1); (0, 2)].
Proof. eexists. split; vm_compute; reflexivity. Qed.

(* ---------------------------------------------------------------------------------------------
   B.  PIC.close_to.  The code shifts a dihedral by 2 pi at most ONCE, so its actual range is
   |q - other| <= 3 pi: there the result is within pi of the reference and congruent to q mod 2 pi.
   --------------------------------------------------------------------------------------------- *)
Theorem close_to_within_pi :
  forall (pi_ : Q) ds qs os i,
    (0 < pi_)%Q -> length qs = length ds -> length os = length ds -> i < length ds ->
    let q := nth i qs 0%Q in let o := nth i os 0%Q in let q' := nth i (close_to pi_ ds qs os) 0%Q in
    (nth i ds false = false -> q' = q) /\
    (nth i ds false = true -> (Qabs (q - o) <= 3 * pi_)%Q ->
       (Qabs (q' - o) <= pi_)%Q /\ (q' == q \/ q' == q + 2 * pi_ \/ q' == q - 2 * pi_)%Q) /\
    (nth i ds false = true -> (Qabs (q - o) <= pi_)%Q -> q' = q).
Proof.
  intros pi_ ds qs os i Hpi H1 H2 Hi q o q'. subst q'. rewrite (close_to_nth pi_ ds qs os i H1 H2 Hi).
  fold q o. split; [|split].
  - intros E. rewrite E. reflexivity.
  - intros E H. rewrite E. apply close1_within; assumption.
  - intros E H. rewrite E. apply close1_id. exact H.
Qed.

(* Beyond the code's range the statement is FALSE: a freshly evaluated dihedral (|q| <= pi) against a
   reference that was followed for more than a full turn comes back 2 pi away from the reference. *)
Theorem close_to_beyond_3pi_refuted :
  forall pi_ : Q, (0 < pi_)%Q ->
    exists q other, (Qabs q <= pi_)%Q /\ ~ (Qabs (close1 pi_ q other - other) <= pi_)%Q.
Proof. exact close1_beyond_3pi. Qed.

Example close_to_nonvacuous :
  close_to 3 [true; false] [(-5 # 2); 7]%Q [(5 # 2); 0]%Q = [(-5 # 2) - (-1) * 2 * 3; 7]%Q.
Proof. reflexivity. Qed.

(* ---------------------------------------------------------------------------------------------
   C.  _schmidt_orthogonalise, for every number of primitives np, every number n of columns and
   every set of m constrained primitives, over every ordered field with a square root that is right
   on non-negative numbers, provided no zero vector arises:  the output columns are orthonormal,
   the m unit vectors sit in the LAST m columns in the order of the constrained primitives
   (column n-m+t = e_(idxs t), which is what inactive_indexes relies on), and every other column has
   a zero entry at each constrained primitive's row.
   --------------------------------------------------------------------------------------------- *)
Theorem schmidt_orthonormal_and_isolating :
  forall (F : Type) (F0 F1 : F) (Fadd Fmul Fsub : F -> F -> F) (Fopp : F -> F) (Fdiv : F -> F -> F)
         (Finv : F -> F) (Fth : field_theory F0 F1 Fadd Fmul Fsub Fopp Fdiv Finv (@eq F))
         (Fle : F -> F -> Prop) (fsqrt : F -> F),
    Fle F0 F0 -> (forall x, Fle F0 (Fmul x x)) -> (forall a b, Fle F0 a -> Fle F0 b -> Fle F0 (Fadd a b)) ->
    (forall x, Fle F0 x -> Fmul (fsqrt x) (fsqrt x) = x) ->
    forall np (cols : list (nat -> F)) (idxs : list nat) U,
      NoDup idxs ->
      schmidt F F0 F1 Fadd Fmul Fsub Fdiv fsqrt np cols idxs = Some U ->
      no_zero F F0 Fadd Fmul Fsub Fdiv fsqrt np (map (unitv F F0 F1) idxs) (skipn (length idxs) cols) ->
      let m := length idxs in let n := length cols in
      length U = n /\ m <= n /\
      (forall i j d, i < n -> j < n ->
         dot F F0 Fadd Fmul np (nth i U d) (nth j U d) = if i =? j then F1 else F0) /\
      (forall t d, t < m -> nth (n - m + t) U d = unitv F F0 F1 (nth t idxs 0)) /\
      (forall c t d, c < n - m -> t < m -> nth c U d (nth t idxs 0) = F0).
Proof.
  intros F F0 F1 Fadd Fmul Fsub Fopp Fdiv Finv Fth Fle fsqrt L0 Lsq Ladd Hsqrt np cols idxs U Hnd Hs Hz m n.
  destruct (schmidt_spec F F0 F1 Fadd Fmul Fsub Fopp Fdiv Finv Fth fsqrt np cols idxs U Hnd Hs Hz)
    as [A [B [C [D [E G]]]]].
  { apply (sqrt_exact_all F F0 Fadd Fmul Fsub Fdiv fsqrt Fle L0 Lsq Ladd Hsqrt). }
  fold m n in A, C, E, G. split; [exact C|]. split; [exact A|]. split; [|split; [exact E|exact G]].
  intros i j d Hi Hj. apply (orthonormal_nth F F0 F1 Fadd Fmul Fsub Fopp Fdiv Finv Fth); [exact D|lia|lia].
Qed.

(* the same with the sqrt oracle only required to be exact on the squared lengths that occur *)
Theorem schmidt_orthonormal_pointwise :
  forall (F : Type) (F0 F1 : F) (Fadd Fmul Fsub : F -> F -> F) (Fopp : F -> F) (Fdiv : F -> F -> F)
         (Finv : F -> F) (Fth : field_theory F0 F1 Fadd Fmul Fsub Fopp Fdiv Finv (@eq F)) (fsqrt : F -> F),
    forall np (cols : list (nat -> F)) (idxs : list nat) U,
      NoDup idxs ->
      schmidt F F0 F1 Fadd Fmul Fsub Fdiv fsqrt np cols idxs = Some U ->
      no_zero F F0 Fadd Fmul Fsub Fdiv fsqrt np (map (unitv F F0 F1) idxs) (skipn (length idxs) cols) ->
      sqrt_exact F F0 Fadd Fmul Fsub Fdiv fsqrt np (map (unitv F F0 F1) idxs) (skipn (length idxs) cols) ->
      let m := length idxs in let n := length cols in
      length U = n /\
      (forall i j d, i < n -> j < n ->
         dot F F0 Fadd Fmul np (nth i U d) (nth j U d) = if i =? j then F1 else F0) /\
      (forall t d, t < m -> nth (n - m + t) U d = unitv F F0 F1 (nth t idxs 0)) /\
      (forall c t d, c < n - m -> t < m -> nth c U d (nth t idxs 0) = F0).
Proof.
  intros F F0 F1 Fadd Fmul Fsub Fopp Fdiv Finv Fth fsqrt np cols idxs U Hnd Hs Hz Hq m n.
  destruct (schmidt_spec F F0 F1 Fadd Fmul Fsub Fopp Fdiv Finv Fth fsqrt np cols idxs U Hnd Hs Hz Hq)
    as [A [B [C [D [E G]]]]].
  fold m n in A, C, E, G. split; [exact C|]. split; [|split; [exact E|exact G]].
  intros i j d Hi Hj. apply (orthonormal_nth F F0 F1 Fadd Fmul Fsub Fopp Fdiv Finv Fth); [exact D|lia|lia].
Qed.

(* non-vacuity: 3 primitives, primitive 2 constrained, columns (junk, (3,4,7)); sqrt exact on 25 *)
Definition ex_sqrt (x : Qc) : Qc := if Qeq_bool (this x) 25 then Q2Qc 5 else Q2Qc 0.
Definition ex_cols : list (nat -> Qc) :=
  [vec_of_list [Q2Qc 1; Q2Qc 1; Q2Qc 1]; vec_of_list [Q2Qc 3; Q2Qc 4; Q2Qc 7]].
Example schmidt_nonvacuous :
  NoDup [2] /\
  (exists U, schmidt Qc (Q2Qc 0) (Q2Qc 1) Qcplus Qcmult Qcminus Qcdiv ex_sqrt 3 ex_cols [2] = Some U) /\
  no_zero Qc (Q2Qc 0) Qcplus Qcmult Qcminus Qcdiv ex_sqrt 3 (map (unitv Qc (Q2Qc 0) (Q2Qc 1)) [2]) (skipn 1 ex_cols) /\
  sqrt_exact Qc (Q2Qc 0) Qcplus Qcmult Qcminus Qcdiv ex_sqrt 3 (map (unitv Qc (Q2Qc 0) (Q2Qc 1)) [2]) (skipn 1 ex_cols).
Proof.
  split; [constructor; [intros []|constructor]|]. split; [eexists; reflexivity|]. split.
  - cbn [skipn ex_cols no_zero]. split; [|exact I]. apply Qc_neq_by_compute. vm_compute. reflexivity.
  - cbn [skipn ex_cols sqrt_exact]. split; [|exact I]. apply Qc_eq_by_compute. vm_compute. reflexivity.
Qed.

(* What the code does NOT guarantee: columns 0..m-1 of the input are dropped (dic.py:536 starts at
   m) whatever they span, so the output need not span the input's column space: "every input
   column lies in the span of the output columns" is FALSE of the faithful model.  Witness: the
   orthonormal columns e0, e1 of a 3-primitive system with primitive 2 constrained: the output is
   (e1, e2); e0 is orthogonal to both.  On the implementation this shows as a rank-deficient set of
   constrained delocalised coordinates (harness key constrained-dic-rank-deficient). *)
Theorem schmidt_loses_span_refuted :
  exists (cols : list (nat -> Qc)) (idxs : list nat) (U : list (nat -> Qc)) (c : nat -> Qc),
    let dotq := dot Qc (Q2Qc 0) Qcplus Qcmult 3 in
    schmidt Qc (Q2Qc 0) (Q2Qc 1) Qcplus Qcmult Qcminus Qcdiv (fun x => x) 3 cols idxs = Some U /\
    no_zero Qc (Q2Qc 0) Qcplus Qcmult Qcminus Qcdiv (fun x => x) 3 (map (unitv Qc (Q2Qc 0) (Q2Qc 1)) idxs) (skipn (length idxs) cols) /\
    sqrt_exact Qc (Q2Qc 0) Qcplus Qcmult Qcminus Qcdiv (fun x => x) 3 (map (unitv Qc (Q2Qc 0) (Q2Qc 1)) idxs) (skipn (length idxs) cols) /\
    In c cols /\ dotq c c = Q2Qc 1 /\ (forall u, In u U -> dotq c u = Q2Qc 0).
Proof.
  exists [vec_of_list [Q2Qc 1; Q2Qc 0; Q2Qc 0]; vec_of_list [Q2Qc 0; Q2Qc 1; Q2Qc 0]], [2].
  eexists. exists (vec_of_list [Q2Qc 1; Q2Qc 0; Q2Qc 0]). cbv zeta.
  split; [reflexivity|]. split; [|split; [|split; [|split]]].
  - cbn [length skipn no_zero]. split; [|exact I]. apply Qc_neq_by_compute. vm_compute. reflexivity.
  - cbn [length skipn sqrt_exact]. split; [|exact I]. apply Qc_eq_by_compute. vm_compute. reflexivity.
  - left. reflexivity.
  - apply Qc_eq_by_compute. vm_compute. reflexivity.
  - intros u [Hu|[Hu|[]]]; subst u; apply Qc_eq_by_compute; vm_compute; reflexivity.
Qed.

(* ---------------------------------------------------------------------------------------------
   F.  Pull-back.  With B = dic.B (n x k, k = 3N) and A = dic.B_T_inv an oracle satisfying the
   Moore-Penrose equations B A B = B, A B A = A, (A B)^T = A B, the internal gradient and Hessian
   computed by _update_g_from_cart_g / _update_h_from_cart_h (g_s = A^T g_x, H_s = A^T H_x A)
   satisfy the defining relations  B^T g_s = P g_x  and  B^T H_s B = P H_x P  where P = A B is a
   symmetric idempotent with B P = B (the projector onto the internal displacements); when
   B A = I the internal gradient is the only solution of B^T g = P g_x.
   --------------------------------------------------------------------------------------------- *)
Theorem pullback_consistent :
  forall (F : Type) (F0 F1 : F) (Fadd Fmul Fsub : F -> F -> F) (Fopp : F -> F) (Fdiv : F -> F -> F)
         (Finv : F -> F) (Fth : field_theory F0 F1 Fadd Fmul Fsub Fopp Fdiv Finv (@eq F))
         (n k : nat) (B A : nat -> nat -> F),
    let mm := matmul F F0 Fadd Fmul in
    let P := projP F F0 Fadd Fmul n A B in
    (forall i j, i < n -> j < k -> mm n (mm k B A) B i j = B i j) ->
    (forall i j, i < k -> j < n -> mm k (mm n A B) A i j = A i j) ->
    (forall i j, i < k -> j < k -> mm n A B i j = mm n A B j i) ->
    (forall gx j, j < k ->
       sum F F0 Fadd n (fun i => Fmul (B i j) (pull_g F F0 Fadd Fmul k A gx i)) =
       sum F F0 Fadd k (fun p => Fmul (P j p) (gx p))) /\
    (forall Hx i j, i < k -> j < k ->
       mm n (mm n (transpose F B) (pull_h F F0 Fadd Fmul k A Hx)) B i j = mm k (mm k P Hx) P i j) /\
    (forall i j, i < k -> j < k -> mm k P P i j = P i j) /\
    (forall i j, i < k -> j < k -> P i j = P j i) /\
    (forall i j, i < n -> j < k -> mm k B P i j = B i j) /\
    ((forall i j, i < n -> j < n -> mm k B A i j = if i =? j then F1 else F0) ->
     forall gx g', (forall j, j < k -> sum F F0 Fadd n (fun i => Fmul (B i j) (g' i)) =
                                       sum F F0 Fadd k (fun p => Fmul (P j p) (gx p))) ->
                   forall i, i < n -> g' i = pull_g F F0 Fadd Fmul k A gx i).
Proof.
  intros F F0 F1 Fadd Fmul Fsub Fopp Fdiv Finv Fth n k B A mm P MP1 MP2 MP4.
  split; [|split; [|split; [|split; [|split]]]].
  - intros gx j Hj. apply (pull_g_defining F F0 F1 Fadd Fmul Fsub Fopp Fdiv Finv Fth n k B A MP4); exact Hj.
  - intros Hx i j Hi Hj. apply (pull_h_defining F F0 F1 Fadd Fmul Fsub Fopp Fdiv Finv Fth n k B A MP4); assumption.
  - intros i j Hi Hj. apply (projP_idem F F0 F1 Fadd Fmul Fsub Fopp Fdiv Finv Fth n k B A MP2); assumption.
  - exact MP4.
  - intros i j Hi Hj. apply (B_projP F F0 F1 Fadd Fmul Fsub Fopp Fdiv Finv Fth n k B A MP1); assumption.
  - intros HI gx g' Hg i Hi.
    apply (pull_g_unique F F0 F1 Fadd Fmul Fsub Fopp Fdiv Finv Fth n k B A MP2 MP4 gx g' HI Hg i Hi).
Qed.

(* non-vacuity: B = (1 0), A = (1 0)^T satisfy the Moore-Penrose equations (n = 1, k = 2) *)
Example pullback_nonvacuous :
  let B := mat_of_list [[Q2Qc 1; Q2Qc 0]] in let A := mat_of_list [[Q2Qc 1]; [Q2Qc 0]] in
  let mm := matmul Qc (Q2Qc 0) Qcplus Qcmult in
  (forall i j, i < 1 -> j < 2 -> mm 1 (mm 2 B A) B i j = B i j) /\
  (forall i j, i < 2 -> j < 1 -> mm 2 (mm 1 A B) A i j = A i j) /\
  (forall i j, i < 2 -> j < 2 -> mm 1 A B i j = mm 1 A B j i).
Proof.
  cbv zeta. split; [|split]; intros i j Hi Hj;
    (destruct i as [|[|i]]; [| |lia]); (destruct j as [|[|j]]; [| |lia]); try lia;
    apply Qc_eq_by_compute; vm_compute; reflexivity.
Qed.

(* ---------------------------------------------------------------------------------------------
   E.  Stale tensors.  The machine is compositional: __setitem__ = clear_tensors ; write,
   __add__ = copy ; clear_tensors ; iadd,  __iadd__ = clear_tensors ; __add__, where the primitive
   iadd is kind specific (Cartesian: clear_tensors ; ndarray.__iadd__; DIC: ... self[:] = s_k,
   on the converged and on the first-order-fallback branch alike).  For BOTH kinds, after ANY
   operation sequence ending in c[k] = v, c = c + d, c = c - d, c += d or c -= d the stored energy,
   gradient, Hessian and inverse Hessian are None and the getter c.h returns None.
   The alphabet is the public OptCoordinates interface; numpy operations that bypass it (ufunc
   results, *=, fill, writes through views) are NOT in the model: they are exercised - and keep
   stale tensors - on the implementation only (harness keys OptCoordinates|stale-tensors:...).
   --------------------------------------------------------------------------------------------- *)
Theorem tensors_cleared_on_change :
  forall (k : ckind) (s : cstate) (ops : list cop) (o : cop),
    is_change o = true ->
    let s' := crun k s (ops ++ [o]) in
    t_e s' = None /\ t_g s' = None /\ t_h s' = None /\ t_hinv s' = None /\ obs_h s' = None /\
    ver s' = S (ver (crun k s ops)).
Proof.
  intros k s ops o H s'. subst s'. rewrite crun_app.
  set (s1 := crun k s ops). change (crun k s1 [o]) with (cstep k s1 o).
  destruct (change_clears k s1 o H) as [A [B [C [D E]]]].
  split; [exact A|]. split; [exact B|]. split; [exact C|]. split; [exact D|]. split; [|exact E].
  unfold obs_h. rewrite C. exact D.
Qed.

(* No stored tensor (nor what c.h returns) is ever older than the coordinates, for both kinds and
   every operation list over the alphabet of the model (the public OptCoordinates interface). *)
Theorem no_stale_tensor_ever :
  forall (k : ckind) (ops : list cop),
    let s := crun k cinit ops in
    fresh_tag s (t_e s) /\ fresh_tag s (t_g s) /\ fresh_tag s (t_h s) /\ fresh_tag s (t_hinv s) /\
    fresh_tag s (obs_h s).
Proof.
  intros k ops s. destruct (crun_fresh k ops cinit) as [A [B [C D]]].
  { unfold all_fresh, cinit. cbn. auto. }
  fold s in A, B, C, D. split; [exact A|]. split; [exact B|]. split; [exact C|]. split; [exact D|].
  unfold obs_h. destruct (t_h s) eqn:E; [rewrite <- E in *; rewrite E in C; rewrite E; exact C|exact D].
Qed.

(* The primitive step called directly, c.iadd(d), discards the tensors too - for Cartesian coordinates
   since /repo commit 2c6603e (iadd = clear_tensors ; ndarray.__iadd__), for a DIC through self[:] = s_k. *)
Theorem direct_iadd_clears_tensors :
  forall (k : ckind) (s : cstate) (ops : list cop),
    let s' := crun k s (ops ++ [OIaddCall]) in
    t_e s' = None /\ t_g s' = None /\ t_h s' = None /\ t_hinv s' = None /\ obs_h s' = None /\
    ver s' = S (ver (crun k s ops)).
Proof.
  intros k s ops s'. subst s'. rewrite crun_app.
  set (s1 := crun k s ops). change (crun k s1 [OIaddCall]) with (raw_iadd k s1).
  destruct (raw_iadd_clears k s1) as [A [B [C [D E]]]].
  split; [exact A|]. split; [exact B|]. split; [exact C|]. split; [exact D|]. split; [|exact E].
  unfold obs_h. rewrite C. exact D.
Qed.

Example machine_nonvacuous :
  let s := crun KDic cinit [OSetH true; OGetHinv; OIaddCall; OSetG true; OAdd; OSetE true] in
  ver s = 2 /\ t_e s = Some 2 /\ t_g s = None /\ t_h s = None /\ t_hinv s = None /\ obs_h s = None.
Proof. cbn. repeat split. Qed.

(* ---------------------------------------------------------------------------------------------
   D.  Lagrangian layout of DICWithConstraints (n coordinates, m = length flags constraints,
   flags_i = "constraint i is satisfied"; m <= n):  active_indexes and inactive_indexes partition
   0 .. n+m-1, the inactive ones are exactly the pairs (n-m+t, n+t) of satisfied constraints;
   the assembled Hessian is symmetric and is the Jacobian of the assembled gradient.
   --------------------------------------------------------------------------------------------- *)
Theorem lagrange_layout :
  forall n (flags : list bool),
    let m := length flags in
    m <= n ->
    Permutation (active_indexes n flags ++ inactive_indexes n flags) (seq 0 (n + m)) /\
    NoDup (inactive_indexes n flags) /\
    (forall i, In i (inactive_indexes n flags) <->
               exists t, t < m /\ nth t flags false = true /\ (i = n - m + t \/ i = n + t)) /\
    (forall i, In i (active_indexes n flags) <-> i < n + m /\ ~ In i (inactive_indexes n flags)).
Proof.
  intros n flags m Hm. split; [apply layout_partition; exact Hm|]. split; [apply inactive_NoDup; exact Hm|].
  split; [intros i; apply inactive_spec; exact Hm|intros i; apply active_spec].
Qed.

Theorem lagrange_gh_assembly_consistent :
  forall (F : Type) (F0 F1 : F) (Fadd Fmul Fsub : F -> F -> F) (Fopp : F -> F) (Fdiv : F -> F -> F)
         (Finv : F -> F) (Fth : field_theory F0 F1 Fadd Fmul Fsub Fopp Fdiv Finv (@eq F))
         (n m : nat) (G G' : nat -> F) (H : nat -> nat -> F) (lam dlam delta delta' ds : nat -> F),
    m <= n ->
    (* the molecular gradient is affine in s with Jacobian H, the constraint functions are
       C_i(s) = s_(n-m+i) - target_i *)
    (forall r, r < n -> G' r = Fadd (G r) (sum F F0 Fadd n (fun c => Fmul (H r c) (ds c)))) ->
    (forall i, i < m -> delta' i = Fadd (delta i) (ds (n - m + i))) ->
    (* then g(s + ds, lam + dlam) = g(s, lam) + h . (ds, dlam) *)
    (forall r, r < n + m ->
       g_full F F0 F1 Fmul Fsub Fopp n m G' (fun i => Fadd (lam i) (dlam i)) delta' r =
       Fadd (g_full F F0 F1 Fmul Fsub Fopp n m G lam delta r)
            (sum F F0 Fadd (n + m) (fun c => Fmul (h_full F F0 F1 Fopp n m H r c)
                                                  (if c <? n then ds c else dlam (c - n))))) /\
    ((forall r c, r < n -> c < n -> H r c = H c r) ->
     forall r c, h_full F F0 F1 Fopp n m H r c = h_full F F0 F1 Fopp n m H c r).
Proof.
  intros F F0 F1 Fadd Fmul Fsub Fopp Fdiv Finv Fth n m G G' H lam dlam delta delta' ds Hm HG Hd. split.
  - intros r Hr. apply (lagrange_gh_consistent F F0 F1 Fadd Fmul Fsub Fopp Fdiv Finv Fth (fun x => x)); assumption.
  - intros Hs r c. apply (h_full_symmetric F F0 F1 Fopp (fun x => x)); assumption.
Qed.

Example layout_nonvacuous :
  inactive_indexes 5 [true; false; true] = [2; 4; 5; 7] /\ active_indexes 5 [true; false; true] = [0; 1; 3; 6].
Proof. split; reflexivity. Qed.
