(* C08/Lemmas.v — the lemma development of C08, split by model part:
     LemGraph.v     A  connect_graph: BFS fuel, is_connected sound/complete, connected result
     LemDiscrete.v  B  close_to;  D  index layout;  E  clear_tensors machine
     LemAlg.v       C  Schmidt;   D  g/h assembly;  F  pull-back        (arbitrary field)
   plus the facts about Qc needed by the non-vacuity examples of Props.v. *)
From Coq Require Import Arith ZArith QArith Qcanon List Bool Lia.
From AV.lib Require Import Sums QcInst.
From AV.C08 Require Export Model LemGraph LemDiscrete LemAlg.
Import ListNotations.

Lemma Qc_neq_by_compute (x y : Qc) : Qeq_bool (this x) (this y) = false -> x <> y.
Proof.
  intros H E. subst y. rewrite (proj2 (Qeq_bool_iff (this x) (this x))) in H; [discriminate|reflexivity].
Qed.

Lemma Qc_eq_by_compute (x y : Qc) : Qeq_bool (this x) (this y) = true -> x = y.
Proof. intros H. apply Qc_is_canon. apply Qeq_bool_iff. exact H. Qed.
