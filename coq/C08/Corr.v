(* C08/Corr.v — helpers used only by the correspondence check (model vs implementation).
   Nothing here is used by a property theorem. *)
From Coq Require Import Arith ZArith QArith Qabs Qcanon List Bool Lia.
From AV.lib Require Import Sums QcInst.
From AV.C08 Require Import Model.
Import ListNotations.
Local Open Scope nat_scope.

(* ---------- A. connect graph ---------- *)
Definition nthb (l : list bool) (i : nat) : bool := nth i l false.
Definition nthq (l : list Qc) (i : nat) : Qc := nth i l (Q2Qc 0).
Definition edges_subset (a b : list edge) : bool := forallb (fun e => has_edge b (fst e) (snd e)) a.
Fixpoint edges_nodup (l : list edge) : bool :=
  match l with [] => true | e :: r => negb (has_edge r (fst e) (snd e)) && edges_nodup r end.
(* expected: Some (edge list of the implementation's graph after _connect_graph_for_species)
             None = the implementation raised *)
Definition check_connect (c09 : Qc) (isx ish : list bool) (vdw : list Qc) (dist : list (list Qc))
           (n : nat) (cons es : list edge) (expected : option (list edge)) : bool :=
  match connect_graph c09 (mkInfo (nthb isx) (nthb ish) (nthq vdw)) (mat_of_list dist) n cons es, expected with
  | COk es', Some ex => edges_subset es' ex && edges_subset ex es' && (length es' =? length ex) && edges_nodup es'
  | COk _, None => false
  | _, Some _ => false
  | _, None => true
  end.

(* ---------- B. close_to ---------- *)
Definition Qclose (tol a b : Q) : bool := Qle_bool (Qabs (a - b)) tol.
Fixpoint QcloseL (tol : Q) (a b : list Q) : bool :=
  match a, b with
  | [], [] => true
  | x :: a', y :: b' => Qclose tol x y && QcloseL tol a' b'
  | _, _ => false
  end.
Definition check_close_to (pi_ : Q) (ds : list bool) (qs os expected : list Q) : bool :=
  QcloseL (1 # 1000000000000) (close_to pi_ ds qs os) expected.

(* ---------- D. layout and assembly ---------- *)
Fixpoint nat_list_eqb (a b : list nat) : bool :=
  match a, b with
  | [], [] => true
  | x :: a', y :: b' => (x =? y) && nat_list_eqb a' b'
  | _, _ => false
  end.
Definition check_layout (n : nat) (flags : list bool) (inactive active : list nat) : bool :=
  nat_list_eqb (inactive_indexes n flags) inactive && nat_list_eqb (active_indexes n flags) active.

Definition tolc : Qc := qc 1 1000000000.     (* 1e-9 relative *)
Definition gQ := g_full Qc (Q2Qc 0) (Q2Qc 1) Qcmult Qcminus Qcopp.
Definition hQ := h_full Qc (Q2Qc 0) (Q2Qc 1) Qcopp.
Definition check_g (n m : nat) (g lam delta expected : list Qc) : bool :=
  closeL tolc (list_of_vec (n + m) (gQ n m (vec_of_list g) (vec_of_list lam) (vec_of_list delta))) expected.
Definition check_h (n m : nat) (h expected : list (list Qc)) : bool :=
  closeM tolc (list_of_mat (n + m) (hQ n m (mat_of_list h))) expected.

(* ---------- E. clear_tensors machine ---------- *)
Definition on_eqb (a b : option nat) : bool :=
  match a, b with Some x, Some y => x =? y | None, None => true | _, _ => false end.
(* expected: the tags read back from the implementation's _e, _g, _h, _h_inv and the value of the
   public getter h, plus the number of coordinate changes *)
Definition check_machine (k : ckind) (ops : list cop) (v : nat) (e g h hinv oh : option nat) : bool :=
  let s := crun k cinit ops in
  (ver s =? v) && on_eqb (t_e s) e && on_eqb (t_g s) g && on_eqb (t_h s) h && on_eqb (t_hinv s) hinv &&
  on_eqb (obs_h s) oh.

(* ---------- C. Schmidt with a 2^-60 rational square root ---------- *)
Definition qsqrt (x : Qc) : Qc :=
  let q := this x in
  Q2Qc (Z.sqrt (Qnum q * 2 ^ 120 / Zpos (Qden q)) # (2 ^ 60)%positive).
Definition schmidtQ := schmidt Qc (Q2Qc 0) (Q2Qc 1) Qcplus Qcmult Qcminus Qcdiv qsqrt.
(* cols / expected are given column by column *)
Definition check_schmidt (np : nat) (cols : list (list Qc)) (idxs : list nat) (expected : option (list (list Qc))) : bool :=
  match schmidtQ np (map vec_of_list cols) idxs, expected with
  | Some U, Some ex => closeM tolc (map (list_of_vec np) U) ex
  | None, None => true
  | _, _ => false
  end.

(* ---------- F. pull-back ---------- *)
Definition check_pull_g (k n : nat) (A : list (list Qc)) (gx expected : list Qc) : bool :=
  closeL tolc (list_of_vec n (pull_g Qc (Q2Qc 0) Qcplus Qcmult k (mat_of_list A) (vec_of_list gx))) expected.
Definition check_pull_h (k n : nat) (A Hx expected : list (list Qc)) : bool :=
  closeM tolc (list_of_mat n (pull_h Qc (Q2Qc 0) Qcplus Qcmult k (mat_of_list A) (mat_of_list Hx))) expected.
