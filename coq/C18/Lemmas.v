(* C18/Lemmas.v — proofs about the layout models of Model.v (all sizes, all widths). *)
From Coq Require Import List Arith Lia Bool ZArith.
From AV.C18 Require Import Model.
Import ListNotations.

Section L.
Variable A : Type.
Notation row := (list A).
Notation matrix := (list (list A)).

(* ------------------------------------------------------------------ basic facts ---------- *)
Lemma zip_app_firstn_skipn (w : nat) (M : matrix) :
  zip_app (map (firstn w) M) (map (skipn w) M) = M.
Proof. induction M as [|r M IH]; cbn; [reflexivity|]. rewrite firstn_skipn, IH. reflexivity. Qed.

Lemma zip_app_nil_r (a : matrix) : zip_app a [] = a.
Proof. destruct a; reflexivity. Qed.

Lemma zip_app_assoc (a b c : matrix) :
  length a = length b -> zip_app (zip_app a b) c = zip_app a (zip_app b c).
Proof.
  revert b c. induction a as [|x a IH]; intros b c HL.
  - destruct b; [|discriminate]. destruct c; reflexivity.
  - destruct b as [|y b]; [discriminate|].
    destruct c as [|z c]; [reflexivity|]. cbn. rewrite IH by (cbn in HL; lia).
    rewrite app_assoc. reflexivity.
Qed.

Lemma zip_app_repeat_nil (a : matrix) : zip_app a (repeat [] (length a)) = a.
Proof. induction a as [|x a IH]; cbn; [reflexivity|]. rewrite app_nil_r, IH. reflexivity. Qed.

Lemma zip_app_length (a b : matrix) : length a = length b -> length (zip_app a b) = length a.
Proof.
  revert b. induction a as [|x a IH]; intros [|y b] H; cbn in *; try reflexivity; try discriminate.
  rewrite IH; [reflexivity|lia].
Qed.

Lemma all_nil_true (M : matrix) : all_nil M = true -> M = repeat [] (length M).
Proof.
  induction M as [|r M IH]; cbn; [reflexivity|]. intros H. apply andb_prop in H as [H1 H2].
  destruct r; [|discriminate]. rewrite <- IH by exact H2. reflexivity.
Qed.

Lemma rect0_nil (M : matrix) : rect 0 M -> M = repeat [] (length M).
Proof.
  induction M as [|r M IH]; intros H; cbn; [reflexivity|]. inversion H as [|? ? H1 H2]; subst.
  destruct r; [|discriminate]. rewrite <- IH by exact H2. reflexivity.
Qed.

Lemma all_nil_false_pos n (M : matrix) : rect n M -> all_nil M = false -> 1 <= n.
Proof.
  induction M as [|r M IH]; cbn; intros HR H; [discriminate|].
  inversion HR as [|? ? H1 H2]; subst. destruct r; cbn in *; [apply IH; assumption|lia].
Qed.

Lemma all_nil_false_ne (M : matrix) : all_nil M = false -> M <> [].
Proof. destruct M; cbn; [discriminate|discriminate]. Qed.

Lemma rect_skipn n w (M : matrix) : rect n M -> rect (n - w) (map (skipn w) M).
Proof.
  intros H. unfold rect in *. rewrite Forall_map. eapply Forall_impl; [|exact H].
  intros r Hr. cbv beta in *. rewrite skipn_length. lia.
Qed.
Lemma rect_firstn n w (M : matrix) : rect n M -> rect (Nat.min w n) (map (firstn w) M).
Proof.
  intros H. unfold rect in *. rewrite Forall_map. eapply Forall_impl; [|exact H].
  intros r Hr. cbv beta in *. rewrite firstn_length. lia.
Qed.
Lemma rect_width n (M : matrix) : rect n M -> M <> [] -> width M = n.
Proof. destruct M; [congruence|]. intros H _. inversion H; subst. reflexivity. Qed.
Lemma rectb_true n (M : matrix) : rect n M -> rectb n M = true.
Proof.
  intros H. unfold rectb. apply forallb_forall. intros r Hr. unfold rect in H.
  rewrite Forall_forall in H. apply Nat.eqb_eq. auto.
Qed.
Lemma rectb_rect n (M : matrix) : rectb n M = true -> rect n M.
Proof.
  unfold rectb, rect. rewrite forallb_forall, Forall_forall. intros H r Hr.
  apply Nat.eqb_eq. auto.
Qed.
Lemma rect_zip_app a b (X Y : matrix) :
  rect a X -> rect b Y -> length X = length Y -> rect (a + b) (zip_app X Y).
Proof.
  revert Y. induction X as [|x X IH]; intros [|y Y] HX HY HL; cbn in *; try discriminate.
  - constructor.
  - inversion HX; inversion HY; subst. constructor; [rewrite app_length; reflexivity|].
    apply IH; auto.
Qed.

(* ------------------------------------------------------------------ blocks / unblocks ----- *)
Lemma unblocks_blocks_f f w (M : matrix) n :
  1 <= w -> rect n M -> n <= f -> unblocks (length M) (blocks_f f w M) = M.
Proof.
  intros Hw. revert M n. induction f as [|f IH]; intros M n HR Hn; cbn.
  - assert (n = 0) by lia. subst. symmetry. apply rect0_nil. exact HR.
  - destruct (all_nil M) eqn:E; cbn.
    + symmetry. apply all_nil_true. exact E.
    + pose proof (all_nil_false_pos _ _ HR E) as Hp.
      rewrite <- (map_length (skipn w) M).
      rewrite (IH (map (skipn w) M) (n - w)); [|apply rect_skipn; exact HR|lia].
      apply zip_app_firstn_skipn.
Qed.

Lemma unblocks_blocks w (M : matrix) n :
  1 <= w -> rect n M -> unblocks (length M) (blocks w M) = M.
Proof.
  intros Hw HR. unfold blocks. destruct M as [|r M']; [reflexivity|].
  apply (unblocks_blocks_f _ _ _ n Hw HR). rewrite (rect_width n); [lia|exact HR|discriminate].
Qed.

Lemma blocks_f_lengths f w (M : matrix) :
  Forall (fun b => length b = length M) (blocks_f f w M).
Proof.
  revert M. induction f as [|f IH]; intros M; cbn; [constructor|].
  destruct (all_nil M); [constructor|]. constructor; [apply map_length|].
  specialize (IH (map (skipn w) M)). rewrite map_length in IH. exact IH.
Qed.

(* number of blocks = ceil(n / w) is not needed; only that wrapping really happens: *)
Lemma blocks_f_two f w (M : matrix) n :
  1 <= w -> rect n M -> M <> [] -> w < n -> n <= f -> 2 <= length (blocks_f f w M).
Proof.
  intros Hw HR Hne Hwn Hf. destruct f as [|f]; [lia|]. cbn.
  destruct (all_nil M) eqn:E.
  - apply all_nil_true in E. destruct M as [|r M']; [congruence|]. inversion HR; subst.
    cbn in E. inversion E as [[E1 E2]]. rewrite E1 in *. cbn in *. lia.
  - cbn. destruct f as [|f]; [lia|]. cbn.
    destruct (all_nil (map (skipn w) M)) eqn:E2; [|cbn; lia].
    apply all_nil_true in E2. destruct M as [|r M']; [congruence|]. inversion HR; subst.
    cbn in E2. inversion E2 as [[E3 E4]]. assert (length (skipn w r) = 0) by (rewrite E3; reflexivity).
    rewrite skipn_length in H. lia.
Qed.

(* ------------------------------------------------------------------ ORCA ------------------ *)
Variable hdr : A.

Lemma collect_data (r : row) (b : matrix) p X wb :
  rect wb (r :: b) -> p <= S wb ->
  orca_collect p (map (cons hdr) (r :: b) ++ X) = (r :: b) ++ orca_collect (S wb) X.
Proof.
  revert r p. induction b as [|r' b IH]; intros r p HR Hp.
  - inversion HR; subst. cbn [map app orca_collect length Nat.eqb tl].
    replace (S (length r) <? p) with false by (symmetry; apply Nat.ltb_ge; lia). reflexivity.
  - inversion HR as [|? ? H1 H2]; subst. cbn [map app orca_collect length Nat.eqb tl].
    replace (S (length r) <? p) with false by (symmetry; apply Nat.ltb_ge; lia).
    f_equal.
    change (orca_collect (S (length r)) (map (cons hdr) (r' :: b) ++ X) =
            (r' :: b) ++ orca_collect (S (length r)) X).
    apply IH; [exact H2|lia].
Qed.

Lemma repeat_length_pos (n : nat) : 1 <= n -> (length (repeat hdr n) =? 0) = false.
Proof. intros H. rewrite repeat_length. apply Nat.eqb_neq. lia. Qed.

Lemma collect_blocks f w (M : matrix) n p X :
  1 <= w -> M <> [] -> rect n M -> n <= f -> Nat.min w n < p ->
  orca_collect p (concat (map (orca_block_lines hdr) (blocks_f f w M)) ++ [] :: X)
  = concat (blocks_f f w M).
Proof.
  intros Hw. revert M n p. induction f as [|f IH]; intros M n p Hne HR Hn Hp; [reflexivity|].
  cbn [blocks_f]. destruct (all_nil M) eqn:E; [reflexivity|]. cbn [map concat].
  pose proof (all_nil_false_pos _ _ HR E) as Hpos.
  assert (HW : width (map (firstn w) M) = Nat.min w n).
  { apply rect_width; [apply rect_firstn; exact HR|]. destruct M; [congruence|discriminate]. }
  unfold orca_block_lines at 1. rewrite HW.
  destruct (map (firstn w) M) as [|r0 b0] eqn:EM.
  { destruct M; [congruence|discriminate]. }
  cbn [app orca_collect]. rewrite repeat_length.
  replace (Nat.min w n =? 0) with false by (symmetry; apply Nat.eqb_neq; lia).
  replace (Nat.min w n <? p) with true by (symmetry; apply Nat.ltb_lt; lia).
  rewrite <- app_assoc.
  pose proof (collect_data r0 b0 (Nat.min w n)
     (concat (map (orca_block_lines hdr) (blocks_f f w (map (skipn w) M))) ++ [] :: X)
     (Nat.min w n)) as CD.
  assert (R1 : rect (Nat.min w n) (r0 :: b0)) by (rewrite <- EM; apply rect_firstn; exact HR).
  etransitivity; [apply (CD R1); lia|].
  cbn [app]. f_equal. f_equal. apply (IH _ (n - w)).
  - destruct M; [congruence|discriminate].
  - apply rect_skipn; exact HR.
  - lia.
  - lia.
Qed.

Lemma upd_app (pre suf : matrix) (a v : row) :
  upd (pre ++ a :: suf) (length pre) v = pre ++ (a ++ v) :: suf.
Proof. induction pre as [|x pre IH]; cbn; [reflexivity|]. rewrite IH. reflexivity. Qed.

Lemma accum_block R (blk : list row) : forall (pre suf : matrix) j i rest,
  length suf = length blk -> j = length pre -> j + length blk = R -> i mod R = 0 ->
  accum R (pre ++ suf) (i + j) (blk ++ rest) = accum R (pre ++ zip_app suf blk) (i + R) rest.
Proof.
  induction blk as [|r blk IH]; intros pre suf j i rest HL Hj HR Hi.
  - destruct suf; [|discriminate]. cbn in *. replace j with R by lia. reflexivity.
  - destruct suf as [|a suf]; [discriminate|]. cbn [app accum length] in *.
    assert (HRpos : R <> 0) by lia.
    assert (Hm : (i + j) mod R = j).
    { rewrite Nat.add_mod by exact HRpos. rewrite Hi. cbn [Nat.add].
      rewrite Nat.mod_mod by exact HRpos. apply Nat.mod_small. lia. }
    rewrite Hm, Hj, upd_app.
    replace (pre ++ (a ++ r) :: suf) with ((pre ++ [a ++ r]) ++ suf) by (rewrite <- app_assoc; reflexivity).
    replace (S (i + length pre)) with (i + S (length pre)) by lia.
    rewrite (IH (pre ++ [a ++ r]) suf (S (length pre)) i rest).
    + cbn [zip_app]. rewrite <- app_assoc. reflexivity.
    + lia.
    + rewrite app_length. cbn. lia.
    + lia.
    + exact Hi.
Qed.

Lemma accum_blocks R (bs : list matrix) : forall (acc : matrix) k,
  1 <= R -> length acc = R -> Forall (fun b => length b = R) bs ->
  accum R acc (k * R) (concat bs) = fold_left zip_app bs acc.
Proof.
  induction bs as [|b bs IH]; intros acc k HR HA HF; cbn [concat fold_left]; [reflexivity|].
  pose proof (Forall_inv HF) as H1. pose proof (Forall_inv_tail HF) as H2. cbv beta in H1.
  replace (k * R) with (k * R + 0) by lia.
  etransitivity.
  - apply (accum_block R b [] acc 0 (k * R) (concat bs));
      [congruence|reflexivity|exact H1|apply Nat.mod_mul; lia].
  - cbn [app]. replace (k * R + R) with (S k * R) by lia.
    apply IH; [exact HR| |exact H2]. rewrite zip_app_length; congruence.
Qed.

Lemma fold_zip_unblocks R (bs : list matrix) : forall acc : matrix,
  length acc = R -> Forall (fun b => length b = R) bs ->
  fold_left zip_app bs acc = zip_app acc (unblocks R bs).
Proof.
  induction bs as [|b bs IH]; intros acc HA HF; cbn.
  - rewrite <- HA. symmetry. apply zip_app_repeat_nil.
  - inversion HF; subst. rewrite IH; [apply zip_app_assoc; congruence| |assumption].
    rewrite zip_app_length; [reflexivity|congruence].
Qed.

Lemma orca_assemble_blocks R (bs : list matrix) :
  1 <= R -> bs <> [] -> Forall (fun b => length b = R) bs ->
  orca_assemble R (concat bs) = unblocks R bs.
Proof.
  intros HR Hne HF. destruct bs as [|b bs]; [congruence|]. inversion HF as [|? ? H1 H2]; subst.
  unfold orca_assemble. cbn [concat].
  rewrite firstn_app, Nat.sub_diag, firstn_all, firstn_O, app_nil_r.
  rewrite skipn_app, Nat.sub_diag, skipn_all, skipn_O. cbn [app].
  change 0 with (0 * length b). rewrite accum_blocks by (try assumption; reflexivity).
  rewrite (fold_zip_unblocks (length b)) by (try assumption; reflexivity). reflexivity.
Qed.

(* The code's rule on the printed layout: every size, every block width, any trailing text
   after the blank line that ends the block. *)
Lemma orca_reassembly w (M : matrix) n X h rest :
  1 <= w -> 1 <= n -> M <> [] -> rect n M ->
  orca_lines hdr w M = h :: rest ->
  orca_assemble (length M) (orca_collect (length h) (rest ++ [] :: X)) = M.
Proof.
  intros Hw Hn Hne HR HL.
  assert (HWd : width M = n) by (apply rect_width; assumption).
  pose proof (collect_blocks n w M n (S (Nat.min w n)) X Hw Hne HR (le_n _) (Nat.lt_succ_diag_r _)) as C.
  unfold orca_lines, blocks in HL. rewrite HWd in HL. rewrite HL in C.
  (* the first header line is skipped by the rule with prev = S (min w n); the code instead
     starts after it with prev = its own length: same continuation *)
  assert (Hh : length h = Nat.min w n).
  { destruct n as [|n']; [lia|]. cbn in HL.
    destruct (all_nil M) eqn:E.
    - apply all_nil_true in E. destruct M as [|r M']; [congruence|]. inversion HR; subst.
      cbn in E. inversion E as [[E1 E2]]. rewrite E1 in *. discriminate.
    - cbn in HL. inversion HL as [[H1 H2]]. rewrite repeat_length.
      apply rect_width; [apply rect_firstn; exact HR|]. destruct M; [congruence|discriminate]. }
  cbn [app orca_collect] in C.
  assert (Hz : (length h =? 0) = false) by (apply Nat.eqb_neq; lia).
  rewrite Hz in C. assert (Hl : (length h <? S (Nat.min w n)) = true) by (apply Nat.ltb_lt; lia).
  rewrite Hl in C. rewrite C.
  rewrite orca_assemble_blocks.
  - apply (unblocks_blocks_f _ _ _ n); auto.
  - destruct M; [congruence|]. cbn. lia.
  - destruct n as [|n']; [lia|]. cbn. destruct (all_nil M) eqn:E; [|discriminate].
    exfalso. apply all_nil_true in E. destruct M as [|r M']; [congruence|]. inversion HR; subst.
    cbn in E. inversion E as [[E1 E2]]. rewrite E1 in *. discriminate.
  - apply blocks_f_lengths.
Qed.
End L.

(* ============================================================ Q-Chem reassembly === *)
Section Q.
Variable A : Type.
Notation row := (list A).
Notation matrix := (list (list A)).

Definition qlines f w (M : matrix) : list row :=
  concat (map (fun b => b ++ [[]; []]) (blocks_f f w M)).

Lemma rectb_false R c (h : matrix) : rect c h -> h <> [] -> c <> R -> rectb R h = false.
Proof.
  intros HR Hne Hc. destruct h as [|x h]; [congruence|]. inversion HR; subst. cbn.
  replace (length x =? R) with false by (symmetry; apply Nat.eqb_neq; exact Hc). reflexivity.
Qed.

Lemma rectb_zip_short R c : forall (h sl : matrix),
  length sl < length h -> rect c h -> c <> R -> rectb R (zip_app h sl) = false.
Proof.
  induction h as [|x h IH]; intros sl HL HR Hc; [cbn in HL; lia|].
  destruct sl as [|y sl].
  - cbn [zip_app]. apply (rectb_false R c); [exact HR|discriminate|exact Hc].
  - cbn [zip_app]. cbn [rectb forallb]. inversion HR; subst.
    change (forallb (fun r : row => length r =? R) (zip_app h sl)) with (rectb R (zip_app h sl)).
    rewrite IH; [apply andb_false_r| cbn in HL; lia | assumption | assumption].
Qed.

Lemma all_nil_rect0 (M : matrix) : rect 0 M -> all_nil M = true.
Proof.
  induction M as [|r M IH]; intros H; [reflexivity|]. inversion H; subst.
  destruct r; [|discriminate]. cbn. apply IH. assumption.
Qed.
Lemma all_nil_pos n (M : matrix) : rect n M -> M <> [] -> 1 <= n -> all_nil M = false.
Proof.
  intros HR Hne Hn. destruct M as [|r M]; [congruence|]. inversion HR; subst.
  destruct r; [cbn in Hn; lia|reflexivity].
Qed.
Lemma blocks_f_rect0 f w (M : matrix) : rect 0 M -> blocks_f f w M = [].
Proof. intros H. destruct f; [reflexivity|]. cbn. rewrite all_nil_rect0 by exact H. reflexivity. Qed.

Lemma zip_app_rect0 (h M : matrix) : length h = length M -> rect 0 M -> zip_app h M = h.
Proof.
  intros HL HR. rewrite (rect0_nil _ M HR). rewrite <- HL. apply zip_app_repeat_nil.
Qed.

Lemma qchem_loop_blocks w R : forall f (M hess : matrix) n c fuel tail,
  1 <= w -> 1 <= R -> length M = R -> rect n M -> n <= f ->
  length hess = R -> rect c hess -> c + n = R ->
  length (blocks_f f w M) < fuel ->
  qchem_loop fuel R hess ([[]; []] ++ qlines f w M ++ tail) = Ok (zip_app hess M).
Proof.
  induction f as [|f IH]; intros M hess n c fuel tail Hw HR HM HRM Hn Hh Hc Hcn Hfuel.
  - assert (n = 0) by lia. subst n. destruct fuel as [|fuel]; [cbn in Hfuel; lia|].
    cbn [qchem_loop].
    assert (Hcs : correct_shape R hess = true).
    { unfold correct_shape. replace c with R in Hc by lia. rewrite (rectb_true _ _ _ Hc).
      rewrite Hh, Nat.eqb_refl. reflexivity. }
    rewrite Hcs.
    rewrite zip_app_rect0; [reflexivity|congruence|exact HRM].
  - destruct (Nat.eq_dec n 0) as [Hz|Hz].
    + subst n. destruct fuel as [|fuel]; [lia|].
      cbn [qchem_loop].
      assert (Hcs : correct_shape R hess = true).
      { unfold correct_shape. replace c with R in Hc by lia. rewrite (rectb_true _ _ _ Hc).
        rewrite Hh, Nat.eqb_refl. reflexivity. }
      rewrite Hcs.
      rewrite zip_app_rect0; [reflexivity|congruence|exact HRM].
    + assert (Hne : M <> []) by (destruct M; [cbn in HM; lia|discriminate]).
      assert (E : all_nil M = false) by (apply (all_nil_pos n); [assumption|assumption|lia]).
      unfold qlines in *. cbn [blocks_f] in *. rewrite E in *. cbn [map concat length] in *.
      destruct fuel as [|fuel]; [lia|]. cbn [qchem_loop].
      assert (Hcs : correct_shape R hess = false).
      { unfold correct_shape. rewrite (rectb_false R c); [apply andb_false_r|exact Hc| |lia].
        destruct hess; [cbn in Hh; lia|discriminate]. }
      rewrite Hcs. cbn [app skipn].
      set (b := map (firstn w) M) in *.
      assert (Hb : length b = R) by (unfold b; rewrite map_length; exact HM).
      rewrite <- !app_assoc.
      rewrite firstn_app, Hb, Nat.sub_diag, firstn_O, app_nil_r, <- Hb, firstn_all, Hb.
      destruct b as [|r0 b0] eqn:Eb; [cbn in Hb; lia|]. rewrite <- Eb in *.
      try replace (length hess <? length b) with false by (symmetry; apply Nat.ltb_ge; lia).
      try replace (length hess <? R) with false by (symmetry; apply Nat.ltb_ge; lia).
      rewrite skipn_app, Hb, Nat.sub_diag, skipn_O, <- Hb, skipn_all, Hb. cbn [app].
      change ([] :: [] :: ?x) with ([[]; []] ++ x).
      rewrite (IH (map (skipn w) M) (zip_app hess b) (n - w) (c + Nat.min w n)).
      * rewrite zip_app_assoc by congruence. unfold b. rewrite zip_app_firstn_skipn. reflexivity.
      * exact Hw. * exact HR. * rewrite map_length; exact HM.
      * apply rect_skipn; exact HRM. * lia.
      * rewrite zip_app_length; congruence.
      * apply rect_zip_app; [exact Hc|unfold b; apply rect_firstn; exact HRM|congruence].
      * lia.
      * lia.
Qed.

Lemma blocks_f_step R w (M : matrix) n :
  rect n M -> M <> [] -> 1 <= n -> 1 <= R ->
  blocks_f R w M = map (firstn w) M :: blocks_f (R - 1) w (map (skipn w) M).
Proof.
  intros H1 H2 H3 H4. destruct R; [lia|]. cbn [blocks_f]. rewrite (all_nil_pos n) by assumption.
  replace (S R - 1) with R by lia. reflexivity.
Qed.

Lemma qlines_length_ge f w (M : matrix) : length (blocks_f f w M) <= length (qlines f w M).
Proof.
  unfold qlines. induction (blocks_f f w M) as [|b bs IH]; cbn; [lia|].
  rewrite !app_length. cbn. lia.
Qed.

(* the code's reassembly on the printed layout, any trailing text *)
Lemma qchem_roundtrip w (M : matrix) tail :
  1 <= w -> M <> [] -> rect (length M) M ->
  qchem_parse (length M) (qchem_lines w M ++ tail) = Ok M.
Proof.
  intros Hw Hne HR. set (R := length M) in *.
  assert (HRpos : 1 <= R) by (destruct M; [congruence|cbn; lia]).
  unfold qchem_parse, qchem_lines, blocks. rewrite (rect_width _ R) by assumption.
  rewrite (blocks_f_step R w M R) by assumption. set (f := R - 1). cbn [map concat].
  set (b := map (firstn w) M).
  assert (Hb : length b = R) by (unfold b; rewrite map_length; reflexivity).
  rewrite <- !app_assoc.
  rewrite firstn_app, Hb, Nat.sub_diag, firstn_O, app_nil_r, <- Hb, firstn_all, Hb.
  rewrite skipn_app, Hb, Nat.sub_diag, skipn_O, <- Hb, skipn_all, Hb. cbn [app].
  change ([] :: [] :: ?x) with ([[]; []] ++ x).
  fold (qlines f w (map (skipn w) M)).
  rewrite (qchem_loop_blocks w R f (map (skipn w) M) b (R - w) (Nat.min w R)).
  - unfold b. rewrite zip_app_firstn_skipn. reflexivity.
  - exact Hw. - exact HRpos. - apply map_length.
  - apply rect_skipn; exact HR. - lia. - exact Hb.
  - unfold b. apply rect_firstn. exact HR. - lia.
  - rewrite !app_length. pose proof (qlines_length_ge f w (map (skipn w) M)). cbn. lia.
Qed.

Lemma skipn2_firstn_small m (X : list row) : m <= 2 -> skipn 2 (firstn m X) = [].
Proof. intros H. apply skipn_all2. rewrite firstn_length. lia. Qed.

(* truncation: every prefix that lacks at least one data line is rejected with the documented
   error; the loop never returns a narrower matrix *)
Lemma qchem_trunc w R : forall f (M hess : matrix) n c fuel m,
  1 <= w -> 1 <= R -> length M = R -> rect n M -> 1 <= n -> n <= f ->
  length hess = R -> rect c hess -> c + n = R ->
  m < fuel -> m < length (qlines f w M) ->
  qchem_loop fuel R hess (firstn m ([[]; []] ++ qlines f w M)) = ErrProperty.
Proof.
  induction f as [|f IH]; intros M hess n c fuel m Hw HR HM HRM Hn1 Hn Hh Hc Hcn Hfuel Hm; [lia|].
  assert (Hne : M <> []) by (destruct M; [cbn in HM; lia|discriminate]).
  assert (E : all_nil M = false) by (apply (all_nil_pos n); assumption).
  assert (Hcs : forall h : matrix, length h = R -> rect c h -> correct_shape R h = false).
  { intros h H1 H2. unfold correct_shape. rewrite (rectb_false R c); [apply andb_false_r|exact H2| |lia].
    destruct h; [cbn in H1; lia|discriminate]. }
  unfold qlines in *. cbn [blocks_f] in *. rewrite E in *. cbn [map concat] in *.
  set (b := map (firstn w) M) in *.
  assert (Hb : length b = R) by (unfold b; rewrite map_length; exact HM).
  destruct fuel as [|fuel]; [lia|]. cbn [qchem_loop]. rewrite (Hcs hess Hh Hc).
  destruct (le_lt_dec m 2) as [Hm2|Hm2].
  - rewrite skipn2_firstn_small by exact Hm2. rewrite firstn_nil. reflexivity.
  - destruct m as [|[|m']]; [lia|lia|]. cbn [app firstn skipn].
    rewrite <- !app_assoc.
    destruct (le_lt_dec R m') as [HRm|HRm].
    + (* the whole block b is present *)
      rewrite firstn_app, Hb.
      replace (firstn m' b) with b by (symmetry; apply firstn_all2; lia).
      rewrite firstn_app, Hb, Nat.sub_diag, firstn_O, app_nil_r, <- Hb, firstn_all, Hb.
      destruct b as [|r0 b0] eqn:Eb; [cbn in Hb; lia|]. rewrite <- Eb in *.
      replace (length hess <? R) with false by (symmetry; apply Nat.ltb_ge; lia).
      rewrite skipn_app, Hb, Nat.sub_diag, skipn_O, <- Hb, skipn_all, Hb. cbn [app].
      change ([] :: [] :: ?x) with ([[]; []] ++ x).
      destruct (Nat.eq_dec (n - w) 0) as [Hz|Hz].
      * exfalso. rewrite (blocks_f_rect0 f w (map (skipn w) M)) in Hm.
        -- rewrite !app_length, Hb in Hm. cbn [map concat length] in Hm. lia.
        -- rewrite <- Hz. apply rect_skipn. exact HRM.
      * apply (IH (map (skipn w) M) (zip_app hess b) (n - w) (c + Nat.min w n)).
        -- exact Hw. -- exact HR. -- rewrite map_length; exact HM.
        -- apply rect_skipn; exact HRM. -- lia. -- lia.
        -- rewrite zip_app_length; congruence.
        -- apply rect_zip_app; [exact Hc|unfold b; apply rect_firstn; exact HRM|congruence].
        -- lia. -- lia.
        -- rewrite !app_length, Hb in Hm. cbn [length] in Hm. lia.
    + (* the block itself is cut: m' < R rows of it *)
      rewrite firstn_app. replace (m' - length b) with 0 by lia. rewrite firstn_O, app_nil_r.
      assert (Hl : length (firstn m' b) = m') by (rewrite firstn_length; lia).
      rewrite (firstn_all2 (n:=R)) by lia.
      destruct (firstn m' b) as [|r0 b0] eqn:Eb; [cbn in Hl; lia|]. rewrite <- Eb in *.
      replace (length hess <? length (firstn m' b)) with false by (symmetry; apply Nat.ltb_ge; lia).
      rewrite (skipn_all2 (n:=R)) by lia.
      destruct fuel as [|fuel]; [lia|]. cbn [qchem_loop].
      assert (Hcs2 : correct_shape R (zip_app hess (firstn m' b)) = false).
      { unfold correct_shape. rewrite (rectb_zip_short R c); [apply andb_false_r|lia|exact Hc|lia]. }
      rewrite Hcs2. cbn [skipn]. rewrite firstn_nil. reflexivity.
Qed.

Lemma firstn_firstn_le {T} (l : list T) a b : a <= b -> firstn a (firstn b l) = firstn a l.
Proof. intros H. rewrite firstn_firstn. f_equal. lia. Qed.

Lemma qchem_truncation w (M : matrix) m :
  1 <= w -> M <> [] -> rect (length M) M ->
  m + 2 < length (qchem_lines w M) ->
  qchem_parse (length M) (firstn m (qchem_lines w M)) = ErrProperty.
Proof.
  intros Hw Hne HR Hm. set (R := length M) in *.
  assert (HRpos : 1 <= R) by (destruct M; [congruence|cbn; lia]).
  unfold qchem_parse, qchem_lines, blocks in *. rewrite (rect_width _ R) in * by assumption.
  rewrite (blocks_f_step R w M R) in * by assumption. set (f := R - 1) in *. cbn [map concat] in *.
  set (b := map (firstn w) M) in *.
  assert (Hb : length b = R) by (unfold b; rewrite map_length; reflexivity).
  fold (qlines f w (map (skipn w) M)) in *.
  rewrite <- app_assoc in *. rewrite app_length in Hm. rewrite Hb in Hm.
  assert (Hcs : forall (h : matrix) c, h <> [] -> rect c h -> c <> R -> correct_shape R h = false).
  { intros h c H0 H2 H3. unfold correct_shape. rewrite (rectb_false R c); [apply andb_false_r|exact H2|exact H0|exact H3]. }
  destruct (le_lt_dec m R) as [HmR|HmR].
  - (* cut inside (or right after) the first block *)
    rewrite firstn_app. replace (m - length b) with 0 by lia. rewrite firstn_O, app_nil_r.
    rewrite (firstn_all2 (n:=R)) by (rewrite firstn_length; lia).
    rewrite (skipn_all2 (n:=R)) by (rewrite firstn_length; lia).
    cbn [qchem_loop].
    assert (Hc0 : correct_shape R (firstn m b) = false).
    { destruct (Nat.eq_dec m R) as [He|He].
      - subst m. rewrite <- Hb, firstn_all, Hb.
        destruct (le_lt_dec R w) as [Hw2|Hw2].
        + exfalso. unfold qlines in Hm. rewrite (blocks_f_rect0 f w (map (skipn w) M)) in Hm.
          * cbn in Hm. lia.
          * replace 0 with (R - w) by lia. apply rect_skipn. exact HR.
        + apply (Hcs b (Nat.min w R)); [destruct b; [cbn in Hb; lia|discriminate]| |lia].
          unfold b. apply rect_firstn. exact HR.
      - unfold correct_shape. rewrite firstn_length. rewrite Hb.
        replace (Nat.min m R =? R) with false by (symmetry; apply Nat.eqb_neq; lia). reflexivity. }
    rewrite Hc0. cbn [skipn]. rewrite firstn_nil. reflexivity.
  - rewrite firstn_app, Hb.
    replace (firstn m b) with b by (symmetry; apply firstn_all2; lia).
    set (Y := firstn (m - R) ([[]; []] ++ qlines f w (map (skipn w) M))).
    rewrite (firstn_app R b Y), Hb, Nat.sub_diag, firstn_O, app_nil_r, <- Hb, firstn_all, Hb.
    rewrite (skipn_app R b Y), Hb, Nat.sub_diag, skipn_O, <- Hb, skipn_all, Hb. cbn [app]. unfold Y.
    destruct (le_lt_dec R w) as [Hw2|Hw2].
    + exfalso. unfold qlines in Hm. rewrite (blocks_f_rect0 f w (map (skipn w) M)) in Hm.
      * cbn in Hm. lia.
      * replace 0 with (R - w) by lia. apply rect_skipn. exact HR.
    + change ([] :: [] :: qlines f w (map (skipn w) M)) with ([[]; []] ++ qlines f w (map (skipn w) M)).
      apply (qchem_trunc w R f (map (skipn w) M) b (R - w) (Nat.min w R)).
      * exact Hw. * exact HRpos. * apply map_length. * apply rect_skipn; exact HR.
      * lia. * lia. * exact Hb. * unfold b; apply rect_firstn; exact HR. * lia.
      * rewrite app_length, firstn_length, Hb. lia.
      * rewrite app_length in Hm. cbn [length] in Hm. lia.
Qed.
End Q.

(* ============================================================ NWChem / triangle ==== *)
Section N.
Variable A : Type.
Notation row := (list A).
Notation matrix := (list (list A)).

(* ------------------------------------------------------------------ NWChem indexed rows --- *)
Lemma acc_idx_block w : forall (T pre suf : matrix) i rest,
  length suf = length T -> i = length pre ->
  acc_idx (pre ++ suf) (idx_block w i T ++ rest) =
  acc_idx (pre ++ zip_app suf (map (firstn w) T)) rest.
Proof.
  induction T as [|r T IH]; intros pre suf i rest HL Hi.
  - destruct suf; [|discriminate]. reflexivity.
  - destruct suf as [|a suf]; [discriminate|]. cbn [idx_block map zip_app].
    destruct r as [|x r].
    + rewrite firstn_nil, app_nil_r.
      replace (pre ++ a :: suf) with ((pre ++ [a]) ++ suf) by (rewrite <- app_assoc; reflexivity).
      rewrite (IH (pre ++ [a]) suf (S i) rest).
      * rewrite <- app_assoc. reflexivity.
      * cbn in HL. lia.
      * rewrite app_length. cbn. lia.
    + cbn [app acc_idx].
      replace (i <? length (pre ++ a :: suf)) with true
        by (symmetry; apply Nat.ltb_lt; rewrite app_length; cbn; lia).
      rewrite Hi, upd_app.
      replace (pre ++ (a ++ firstn w (x :: r)) :: suf) with ((pre ++ [a ++ firstn w (x :: r)]) ++ suf)
        by (rewrite <- app_assoc; reflexivity).
      rewrite (IH (pre ++ [a ++ firstn w (x :: r)]) suf (S (length pre)) rest).
      * rewrite <- app_assoc. reflexivity.
      * cbn in HL. lia.
      * rewrite app_length. cbn. lia.
Qed.

Lemma maxlen_cons (r : row) (T : matrix) : maxlen (r :: T) = Nat.max (length r) (maxlen T).
Proof. reflexivity. Qed.
Lemma maxlen_zero (T : matrix) : maxlen T = 0 -> all_nil T = true.
Proof.
  induction T as [|r T IH]; [reflexivity|]. rewrite maxlen_cons. intros H.
  destruct r; [|cbn [length] in H; lia]. cbn [all_nil forallb is_nil andb]. apply IH. cbn [length] in H. lia.
Qed.
Lemma maxlen_skipn w (T : matrix) : maxlen (map (skipn w) T) <= maxlen T - w.
Proof.
  induction T as [|r T IH]; [cbn; lia|]. cbn [map]. rewrite !maxlen_cons, skipn_length. lia.
Qed.
Lemma all_nil_false_maxlen (T : matrix) : all_nil T = false -> 1 <= maxlen T.
Proof.
  intros H. destruct (maxlen T) eqn:E; [|lia]. rewrite (maxlen_zero _ E) in H. discriminate.
Qed.

Lemma zip_app_all_nil (acc T : matrix) : length acc = length T -> all_nil T = true -> zip_app acc T = acc.
Proof.
  intros HL H. rewrite (all_nil_true _ _ H). rewrite <- HL. apply zip_app_repeat_nil.
Qed.

Lemma acc_idx_blocks w : forall f (T acc : matrix),
  1 <= w -> length acc = length T -> maxlen T <= f ->
  acc_idx acc (idx_blocks_f f w T) = Ok (zip_app acc T).
Proof.
  induction f as [|f IH]; intros T acc Hw HL Hf.
  - cbn. rewrite zip_app_all_nil; [reflexivity|exact HL|apply maxlen_zero; lia].
  - cbn [idx_blocks_f]. destruct (all_nil T) eqn:E.
    + cbn. rewrite zip_app_all_nil; [reflexivity|exact HL|exact E].
    + pose proof (acc_idx_block w T [] acc 0 (idx_blocks_f f w (map (skipn w) T)) HL eq_refl) as P.
      cbn [app] in P. rewrite P.
      rewrite IH.
      * rewrite zip_app_assoc by (rewrite map_length; exact HL). rewrite zip_app_firstn_skipn. reflexivity.
      * exact Hw.
      * rewrite zip_app_length, map_length; [exact HL|rewrite map_length; exact HL].
      * pose proof (maxlen_skipn w T). pose proof (all_nil_false_maxlen _ E). lia.
Qed.

Lemma zip_app_repeat_l (T : matrix) : zip_app (repeat [] (length T)) T = T.
Proof. induction T as [|r T IH]; cbn; [reflexivity|]. rewrite IH. reflexivity. Qed.

(* every ragged row list is recovered from its indexed column blocks *)
Lemma nwchem_rows_roundtrip w (T : matrix) :
  1 <= w -> nwchem_rows (length T) (idx_blocks w T) = Ok T.
Proof.
  intros Hw. unfold nwchem_rows, idx_blocks. rewrite acc_idx_blocks.
  - rewrite zip_app_repeat_l. reflexivity.
  - exact Hw.
  - apply repeat_length.
  - lia.
Qed.

(* value count is preserved by the accumulation: a shorter block cannot give a full triangle *)
Definition total (T : matrix) : nat := length (concat T).
Lemma total_upd (acc : matrix) i v : i < length acc -> total (upd acc i v) = total acc + length v.
Proof.
  unfold total. revert i. induction acc as [|x acc IH]; intros i Hi; [cbn in Hi; lia|].
  destruct i; cbn [upd concat]; rewrite !app_length.
  - lia.
  - rewrite IH by (cbn in Hi; lia). lia.
Qed.
Lemma upd_length (acc : matrix) i v : length (upd acc i v) = length acc.
Proof. revert i. induction acc as [|x acc IH]; intros [|i]; cbn; auto. Qed.
Definition nvalues (ls : list (nat * row)) : nat := fold_right (fun l s => length (snd l) + s) 0 ls.
Lemma acc_idx_total : forall (ls : list (nat * row)) (acc T : matrix),
  acc_idx acc ls = Ok T -> total T = total acc + nvalues ls /\ length T = length acc.
Proof.
  induction ls as [|[i v] ls IH]; intros acc T H.
  - cbn [acc_idx] in H. injection H as H. subst T. cbn [nvalues fold_right]. lia.
  - cbn [acc_idx] in H. destruct (i <? length acc) eqn:E; [|discriminate]. apply Nat.ltb_lt in E.
    destruct (IH _ _ H) as [H1 H2]. rewrite total_upd in H1 by exact E. rewrite upd_length in H2.
    cbn [nvalues fold_right snd]. fold (nvalues ls). lia.
Qed.
Lemma total_repeat_nil R : total (repeat ([] : row) R) = 0.
Proof. unfold total. induction R; cbn; auto. Qed.

(* ------------------------------------------------------------------ triangular numbers ---- *)
Lemma even_prod n : exists k, n * (n + 1) = 2 * k.
Proof.
  induction n as [|n [k Hk]]; [exists 0; reflexivity|]. exists (k + n + 1). nia.
Qed.
Lemma tri_double n : 2 * tri n = n * (n + 1).
Proof.
  unfold tri. destruct (even_prod n) as [k Hk]. rewrite Hk.
  replace (2 * k / 2) with k; [reflexivity|].
  symmetry. replace (2 * k) with (k * 2) by lia. apply Nat.div_mul. lia.
Qed.
Lemma tri_n_tri n : tri_n (tri n) = n.
Proof.
  unfold tri_n. pose proof (tri_double n) as H.
  replace (8 * tri n + 1) with ((2 * n + 1) * (2 * n + 1)) by nia.
  rewrite Nat.sqrt_square. replace (2 * n + 1 - 1) with (n * 2) by lia. apply Nat.div_mul. lia.
Qed.
Lemma tri_S n : tri (S n) = tri n + S n.
Proof. pose proof (tri_double n). pose proof (tri_double (S n)). nia. Qed.
Lemma tri_mono a b : a < b -> tri a < tri b.
Proof. intros H. pose proof (tri_double a). pose proof (tri_double b). nia. Qed.
Lemma tri_inj a b : tri a = tri b -> a = b.
Proof.
  intros H. destruct (Nat.lt_trichotomy a b) as [L|[E|L]]; [apply tri_mono in L; lia|exact E|apply tri_mono in L; lia].
Qed.
End N.

(* ============================================================ lower triangle ======= *)
Section T.
Variable A : Type.
Variable zero : A.
Notation row := (list A).
Notation matrix := (list (list A)).

Definition lrow (ir : nat * row) : row := firstn (S (fst ir)) (snd ir).
Definition long_rows (k : nat) (M : matrix) : Prop := Forall (fun r => k <= length r) M.

Lemma ltril_eq (M : matrix) : ltril M = concat (lower_rows M).
Proof. reflexivity. Qed.

Lemma tri_len : forall (M : matrix) k, long_rows (k + length M) M ->
  length (concat (map lrow (combine (seq k (length M)) M))) + tri k = tri (k + length M).
Proof.
  induction M as [|r M IH]; intros k H.
  - cbn. rewrite Nat.add_0_r. reflexivity.
  - inversion H as [|? ? H1 H2]; subst. cbn [length seq combine map concat] in *.
    rewrite app_length. unfold lrow at 1. cbn [fst snd]. rewrite firstn_length.
    replace (k + S (length M)) with (S k + length M) in * by lia.
    specialize (IH (S k) H2). rewrite tri_S in IH. lia.
Qed.

Lemma firstn_app_exact {T} (a b : list T) n : length a = n -> firstn n (a ++ b) = a.
Proof. intros <-. rewrite firstn_app, Nat.sub_diag, firstn_O, app_nil_r. apply firstn_all. Qed.
Lemma skipn_app_exact {T} (a b : list T) n : length a = n -> skipn n (a ++ b) = b.
Proof. intros <-. rewrite skipn_app, Nat.sub_diag, skipn_O, skipn_all. reflexivity. Qed.

Lemma tri_rows_lower : forall (M : matrix) k, long_rows (k + length M) M ->
  tri_rows (S k) (length M) (concat (map lrow (combine (seq k (length M)) M))) =
  map lrow (combine (seq k (length M)) M).
Proof.
  induction M as [|r M IH]; intros k H; [reflexivity|].
  inversion H as [|? ? H1 H2]; subst. cbn [length seq combine map concat tri_rows] in *.
  assert (HL : length (lrow (k, r)) = S k) by (unfold lrow; cbn [fst snd]; rewrite firstn_length; lia).
  rewrite (firstn_app_exact _ _ _ HL), (skipn_app_exact _ _ _ HL). f_equal.
  apply IH. replace (S k + length M) with (k + S (length M)) by lia. exact H2.
Qed.

Lemma nth_lower : forall (M : matrix) k i, i < length M ->
  nth i (map lrow (combine (seq k (length M)) M)) [] = firstn (S (k + i)) (nth i M []).
Proof.
  induction M as [|r M IH]; intros k i Hi; [cbn in Hi; lia|].
  cbn [length seq combine map]. destruct i as [|i].
  - cbn. rewrite Nat.add_0_r. reflexivity.
  - cbn [nth]. rewrite IH by (cbn in Hi; lia). f_equal. lia.
Qed.

Lemma nth_firstn_lt {T} (l : list T) d : forall j k, j < k -> nth j (firstn k l) d = nth j l d.
Proof.
  induction l as [|x l IH]; intros j k H; [rewrite firstn_nil; reflexivity|].
  destruct k; [lia|]. destruct j; cbn; [reflexivity|]. apply IH. lia.
Qed.

Lemma nth_map_seq0 {T} (g : nat -> T) d n i : i < n -> nth i (map g (seq 0 n)) d = g i.
Proof.
  intros Hi. rewrite (nth_indep _ d (g 0)) by (rewrite map_length, seq_length; exact Hi).
  rewrite (map_nth g (seq 0 n) 0 i). rewrite seq_nth by exact Hi. reflexivity.
Qed.

Definition symmetric (n : nat) (M : matrix) : Prop :=
  forall i j, i < n -> j < n -> nth j (nth i M []) zero = nth i (nth j M []) zero.

Lemma sym_of_lower (M : matrix) :
  rect (length M) M -> symmetric (length M) M ->
  sym_of_rows zero (length M) (lower_rows M) = M.
Proof.
  intros HR HS. unfold sym_of_rows.
  apply (nth_ext _ _ [] []); [rewrite map_length, seq_length; reflexivity|].
  rewrite map_length, seq_length. intros i Hi. rewrite nth_map_seq0 by exact Hi.
  assert (Hrow : length (nth i M []) = length M).
  { unfold rect in HR. rewrite Forall_forall in HR. apply HR. apply nth_In. exact Hi. }
  apply (nth_ext _ _ zero zero); [rewrite map_length, seq_length; symmetry; exact Hrow|].
  rewrite map_length, seq_length. intros j Hj. rewrite nth_map_seq0 by exact Hj.
  unfold sym_entry, lower_rows. fold lrow.
  destruct (j <=? i) eqn:E.
  - apply Nat.leb_le in E. rewrite (nth_lower M 0 i Hi). cbn [Nat.add].
    apply nth_firstn_lt. lia.
  - apply Nat.leb_gt in E. rewrite (nth_lower M 0 j Hj). cbn [Nat.add].
    rewrite nth_firstn_lt by lia. symmetry. apply HS; assumption.
Qed.

Lemma rect_long n (M : matrix) : rect n M -> long_rows n M.
Proof. unfold rect, long_rows. apply Forall_impl. intros; lia. Qed.

Lemma ltril_length (M : matrix) : rect (length M) M -> length (ltril M) = tri (length M).
Proof.
  intros HR. pose proof (tri_len M 0 (rect_long _ _ HR)) as H. cbn [Nat.add] in H.
  change (tri 0) with 0 in H.
  change (ltril M) with (concat (map lrow (combine (seq 0 (length M)) M))). lia.
Qed.

(* lower-triangle flattening and symm_matrix_from_ltril are inverse on symmetric matrices *)
Lemma ltril_roundtrip (M : matrix) :
  rect (length M) M -> symmetric (length M) M -> symm_from_ltril zero (ltril M) = Ok M.
Proof.
  intros HR HS. unfold symm_from_ltril. rewrite ltril_length by exact HR.
  rewrite tri_n_tri, Nat.eqb_refl. f_equal.
  pose proof (tri_rows_lower M 0 (rect_long _ _ HR)) as H.
  change (ltril M) with (concat (map lrow (combine (seq 0 (length M)) M))).
  rewrite H. apply sym_of_lower; assumption.
Qed.

(* whatever is accepted has the size determined by the element count: no shorter matrix *)
Lemma sym_of_rows_length n (T : matrix) : length (sym_of_rows zero n T) = n.
Proof. unfold sym_of_rows. rewrite map_length, seq_length. reflexivity. Qed.
Lemma symm_from_ltril_size (l : list A) (M : matrix) :
  symm_from_ltril zero l = Ok M -> length l = tri (length M) /\ length M = tri_n (length l).
Proof.
  unfold symm_from_ltril. destruct (tri (tri_n (length l)) =? length l) eqn:E; [|discriminate].
  intros H. injection H as H. subst M. rewrite sym_of_rows_length. apply Nat.eqb_eq in E. lia.
Qed.
Lemma g09_hessian_size R (l : list A) (M : matrix) :
  g09_hessian zero R l = Ok M -> length l = tri R /\ length M = R.
Proof.
  unfold g09_hessian. destruct (length l =? tri R) eqn:E; [|discriminate]. apply Nat.eqb_eq in E.
  intros H. apply symm_from_ltril_size in H as [H1 H2]. split; [exact E|]. rewrite H2, E. apply tri_n_tri.
Qed.
Lemma g09_truncated R (l : list A) : length l < tri R -> g09_hessian zero R l = ErrProperty.
Proof.
  intros H. unfold g09_hessian. replace (length l =? tri R) with false; [reflexivity|].
  symmetry. apply Nat.eqb_neq. lia.
Qed.
Lemma g09_roundtrip (M : matrix) :
  rect (length M) M -> symmetric (length M) M -> g09_hessian zero (length M) (ltril M) = Ok M.
Proof.
  intros HR HS. unfold g09_hessian. rewrite ltril_length, Nat.eqb_refl by exact HR.
  apply ltril_roundtrip; assumption.
Qed.

(* NWChem: indexed lower-triangular column blocks -> rows -> flat triangle -> matrix *)
Lemma lower_rows_length (M : matrix) : length (lower_rows M) = length M.
Proof. unfold lower_rows. rewrite map_length, combine_length, seq_length. lia. Qed.
Lemma nwchem_roundtrip w (M : matrix) :
  1 <= w -> rect (length M) M -> symmetric (length M) M ->
  nwchem_hessian zero (length M) (idx_blocks w (lower_rows M)) = Ok M.
Proof.
  intros Hw HR HS. unfold nwchem_hessian.
  rewrite <- (lower_rows_length M) at 1. rewrite nwchem_rows_roundtrip by exact Hw.
  rewrite <- ltril_eq, ltril_roundtrip by assumption. rewrite Nat.eqb_refl. reflexivity.
Qed.
Lemma nwchem_truncated R (ls : list (nat * row)) (M : matrix) :
  nwchem_hessian zero R ls = Ok M -> length M = R /\ nvalues A ls = tri R.
Proof.
  unfold nwchem_hessian, nwchem_rows. destruct (acc_idx (repeat [] R) ls) as [T| | | |] eqn:E; try discriminate.
  destruct (symm_from_ltril zero (concat T)) as [M'| | | |] eqn:E2; try discriminate.
  destruct (length M' =? R) eqn:E3; [|discriminate]. apply Nat.eqb_eq in E3.
  intros H. injection H as H. subst M'. split; [exact E3|].
  apply symm_from_ltril_size in E2 as [H1 H2].
  apply acc_idx_total in E as [H3 H4]. rewrite (total_repeat_nil A) in H3. unfold total in H3.
  rewrite <- E3. lia.
Qed.
End T.

(* ============================================================ ORCA truncation ====== *)
Section O.
Variable A : Type.
Variable hdr : A.
Notation row := (list A).
Notation matrix := (list (list A)).

(* the scan is left-to-right: a truncated file yields a prefix of the collected rows *)
Lemma orca_collect_prefix : forall (L : list row) p m,
  exists k, orca_collect p (firstn m L) = firstn k (orca_collect p L).
Proof.
  induction L as [|l L IH]; intros p m.
  - exists 0. rewrite firstn_nil. reflexivity.
  - destruct m as [|m]; [exists 0; reflexivity|]. cbn [firstn orca_collect].
    destruct (length l =? 0); [exists 0; reflexivity|].
    destruct (length l <? p).
    + apply IH.
    + destruct (IH (length l) m) as [k Hk]. exists (S k). rewrite Hk. reflexivity.
Qed.

Lemma accum_total R : forall (rows : list row) (acc : matrix) i,
  1 <= R -> length acc = R ->
  total A (accum R acc i rows) = total A acc + total A rows /\ length (accum R acc i rows) = R.
Proof.
  induction rows as [|r rows IH]; intros acc i HR HA.
  - cbn. unfold total. cbn. lia.
  - cbn [accum]. assert (Hi : i mod R < length acc) by (rewrite HA; apply Nat.mod_upper_bound; lia).
    destruct (IH (upd acc (i mod R) r) (S i) HR) as [H1 H2]; [rewrite upd_length; exact HA|].
    rewrite H1, H2, (total_upd A) by exact Hi. unfold total. cbn [concat]. rewrite app_length. lia.
Qed.
Lemma total_app (a b : matrix) : total A (a ++ b) = total A a + total A b.
Proof. unfold total. rewrite concat_app, app_length. reflexivity. Qed.
Lemma orca_assemble_total R (rows : list row) :
  1 <= R -> R <= length rows -> total A (orca_assemble R rows) = total A rows.
Proof.
  intros HR HL. unfold orca_assemble.
  destruct (accum_total R (skipn R rows) (firstn R rows) 0 HR) as [H1 _]; [rewrite firstn_length; lia|].
  rewrite H1, <- total_app, firstn_skipn. reflexivity.
Qed.
Lemma orca_assemble_short R (rows : list row) : length rows < R -> length (orca_assemble R rows) < R.
Proof.
  intros H. unfold orca_assemble. rewrite skipn_all2 by lia. cbn. rewrite firstn_length. lia.
Qed.

Lemma total_rect R n (M : matrix) : length M = R -> rect n M -> total A M = R * n.
Proof.
  revert R. induction M as [|r M IH]; intros R HL HR.
  - cbn in HL. subst R. reflexivity.
  - cbn in HL. subst R. inversion HR as [|? ? H1 H2]; subst. unfold total in *. cbn [concat].
    rewrite app_length. rewrite (IH (length M) eq_refl H2). cbn [length]. lia.
Qed.

Lemma firstn_total_full : forall (l : matrix) k,
  Forall (fun r => r <> []) l -> total A (firstn k l) = total A l -> firstn k l = l.
Proof.
  intros l k HF HT. rewrite <- (firstn_skipn k l) in HT at 2. rewrite total_app in HT.
  assert (H0 : total A (skipn k l) = 0) by lia.
  assert (Hs : skipn k l = []).
  { destruct (skipn k l) as [|r s] eqn:E; [reflexivity|].
    assert (In r l) by (rewrite <- (firstn_skipn k l), E; apply in_or_app; right; left; reflexivity).
    rewrite Forall_forall in HF. specialize (HF r H). destruct r; [congruence|].
    unfold total in H0. cbn in H0. lia. }
  rewrite <- (firstn_skipn k l) at 2. rewrite Hs, app_nil_r. reflexivity.
Qed.

Lemma blocks_rows_nonempty f w : forall (M : matrix) n,
  1 <= w -> rect n M -> Forall (fun r => r <> []) (concat (blocks_f f w M)).
Proof.
  induction f as [|f IH]; intros M n Hw HR; cbn; [constructor|].
  destruct (all_nil M) eqn:E; cbn; [constructor|].
  pose proof (all_nil_false_pos _ _ _ HR E) as Hp.
  apply Forall_app. split.
  - pose proof (rect_firstn _ n w M HR) as H. unfold rect in H.
    eapply Forall_impl; [|exact H]. intros r Hr. cbv beta in Hr. destruct r; [cbn in Hr; lia|discriminate].
  - apply (IH _ (n - w)); [exact Hw|apply rect_skipn; exact HR].
Qed.

(* ORCA: a truncated Hessian block is never accepted as a smaller or different matrix *)
Lemma orca_truncation w (M : matrix) h rest m :
  1 <= w -> M <> [] -> rect (length M) M -> orca_lines hdr w M = h :: rest ->
  orca_parse (length M) (h :: firstn m rest) = Ok M \/
  orca_parse (length M) (h :: firstn m rest) = ErrShape.
Proof.
  intros Hw Hne HR HL. set (R := length M) in *.
  assert (HRpos : 1 <= R) by (destruct M; [congruence|cbn; lia]).
  (* full collection (with an arbitrary terminator) *)
  pose proof (orca_reassembly A hdr w M R [] h rest Hw HRpos Hne HR HL) as Full. fold R in Full.
  unfold orca_parse.
  destruct ((length (orca_assemble R (orca_collect (length h) (firstn m rest))) =? R) &&
            rectb R (orca_assemble R (orca_collect (length h) (firstn m rest)))) eqn:E; [|right; reflexivity].
  left. f_equal. apply andb_prop in E as [E1 E2]. apply Nat.eqb_eq in E1. apply rectb_rect in E2.
  destruct (orca_collect_prefix (rest ++ [[]]) (length h) m) as [k Hk].
  assert (Hpre : firstn m rest = firstn m (rest ++ [[]]) \/ m > length rest).
  { destruct (le_lt_dec m (length rest)); [left|right; lia].
    rewrite firstn_app. replace (m - length rest) with 0 by lia. rewrite firstn_O, app_nil_r. reflexivity. }
  set (rows := orca_collect (length h) (rest ++ [[]])) in *.
  assert (Hrows : rows = concat (blocks_f R w M)).
  { unfold rows.
    assert (HWd : width M = R) by (apply rect_width; assumption).
    pose proof (collect_blocks A hdr R w M R (S (Nat.min w R)) [] Hw Hne HR (le_n _) (Nat.lt_succ_diag_r _)) as C.
    unfold orca_lines, blocks in HL. rewrite HWd in HL. rewrite HL in C.
    assert (Hh : length h = Nat.min w R).
    { rewrite (blocks_f_step A R w M R) in HL by assumption. cbn [map concat] in HL.
      unfold orca_block_lines at 1 in HL. cbn [app] in HL. injection HL as H1 H2. rewrite <- H1, repeat_length.
      apply rect_width; [apply rect_firstn; exact HR|]. destruct M; [congruence|discriminate]. }
    cbn [app orca_collect] in C.
    replace (length h =? 0) with false in C by (symmetry; apply Nat.eqb_neq; lia).
    replace (length h <? S (Nat.min w R)) with true in C by (symmetry; apply Nat.ltb_lt; lia).
    exact C. }
  (* the truncated rows are a prefix of the full rows *)
  assert (Hsub : exists k', orca_collect (length h) (firstn m rest) = firstn k' rows).
  { destruct Hpre as [Hp|Hp].
    - rewrite Hp. exists k. exact Hk.
    - rewrite firstn_all2 by lia. exists (length rows).
      rewrite firstn_all. unfold rows.
      (* collecting stops at the blank line; without it the same rows are collected *)
      clear. generalize (length h). induction rest as [|l r IH]; intros p; [reflexivity|].
      cbn [app orca_collect]. destruct (length l =? 0); [reflexivity|].
      destruct (length l <? p); [apply IH|f_equal; apply IH]. }
  destruct Hsub as [k' Hk']. rewrite Hk' in *.
  assert (HMtot : total A M = R * R) by (apply total_rect; [reflexivity|exact HR]).
  assert (Hfull : orca_assemble R rows = M).
  { rewrite <- Full. reflexivity. }
  assert (Hrtot : total A rows = R * R).
  { rewrite <- HMtot, <- Hfull. symmetry. apply orca_assemble_total; [exact HRpos|].
    rewrite Hrows. rewrite (blocks_f_step A R w M R) by assumption.
    cbn [concat]. rewrite app_length, map_length. change (length M) with R. lia. }
  destruct (le_lt_dec R (length (firstn k' rows))) as [HLk|HLk].
  - assert (Ht : total A (firstn k' rows) = R * R).
    { rewrite <- (orca_assemble_total R) by assumption.
      apply total_rect; assumption. }
    rewrite (firstn_total_full rows k'); [exact Hfull| |lia].
    rewrite Hrows. apply (blocks_rows_nonempty R w M R); assumption.
  - pose proof (orca_assemble_short R _ HLk). lia.
Qed.
End O.

(* ============================================================ ORCA $end test ========= *)
Section OE.
Variable A : Type.
Variable hdr : A.
Variable is_end : list A -> bool.
Notation row := (list A).
Notation matrix := (list (list A)).

Lemma existsb_firstn_false {T} (f : T -> bool) (l : list T) m :
  (forall x, In x l -> f x = false) -> existsb f (firstn m l) = false.
Proof.
  intros H. destruct (existsb f (firstn m l)) eqn:E; [|reflexivity].
  apply existsb_exists in E as [x [Hx Hf]]. rewrite H in Hf; [discriminate|].
  rewrite <- (firstn_skipn m l). apply in_or_app. left. exact Hx.
Qed.

(* a complete .hess file: block, blank line, further sections, the closing "$end" line *)
Lemma orca_hess_file_complete w (M : matrix) h rest X :
  1 <= w -> M <> [] -> rect (length M) M -> orca_lines hdr w M = h :: rest ->
  existsb is_end X = true ->
  orca_hess_file is_end (length M) (h :: rest ++ [] :: X) = Ok M.
Proof.
  intros Hw Hne HR HL HX. unfold orca_hess_file.
  replace (existsb is_end (rest ++ [] :: X)) with true.
  - unfold orca_parse.
    assert (Hn : 1 <= length M) by (destruct M; [congruence|cbn; lia]).
    rewrite (orca_reassembly A hdr w M (length M) X h rest Hw Hn Hne HR HL).
    rewrite Nat.eqb_refl, (rectb_true A _ _ HR). reflexivity.
  - symmetry. rewrite existsb_app. cbn [existsb]. rewrite HX. rewrite !orb_true_r. reflexivity.
Qed.
(* every file that ends inside (or right after) the block - no line of the block is a "$end" line -
   is CouldNotGetProperty, whatever the cut *)
Lemma orca_hess_file_truncated w (M : matrix) h rest m R :
  orca_lines hdr w M = h :: rest -> (forall l, In l rest -> is_end l = false) ->
  orca_hess_file is_end R (h :: firstn m rest) = ErrProperty.
Proof.
  intros HL HE. unfold orca_hess_file. rewrite existsb_firstn_false by exact HE. reflexivity.
Qed.
End OE.

(* ============================================================ xyz / StringDict ===== *)
From Coq Require Import Ascii String QArith.
Local Open Scope list_scope.
Local Open Scope nat_scope.

(* ------------------------------------------------------------------ StringDict ------------ *)
Lemma prefixb_app (p r : str) : prefixb p (p ++ r) = true.
Proof. induction p as [|a p IH]; cbn; [reflexivity|]. rewrite Ascii.eqb_refl, IH. reflexivity. Qed.
Lemma prefixb_eq (p s : str) : prefixb p s = true -> s = p ++ skipn (List.length p) s.
Proof.
  revert s. induction p as [|a p IH]; intros s H; [reflexivity|].
  destruct s as [|b s]; [discriminate|]. cbn in H. apply andb_prop in H as [H1 H2].
  apply Ascii.eqb_eq in H1. subst b. cbn. f_equal. apply IH. exact H2.
Qed.
Lemma skipn_app_len {T} (a b : list T) : skipn (List.length a) (a ++ b) = b.
Proof. induction a; cbn; auto. Qed.

Lemma take_tok_app (v rest : str) :
  forallb (fun c => negb (is_ws c)) v = true -> rest_ok rest = true -> take_tok (v ++ rest) = v.
Proof.
  intros Hv Hr. induction v as [|c v IH]; cbn [app].
  - destruct rest as [|c r]; [reflexivity|]. cbn in *. rewrite Hr. reflexivity.
  - cbn in Hv. apply andb_prop in Hv as [H1 H2]. apply negb_true_iff in H1.
    cbn. rewrite H1, IH by exact H2. reflexivity.
Qed.
(* every string is its maximal non-blank prefix followed by nothing or by a blank *)
Lemma take_tok_split (t : str) :
  exists rest, t = take_tok t ++ rest /\ rest_ok rest = true /\
               forallb (fun c => negb (is_ws c)) (take_tok t) = true.
Proof.
  induction t as [|c t [rest [H1 [H2 H3]]]].
  - exists []. repeat split.
  - cbn [take_tok]. destruct (is_ws c) eqn:E.
    + exists (c :: t). repeat split. cbn. exact E.
    + exists rest. cbn [app forallb]. rewrite E. cbn [negb andb]. repeat split; [f_equal; exact H1|exact H2|exact H3].
Qed.

Lemma no_hit_S sep b c s k : no_hit sep b (c :: s) (S k) = negb (hit sep b (c :: s)) && no_hit sep (is_ws c) s k.
Proof. reflexivity. Qed.

(* no match before offset |pre|: the scan arrives at the remainder with the flag of pre's end *)
Lemma sd_find_skip (sep : str) : forall (pre : str) (b : bool) (X : str),
  no_hit sep b (pre ++ X) (List.length pre) = true ->
  sd_find sep b (pre ++ X) = sd_find sep (flag_after b pre) X.
Proof.
  induction pre as [|c pre IH]; intros b X H; [reflexivity|].
  cbn [app List.length] in H. rewrite no_hit_S in H. apply andb_prop in H as [H1 H2].
  apply negb_true_iff in H1. cbn [app sd_find flag_after]. rewrite H1. apply IH. exact H2.
Qed.

Lemma sd_find_here (sep v rest : str) :
  sep <> [] -> is_token v = true -> rest_ok rest = true ->
  sd_find sep true (sep ++ v ++ rest) = Some v.
Proof.
  intros Hs Hv Hr. destruct sep as [|a sep]; [congruence|].
  change ((a :: sep) ++ v ++ rest) with (a :: (sep ++ v ++ rest)). cbn [sd_find].
  change (a :: (sep ++ v ++ rest)) with ((a :: sep) ++ v ++ rest).
  unfold hit. rewrite prefixb_app, skipn_app_len.
  destruct v as [|x v]; [discriminate|]. unfold is_token in Hv.
  assert (Hx : is_ws x = false).
  { cbn in Hv. apply andb_prop in Hv as [H1 _]. apply negb_true_iff in H1. exact H1. }
  cbn [app value_starts andb]. rewrite Hx. cbn [negb].
  change (x :: v ++ rest) with ((x :: v) ++ rest). rewrite take_tok_app by assumption. reflexivity.
Qed.

(* completeness: the first whole-key occurrence followed by a token is what the lookup returns *)
Lemma sd_get_ok (key pre v rest : str) :
  lookup_ok key pre v rest = true ->
  sd_get key (pre ++ (key ++ delim) ++ v ++ rest) = Some v.
Proof.
  unfold lookup_ok. intros H. apply andb_prop in H as [H H4]. apply andb_prop in H as [H H3].
  apply andb_prop in H as [H1 H2].
  assert (Hs : key ++ delim <> []) by (destruct key; discriminate).
  unfold sd_get. rewrite sd_find_skip by exact H4. rewrite H3. apply sd_find_here; assumption.
Qed.

(* soundness: whatever the lookup returns is the token that follows a WHOLE key - the key starts
   the string or follows a blank - so a key is never found inside another word *)
Lemma sd_find_sound (sep : str) : forall (s : str) (b : bool) (v : str),
  sd_find sep b s = Some v ->
  exists pre rest, s = pre ++ sep ++ v ++ rest /\ flag_after b pre = true /\
                   is_token v = true /\ rest_ok rest = true /\
                   no_hit sep b s (List.length pre) = true.
Proof.
  induction s as [|c s IH]; intros b v H; [discriminate|].
  cbn [sd_find] in H. destruct (hit sep b (c :: s)) eqn:E.
  - injection H as <-. unfold hit in E. apply andb_prop in E as [E E3]. apply andb_prop in E as [E1 E2].
    destruct (take_tok_split (skipn (List.length sep) (c :: s))) as [rest [H1 [H2 H3]]].
    exists [], rest. cbn [app flag_after List.length no_hit]. repeat split; try assumption.
    + rewrite <- H1. apply prefixb_eq. exact E2.
    + unfold is_token. destruct (skipn (List.length sep) (c :: s)) as [|x t]; [discriminate|].
      cbn in E3. cbn [take_tok] in *. apply negb_true_iff in E3. rewrite E3 in *. exact H3.
  - destruct (IH _ _ H) as [pre [rest [H1 [H2 [H3 [H4 H5]]]]]].
    exists (c :: pre), rest. cbn [app flag_after List.length]. rewrite no_hit_S, E. cbn [negb andb].
    repeat split; try assumption. f_equal. exact H1.
Qed.

(* ------------------------------------------------------------------ fixed point ----------- *)
Lemma rnd_close (n : Z) (d : positive) : (Z.abs (2 * (rnd n d * Zpos d - n)) <= Zpos d)%Z.
Proof.
  unfold rnd. pose proof (Z.div_mod n (Zpos d) ltac:(lia)) as E.
  pose proof (Z.mod_pos_bound n (Zpos d) ltac:(lia)) as B.
  set (fl := (n / Zpos d)%Z) in *. set (r := (n mod Zpos d)%Z) in *.
  destruct (2 * r <? Zpos d)%Z eqn:E1; [apply Z.ltb_lt in E1; nia|apply Z.ltb_ge in E1].
  destruct (Zpos d <? 2 * r)%Z eqn:E2; [apply Z.ltb_lt in E2; nia|apply Z.ltb_ge in E2].
  destruct (Z.even fl); nia.
Qed.
(* an exactly representable value is printed exactly *)
Lemma rnd_exact (z : Z) (d : positive) : rnd (z * Zpos d) d = z.
Proof.
  unfold rnd. rewrite Z.div_mul, Z.mod_mul by lia. cbn. destruct d; reflexivity.
Qed.

(* ------------------------------------------------------------------ xyz ------------------- *)
Section X.
Variable valid_sym : str -> bool.
Variable solvent_key : str.
Variables int_ok mult_ok float_ok solv_ok : str -> bool.
Notation read_frames' := (read_frames valid_sym solvent_key int_ok mult_ok float_ok solv_ok).
Notation read_molecules' := (read_molecules valid_sym solvent_key int_ok mult_ok float_ok solv_ok).
Notation title_converts' := (title_converts solvent_key int_ok mult_ok float_ok solv_ok).
Notation title_solvent_ok' := (title_solvent_ok solvent_key solv_ok).
Notation title_values_ok' := (title_values_ok int_ok mult_ok float_ok).
Definition labels_ok (atoms : list atom) : Prop := Forall (fun a => valid_sym (lbl a) = true) atoms.

Lemma parse_written (atoms : list atom) : labels_ok atoms ->
  parse_atoms valid_sym (map write_atom atoms) = Ok (map round_atom atoms).
Proof.
  induction atoms as [|a atoms IH]; intros H; [reflexivity|]. inversion H as [|? ? Ha Hr]; subst.
  cbn [map parse_atoms]. unfold write_atom at 1. cbn [parse_atom tok_num tok_label_ok]. rewrite Ha.
  rewrite IH by assumption. reflexivity.
Qed.
Lemma firstn_len_app {T} (a b : list T) : firstn (List.length a) (a ++ b) = a.
Proof. induction a as [|x a IH]; cbn; [reflexivity|]. rewrite IH. reflexivity. Qed.

Lemma xyz_single (atoms : list atom) (title : str) (more : list xline) :
  atoms <> [] -> labels_ok atoms ->
  read_atoms valid_sym (write_frame atoms title ++ more) = Ok (map round_atom atoms).
Proof.
  intros Hne HL. unfold write_frame, read_atoms. cbn [app tl]. rewrite Nat2Z.id.
  rewrite <- (map_length write_atom atoms) at 1. rewrite firstn_len_app.
  rewrite parse_written by exact HL.
  replace (Z.of_nat (List.length atoms) <? 0)%Z with false by (symmetry; apply Z.ltb_ge; lia).
  rewrite map_length, Nat.eqb_refl. cbn [negb].
  replace (Z.of_nat (List.length atoms) =? 0)%Z with false; [reflexivity|].
  symmetry. apply Z.eqb_neq. destruct atoms; [congruence|]. cbn [List.length]. lia.
Qed.

Definition frame_of (fa : list atom * str) : frame :=
  mkFrame (map round_atom (fst fa)) (sd_get (s_ "charge") (snd fa)) (sd_get (s_ "mult") (snd fa))
          (sd_get solvent_key (snd fa)) (sd_get (s_ "E") (snd fa)).
Definition write_frames (fs : list (list atom * str)) : list xline :=
  List.concat (map (fun fa => write_frame (fst fa) (snd fa)) fs).

Lemma strip_blank_keep (l : list xline) (x : xline) : is_blank x = false -> strip_blank (l ++ [x]) = l ++ [x].
Proof.
  intros Hx. induction l as [|a l IH]; cbn [app strip_blank]; [rewrite Hx; reflexivity|].
  rewrite IH. destruct (l ++ [x]) eqn:E; [destruct l; discriminate|reflexivity].
Qed.

Lemma read_frames_written n : forall (fs : list (list atom * str)) fuel,
  1 <= n -> List.length fs <= fuel ->
  Forall (fun fa => List.length (fst fa) = n /\ labels_ok (fst fa) /\ title_converts' (snd fa) = true) fs ->
  read_frames' fuel n (write_frames fs) = Ok (map frame_of fs).
Proof.
  induction fs as [|[atoms title] fs IH]; intros fuel Hn Hf HF.
  - destruct fuel; reflexivity.
  - destruct fuel as [|fuel]; [cbn in Hf; lia|]. inversion HF as [|? ? [H1 [H2 H4]] H3]; subst.
    cbn [fst snd] in *. unfold write_frames. cbn [map List.concat]. unfold write_frame at 1.
    cbn [fst snd app read_frames skipn hd]. fold (write_frames fs).
    rewrite (firstn_app_exact _ _ _ (map_length write_atom atoms)).
    rewrite map_length, Nat.eqb_refl. cbn [negb orb].
    replace (List.length atoms =? 0) with false by (symmetry; apply Nat.eqb_neq; lia).
    rewrite parse_written by exact H2. cbn [title_text].
    unfold title_converts in H4. apply andb_prop in H4 as [H4a H4b]. rewrite H4a, H4b. cbn [negb].
    rewrite (skipn_app_exact _ _ _ (map_length write_atom atoms)).
    rewrite IH; [reflexivity|exact Hn|cbn in Hf; lia|exact H3].
Qed.

Lemma write_frames_last n (fs : list (list atom * str)) :
  1 <= n -> fs <> [] -> Forall (fun fa => List.length (fst fa) = n /\ labels_ok (fst fa) /\ title_converts' (snd fa) = true) fs ->
  exists l x, write_frames fs = l ++ [x] /\ is_blank x = false.
Proof.
  intros Hn Hne HF. induction fs as [|[atoms title] fs IH]; [congruence|].
  inversion HF as [|? ? [H1 [H2 H4]] H3]; subst. cbn [fst] in *.
  destruct fs as [|f2 fs].
  - unfold write_frames. cbn [map List.concat]. rewrite app_nil_r. unfold write_frame. cbn [fst snd].
    destruct (exists_last (l:=atoms)) as [l' [a Ha]]; [destruct atoms; [cbn in Hn; lia|discriminate]|].
    subst atoms. rewrite map_app. cbn [map].
    exists (LTok [TInt (Z.of_nat (List.length (l' ++ [a])))] :: LTitle title :: map write_atom l'), (write_atom a).
    split; [reflexivity|reflexivity].
  - destruct (IH ltac:(discriminate) H3) as [l [x [E Hx]]].
    exists (write_frame atoms title ++ l), x. split; [|exact Hx].
    unfold write_frames in *. cbn [map List.concat fst snd] in *. rewrite E. rewrite app_assoc. reflexivity.
Qed.

Lemma xyz_multi n (fs : list (list atom * str)) :
  1 <= n -> fs <> [] -> Forall (fun fa => List.length (fst fa) = n /\ labels_ok (fst fa) /\ title_converts' (snd fa) = true) fs ->
  read_molecules' (write_frames fs) = Ok (map frame_of fs).
Proof.
  intros Hn Hne HF. unfold read_molecules.
  destruct (write_frames_last n fs Hn Hne HF) as [l [x [E Hx]]].
  rewrite E, (strip_blank_keep l x Hx), <- E.
  destruct fs as [|[atoms title] fs']; [congruence|].
  assert (Hl : List.length atoms = n) by (inversion HF as [|? ? [H1 _] _]; exact H1).
  assert (Hw : write_frames ((atoms, title) :: fs') =
               LTok [TInt (Z.of_nat (List.length atoms))] :: LTitle title ::
               (map write_atom atoms ++ write_frames fs')) by reflexivity.
  rewrite Hw. cbv beta iota. rewrite <- Hw.
  replace (Z.of_nat (List.length atoms) <=? 0)%Z with false by (symmetry; apply Z.leb_gt; lia).
  rewrite Nat2Z.id, Hl. apply read_frames_written; [exact Hn| |exact HF].
  generalize ((atoms, title) :: fs'). clear. intros l.
  unfold write_frames. induction l as [|[a t] l IH]; [cbn; lia|].
  cbn [map List.concat List.length fst snd]. rewrite app_length. unfold write_frame at 1. cbn [List.length]. lia.
Qed.

(* --- what the single-frame reader accepts / rejects --- *)
Lemma parse_atoms_length (ls : list xline) atoms :
  parse_atoms valid_sym ls = Ok atoms -> List.length atoms = List.length ls.
Proof.
  revert atoms. induction ls as [|l ls IH]; intros atoms H; cbn in H.
  - injection H as <-. reflexivity.
  - destruct (parse_atom valid_sym l); try discriminate.
    destruct (parse_atoms valid_sym ls); try discriminate. injection H as <-.
    cbn. f_equal. apply IH. reflexivity.
Qed.
Lemma read_atoms_sound (ls : list xline) atoms :
  read_atoms valid_sym ls = Ok atoms ->
  exists z rest, ls = LTok [TInt z] :: rest /\ (0 < z)%Z /\ List.length atoms = Z.to_nat z /\
                 Z.to_nat z <= List.length (tl rest) /\
                 parse_atoms valid_sym (firstn (Z.to_nat z) (tl rest)) = Ok atoms.
Proof.
  unfold read_atoms. destruct ls as [|l rest]; [discriminate|].
  destruct l as [ts|s]; [|discriminate]. destruct ts as [|t ts]; [discriminate|].
  destruct t as [z| |]; try discriminate. destruct ts; [|discriminate].
  destruct (parse_atoms valid_sym (firstn (Z.to_nat z) (tl rest))) as [a| | | |] eqn:E; try discriminate.
  destruct (z <? 0)%Z eqn:E1; [discriminate|].
  destruct (List.length a =? Z.to_nat z) eqn:E2; [|discriminate]. cbn [negb].
  destruct (z =? 0)%Z eqn:E3; [discriminate|]. intros H. injection H as <-.
  apply Z.ltb_ge in E1. apply Z.eqb_neq in E3. apply Nat.eqb_eq in E2.
  exists z, rest. repeat split; try assumption; try lia.
  pose proof (parse_atoms_length _ _ E) as HL. rewrite firstn_length in HL. lia.
Qed.
Lemma parse_atom_cases l : (exists a, parse_atom valid_sym l = Ok a) \/ parse_atom valid_sym l = ErrFormat.
Proof.
  destruct l as [ts|s]; [|right; reflexivity].
  destruct ts as [|t [|a [|b [|c r]]]]; try (right; reflexivity).
  cbn [parse_atom]. destruct (tok_label_ok valid_sym t); [|right; reflexivity].
  destruct t; try (right; reflexivity).
  destruct (tok_num a), (tok_num b), (tok_num c); try (right; reflexivity).
  left. eexists. reflexivity.
Qed.
Lemma parse_atoms_cases (ls : list xline) :
  (exists a, parse_atoms valid_sym ls = Ok a) \/ parse_atoms valid_sym ls = ErrFormat.
Proof.
  induction ls as [|l ls IH]; [left; eexists; reflexivity|].
  cbn [parse_atoms]. destruct (parse_atom_cases l) as [[a Ha]|Ha]; rewrite Ha; [|right; reflexivity].
  destruct IH as [[t Ht]|Ht]; rewrite Ht; [left; eexists; reflexivity|right; reflexivity].
Qed.
(* every file is either accepted or rejected with the documented format error *)
Lemma read_atoms_documented (ls : list xline) :
  (exists a, read_atoms valid_sym ls = Ok a) \/ read_atoms valid_sym ls = ErrFormat.
Proof.
  unfold read_atoms. destruct ls as [|l rest]; [right; reflexivity|].
  destruct l as [ts|s]; [|right; reflexivity]. destruct ts as [|t ts]; [right; reflexivity|].
  destruct t as [z| |]; try (right; reflexivity). destruct ts; [|right; reflexivity].
  destruct (parse_atoms_cases (firstn (Z.to_nat z) (tl rest))) as [[a Ha]|Ha]; rewrite Ha; [|right; reflexivity].
  destruct (z <? 0)%Z; [right; reflexivity|]. destruct (negb _); [right; reflexivity|].
  destruct (z =? 0)%Z; [right; reflexivity|left; eexists; reflexivity].
Qed.

(* --- the multi-frame reader (after commit 432035c) --- *)
Lemma Forall_skipn {T} (P : T -> Prop) (l : list T) k : Forall P l -> Forall P (skipn k l).
Proof.
  intros H. rewrite Forall_forall in *. intros x Hx. apply H.
  rewrite <- (firstn_skipn k l). apply in_or_app. right. exact Hx.
Qed.
Definition titles_solvent_ok (ls : list xline) : Prop := Forall (fun l => title_solvent_ok' (title_text l) = true) ls.
(* a file whose titles name only known solvents is accepted or rejected with the documented format error *)
Lemma read_frames_documented n : forall fuel ls, titles_solvent_ok ls ->
  (exists f, read_frames' fuel n ls = Ok f) \/ read_frames' fuel n ls = ErrFormat.
Proof.
  induction fuel as [|f IH]; intros ls HT; [left; eexists; reflexivity|].
  cbn [read_frames]. destruct ls as [|l0 rest0]; [left; eexists; reflexivity|].
  destruct (negb _ || _); [right; reflexivity|].
  destruct (parse_atoms_cases (firstn n (skipn 1 rest0))) as [[a Ha]|Ha]; rewrite Ha; [|right; reflexivity].
  assert (HT0 : titles_solvent_ok rest0) by (inversion HT; assumption).
  assert (Hh : title_solvent_ok' (title_text (hd (LTok []) rest0)) = true).
  { destruct rest0 as [|t r]; [reflexivity|]. inversion HT0; assumption. }
  rewrite Hh. cbn [negb].
  destruct (negb (title_values_ok' _)); [right; reflexivity|].
  destruct (IH (skipn n (skipn 1 rest0))) as [[fr Hf]|Hf]; [apply Forall_skipn, Forall_skipn; exact HT0| |];
    rewrite Hf; [left; eexists; reflexivity|right; reflexivity].
Qed.
(* without that premise the only other outcome is SolventNotFound for an unknown solvent name *)
Lemma read_frames_cases n : forall fuel ls,
  (exists f, read_frames' fuel n ls = Ok f) \/ read_frames' fuel n ls = ErrFormat \/ read_frames' fuel n ls = ErrOther.
Proof.
  induction fuel as [|f IH]; intros ls; [left; eexists; reflexivity|].
  cbn [read_frames]. destruct ls as [|l0 rest0]; [left; eexists; reflexivity|].
  destruct (negb _ || _); [right; left; reflexivity|].
  destruct (parse_atoms_cases (firstn n (skipn 1 rest0))) as [[a Ha]|Ha]; rewrite Ha; [|right; left; reflexivity].
  destruct (negb (title_solvent_ok' _)); [right; right; reflexivity|].
  destruct (negb (title_values_ok' _)); [right; left; reflexivity|].
  destruct (IH (skipn n (skipn 1 rest0))) as [[fr Hf]|[Hf|Hf]]; rewrite Hf;
    [left; eexists; reflexivity|right; left; reflexivity|right; right; reflexivity].
Qed.
(* every accepted frame has exactly the declared number of atoms: no truncated frame is accepted *)
Lemma read_frames_sound n : forall fuel ls frs,
  read_frames' fuel n ls = Ok frs ->
  Forall (fun fr => List.length (f_atoms fr) = n /\ 1 <= n) frs.
Proof.
  induction fuel as [|f IH]; intros ls frs H; cbn [read_frames] in H.
  - injection H as <-. constructor.
  - destruct ls as [|l0 rest0]; [injection H as <-; constructor|].
    destruct (negb (List.length (firstn n (skipn 1 rest0)) =? n) || (n =? 0)) eqn:E; [discriminate|].
    apply orb_false_iff in E as [E1 E2]. apply negb_false_iff in E1. apply Nat.eqb_eq in E1. apply Nat.eqb_neq in E2.
    destruct (parse_atoms valid_sym (firstn n (skipn 1 rest0))) as [a| | | |] eqn:Ea; try discriminate.
    destruct (negb (title_solvent_ok' _)); [discriminate|].
    destruct (negb (title_values_ok' _)); [discriminate|].
    destruct (read_frames' f n (skipn n (skipn 1 rest0))) as [fr| | | |] eqn:Ef; try discriminate.
    injection H as <-. constructor; [|apply (IH _ _ Ef)].
    cbn [f_atoms]. split; [|lia]. rewrite (parse_atoms_length _ _ Ea). exact E1.
Qed.
End X.
