(* C18/Model.v — executable models of the output-file layouts autodE parses and of the parsers'
   reassembly rules (definitions only).  Lines are modelled after Python's `line.split()`:
   a line is the list of its whitespace-separated fields; a numeric block is a list of lines.
   The element type A is arbitrary (Qc in the correspondence check), so every theorem of
   Lemmas.v / Props.v holds for every matrix size and every value.

   Source anchors (autodE 1.4.4, /repo):
     ORCA.py:406-462    hessian_from      (.hess column blocks of 5, `hessian[i % 3N] += block`)
     QChem.py:334-378   _extract_mass_weighted_hessian (column blocks of 6, `hess[j] += ...`)
     NWChem.py:382-450  hessian_from      (lower-triangular column blocks of 10, indexed rows)
     G09.py:611-678     hessian_from      (flat lower triangle) ; geom.py:275-314 symm_matrix_from_ltril
     */gradient_from, coordinates_from    (per-atom tables, last occurrence wins)
     input_output.py:16-205, utils.py:697-745 (xyz files, StringDict title line; as repaired by
     commits 110cba0, 432035c, 1120b15)                                                    *)
From Coq Require Import List Arith Lia Bool ZArith.
Import ListNotations.

(* result of a parser: the documented error classes are explicit constructors *)
Inductive res (T : Type) : Type :=
| Ok (x : T)
| ErrProperty          (* autode.exceptions.CouldNotGetProperty / AtomsNotFound / NoCalculationOutput *)
| ErrShape             (* ValueError / IndexError raised by the shape checks (numpy, Species setters) *)
| ErrFormat            (* autode.exceptions.XYZfileWrongFormat *)
| ErrOther.            (* any other exception escaping (AssertionError, bare ValueError/IndexError
                          of the multi-frame xyz reader ...): NOT a documented error *)
Arguments Ok {T} x. Arguments ErrProperty {T}. Arguments ErrShape {T}. Arguments ErrFormat {T}.
Arguments ErrOther {T}.

Section Layouts.
Variable A : Type.
Local Notation row := (list A).
Local Notation matrix := (list (list A)).

Definition rect (n : nat) (M : matrix) : Prop := Forall (fun r => length r = n) M.
Definition rectb (n : nat) (M : matrix) : bool := forallb (fun r => length r =? n) M.
Definition width (M : matrix) : nat := match M with [] => 0 | r :: _ => length r end.
Definition is_nil (r : row) : bool := match r with [] => true | _ => false end.
Definition all_nil (M : matrix) : bool := forallb is_nil M.

(* rows appended pairwise:  for j, l in enumerate(block): hess[j] += l *)
Fixpoint zip_app (a b : matrix) : matrix :=
  match a, b with
  | x :: a', y :: b' => (x ++ y) :: zip_app a' b'
  | _, [] => a
  | [], _ => []
  end.

(* ---------------------------------------------------------------- column-block wrapping --- *)
(* `blocks w M`: the matrix cut into column blocks of (at most) w columns, every block listing
   all rows (ORCA .hess w=5, Q-Chem w=6).  Fuel = number of columns (each step removes >= 1). *)
Fixpoint blocks_f (fuel w : nat) (M : matrix) : list matrix :=
  match fuel with
  | 0 => []
  | S f => if all_nil M then [] else map (firstn w) M :: blocks_f f w (map (skipn w) M)
  end.
Definition blocks (w : nat) (M : matrix) : list matrix := blocks_f (width M) w M.

(* the obvious inverse: glue the blocks side by side (R = number of rows) *)
Fixpoint unblocks (R : nat) (bs : list matrix) : matrix :=
  match bs with
  | [] => repeat [] R
  | b :: r => zip_app b (unblocks R r)
  end.

(* ---------------------------------------------------------------- ORCA .hess ------------- *)
(* A block is printed as a header line with one column number per column followed by one data
   line per row: row number, then the values.  Only the NUMBER of fields of header lines and
   the tail of data lines matter to the parser, so one arbitrary token `hdr` stands for every
   column/row number. *)
Variable hdr : A.
Definition orca_block_lines (b : matrix) : list row := repeat hdr (width b) :: map (cons hdr) b.
Definition orca_lines (w : nat) (M : matrix) : list row := concat (map orca_block_lines (blocks w M)).

(* ORCA.py:436-449.  `prev` = number of fields of the previous line (file_lines[start+j-1]).
     if len(h_line.split()) == 0: break
     if len(h_line.split()) < len(previous.split()): continue
     hessian_blocks.append([float(v) for v in h_line.split()[1:]])                           *)
Fixpoint orca_collect (prev : nat) (ls : list row) : list row :=
  match ls with
  | [] => []
  | l :: r =>
      if length l =? 0 then []
      else if length l <? prev then orca_collect (length l) r
      else tl l :: orca_collect (length l) r
  end.

Fixpoint upd (l : matrix) (k : nat) (v : row) : matrix :=
  match l, k with
  | [], _ => []
  | x :: r, 0 => (x ++ v) :: r
  | x :: r, S k' => x :: upd r k' v
  end.
(* ORCA.py:451-455:  hessian = blocks[:3N];  for i, block in enumerate(blocks[3N:]):
                                                 hessian[i % (3N)] += block                  *)
Fixpoint accum (R : nat) (acc : matrix) (i : nat) (rows : list row) : matrix :=
  match rows with
  | [] => acc
  | r :: rs => accum R (upd acc (i mod R) r) (S i) rs
  end.
Definition orca_assemble (R : nat) (rows : list row) : matrix :=
  accum R (firstn R rows) 0 (skipn R rows).
(* the whole parser on the lines that follow `$hessian` / dimension line; start_line = header+1.
   np.array(ragged) raises ValueError, the Species setter rejects a non 3Nx3N shape *)
Definition orca_parse (R : nat) (ls : list row) : res matrix :=
  match ls with
  | [] => ErrShape
  | h :: rest =>
      let M := orca_assemble R (orca_collect (length h) rest) in
      if (length M =? R) && rectb R M then Ok M else ErrShape
  end.

(* ORCA.py:436-437 (commit d8ad5dc):
     if not any(ln.startswith("$end") for ln in file_lines[start_line:]): raise CouldNotGetProperty
   `is_end` recognises such a line (an oracle on lines: it is text, not a number); the test runs over the
   lines from the first data line on (`rest`), before anything is parsed. *)
Variable is_end : list A -> bool.
Definition orca_hess_file (R : nat) (ls : list row) : res matrix :=
  match ls with
  | [] => ErrProperty                      (* nothing after the dimension line: any([]) is False *)
  | h :: rest => if existsb is_end rest then orca_parse R ls else ErrProperty
  end.

(* ---------------------------------------------------------------- Q-Chem ----------------- *)
(* Blocks of 6 columns, no row/column numbers, blocks separated by two lines (blank).
   QChem.py:348-378 *)
Definition qchem_lines (w : nat) (M : matrix) : list row :=
  concat (map (fun b => b ++ [[]; []]) (blocks w M)).

Definition correct_shape (R : nat) (h : matrix) : bool := (length h =? R) && rectb R h.

(*  hess = lines[start:start+R]
    while not correct_shape(hess):
        start = end + 2 ; end = start + R ; slice = lines[start:end]
        if len(slice) == 0: raise AssertionError  -> CouldNotGetProperty
        for j, l in enumerate(slice): hess[j] += floats(l)      (IndexError if j >= len(hess)) *)
Fixpoint qchem_loop (fuel R : nat) (hess : matrix) (rest : list row) : res matrix :=
  match fuel with
  | 0 => ErrProperty
  | S f =>
      if correct_shape R hess then Ok hess
      else
        let sl := firstn R (skipn 2 rest) in
        match sl with
        | [] => ErrProperty
        | _ => if length hess <? length sl then ErrShape
               else qchem_loop f R (zip_app hess sl) (skipn R (skipn 2 rest))
        end
  end.
Definition qchem_parse (R : nat) (ls : list row) : res matrix :=
  qchem_loop (S (length ls)) R (firstn R ls) (skipn R ls).

(* ---------------------------------------------------------------- NWChem ----------------- *)
(* Lower triangle in column blocks of 10; each data line carries its (1-based) row number:
   NWChem.py:419-436   hess_lines[int(idx) - 1] += values   (bad index -> CouldNotGetProperty) *)
Definition iline := (nat * row)%type.
Fixpoint acc_idx (acc : matrix) (ls : list iline) : res matrix :=
  match ls with
  | [] => Ok acc
  | (i, v) :: r => if i <? length acc then acc_idx (upd acc i v) r else ErrProperty
  end.
(* block c of a ragged row list: for every row that still has entries beyond column c*w, the
   line (row index, next <= w entries) *)
Fixpoint idx_block (w : nat) (i : nat) (T : matrix) : list iline :=
  match T with
  | [] => []
  | r :: T' => match r with
               | [] => idx_block w (S i) T'
               | _ => (i, firstn w r) :: idx_block w (S i) T'
               end
  end.
Fixpoint idx_blocks_f (fuel w : nat) (T : matrix) : list iline :=
  match fuel with
  | 0 => []
  | S f => if all_nil T then [] else idx_block w 0 T ++ idx_blocks_f f w (map (skipn w) T)
  end.
Definition maxlen (T : matrix) : nat := fold_right (fun r m => Nat.max (length r) m) 0 T.
Definition idx_blocks (w : nat) (T : matrix) : list iline := idx_blocks_f (maxlen T) w T.
Definition nwchem_rows (R : nat) (ls : list iline) : res matrix := acc_idx (repeat [] R) ls.

(* ---------------------------------------------------------------- lower triangle ---------- *)
(* geom.py:275-314 symm_matrix_from_ltril; G09 prints the flat lower triangle, NWChem's
   indexed rows are flattened first (geom.py:292-294). *)
Definition ltril (M : matrix) : list A :=
  concat (map (fun ir => firstn (S (fst ir)) (snd ir)) (combine (seq 0 (length M)) M)).

(* exact size recovery: n with n(n+1)/2 = L, by integer square root *)
Definition tri_n (L : nat) : nat := (Nat.sqrt (8 * L + 1) - 1) / 2.
Definition tri (n : nat) : nat := n * (n + 1) / 2.

(* rows 1, 2, ..., n cut from the flat list *)
Fixpoint tri_rows (k n : nat) (l : list A) : matrix :=
  match n with
  | 0 => []
  | S n' => firstn k l :: tri_rows (S k) n' (skipn k l)
  end.
Variable zero : A.
Definition sym_entry (T : matrix) (i j : nat) : A :=
  if j <=? i then nth j (nth i T []) zero else nth i (nth j T []) zero.
Definition sym_of_rows (n : nat) (T : matrix) : matrix :=
  map (fun i => map (sym_entry T i) (seq 0 n)) (seq 0 n).
(* numpy: matrix[np.tril_indices(n)] = array raises ValueError unless len(array) = n(n+1)/2 *)
Definition symm_from_ltril (l : list A) : res matrix :=
  let n := tri_n (length l) in
  if tri n =? length l then Ok (sym_of_rows n (tri_rows 1 n l)) else ErrShape.
(* G09.py:666-678: the count is checked against 3N first (CouldNotGetProperty) *)
Definition g09_hessian (R : nat) (l : list A) : res matrix :=
  if length l =? tri R then symm_from_ltril l else ErrProperty.
(* NWChem.py:438-450: flatten the indexed rows, then the same routine; the un-mass-weighting
   by a 3N x 3N array rejects any other size (numpy broadcast ValueError) *)
Definition nwchem_hessian (R : nat) (ls : list iline) : res matrix :=
  match nwchem_rows R ls with
  | Ok T => match symm_from_ltril (concat T) with
            | Ok M => if length M =? R then Ok M else ErrShape
            | e => e
            end
  | e => e
  end.
Definition lower_rows (M : matrix) : matrix :=
  map (fun ir => firstn (S (fst ir)) (snd ir)) (combine (seq 0 (length M)) M).

(* ---------------------------------------------------------------- per-atom tables --------- *)
(* every wrapper: a marker line, then n lines of which the last k fields are the values;
   `lines[first:last]` silently yields fewer lines at the end of a truncated file; for gradients
   the Species.gradient setter then rejects the shape (ValueError = ErrShape, the case modelled
   here and tied by Corr.check_table).  NOT modelled: a short coordinates table reaches
   Atoms.coordinates and raises a bare AssertionError (known finding), a short charge table is
   swallowed by set_properties (executors.py:169-174) and the charges stay unset. *)
Definition table_parse (n skip : nat) (after_marker : list row) : res matrix :=
  let t := firstn n (skipn skip after_marker) in
  if length t =? n then Ok t else ErrShape.

(* "last occurrence wins" : the value list is reset at every marker (ORCA.py:356-374 etc.) *)
Fixpoint last_step {T : Type} (default : T) (steps : list T) : T :=
  match steps with
  | [] => default
  | s :: r => last_step s r
  end.
(* the loop as written: scan all lines, at a marker replace the accumulated value *)
Inductive oline : Type := Marker (payload : matrix) | Other.
Fixpoint scan (cur : matrix) (ls : list oline) : matrix :=
  match ls with
  | [] => cur
  | Marker p :: r => scan p r
  | Other :: r => scan cur r
  end.
Fixpoint markers (ls : list oline) : list matrix :=
  match ls with
  | [] => []
  | Marker p :: r => p :: markers r
  | Other :: r => markers r
  end.
End Layouts.

Arguments zip_app {A}. Arguments blocks {A}. Arguments blocks_f {A}. Arguments unblocks {A}.
Arguments orca_lines {A}. Arguments orca_collect {A}. Arguments orca_assemble {A}.
Arguments orca_parse {A}. Arguments orca_hess_file {A}. Arguments orca_block_lines {A}. Arguments accum {A}. Arguments upd {A}.
Arguments qchem_lines {A}. Arguments qchem_parse {A}. Arguments qchem_loop {A}.
Arguments correct_shape {A}. Arguments rect {A}. Arguments rectb {A}. Arguments width {A}.
Arguments all_nil {A}. Arguments is_nil {A}.
Arguments acc_idx {A}. Arguments idx_block {A}. Arguments idx_blocks {A}. Arguments idx_blocks_f {A}.
Arguments maxlen {A}. Arguments nwchem_rows {A}. Arguments ltril {A}. Arguments tri_rows {A}.
Arguments sym_entry {A}. Arguments sym_of_rows {A}. Arguments symm_from_ltril {A}.
Arguments g09_hessian {A}. Arguments nwchem_hessian {A}. Arguments lower_rows {A}.
Arguments table_parse {A}. Arguments scan {A}. Arguments markers {A}. Arguments Marker {A}.
Arguments Other {A}.

(* ============================================================================ xyz files === *)
From Coq Require Import Ascii String QArith.
Local Open Scope list_scope.
Local Open Scope nat_scope.

Definition str := list ascii.
Definition s_ (s : string) : str := list_ascii_of_string s.

(* ---------------------------------------------------------------- StringDict -------------- *)
(* utils.py:697-745 (after commit 1120b15 "StringDict matches whole keys only"):
     re.search(rf"(?:^|\s){re.escape(item)}{re.escape(delim)}(\S+)", self._string)
   the value of the FIRST position at which "key = " starts the string or follows a whitespace
   character and is followed by at least one non-blank character; the value is the maximal run
   of non-blank characters.  __contains__ = a match exists; __getitem__ without a match raises
   IndexError. *)
Fixpoint prefixb (p s : str) : bool :=
  match p, s with
  | [], _ => true
  | a :: p', b :: s' => Ascii.eqb a b && prefixb p' s'
  | _ :: _, [] => false
  end.
(* Python \s / str.isspace (ASCII range): \t \n \v \f \r, FS GS RS US, blank *)
Definition is_ws (c : ascii) : bool :=
  let n := nat_of_ascii c in ((9 <=? n) && (n <=? 13)) || ((28 <=? n) && (n <=? 32)).
Fixpoint take_tok (s : str) : str :=                     (* \S+ : maximal non-blank prefix *)
  match s with [] => [] | c :: r => if is_ws c then [] else c :: take_tok r end.
Definition value_starts (t : str) : bool := match t with [] => false | x :: _ => negb (is_ws x) end.
Definition hit (sep : str) (b : bool) (s : str) : bool :=
  b && prefixb sep s && value_starts (skipn (List.length sep) s).
(* b = "the previous character is whitespace or this is the start of the string" *)
Fixpoint sd_find (sep : str) (b : bool) (s : str) : option str :=
  match s with
  | [] => None
  | c :: s' => if hit sep b s then Some (take_tok (skipn (List.length sep) s))
               else sd_find sep (is_ws c) s'
  end.
Definition delim : str := s_ " = ".
Definition sd_get (key s : str) : option str := sd_find (key ++ delim) true s.   (* None = IndexError / default *)
Definition sd_contains (key s : str) : bool := match sd_get key s with Some _ => true | None => false end.
(* decidable side condition of the lookup theorem: no match starts at an offset < k *)
Fixpoint no_hit (sep : str) (b : bool) (s : str) (k : nat) {struct k} : bool :=
  match k with
  | 0 => true
  | S k' => match s with
            | [] => true
            | c :: s' => negb (hit sep b s) && no_hit sep (is_ws c) s' k'
            end
  end.
Fixpoint flag_after (b : bool) (pre : str) : bool :=
  match pre with [] => b | c :: r => flag_after (is_ws c) r end.
Definition is_token (v : str) : bool :=
  match v with [] => false | _ => forallb (fun c => negb (is_ws c)) v end.
Definition rest_ok (rest : str) : bool := match rest with [] => true | c :: _ => is_ws c end.
Definition lookup_ok (key pre v rest : str) : bool :=
  let sep := key ++ delim in
  is_token v && rest_ok rest && flag_after true pre &&
  no_hit sep true (pre ++ sep ++ v ++ rest) (List.length pre).

(* ---------------------------------------------------------------- fixed-point numbers ----- *)
(* f"{x:10.5f}" / f"{E:.6f}": the decimal is the round-half-even of x*10^d (Python formats the
   exact binary value).  A printed number is modelled by that integer count of 10^-d units. *)
Definition rnd (n : Z) (d : positive) : Z :=
  let fl := (n / Zpos d)%Z in let r := (n mod Zpos d)%Z in
  if (2 * r <? Zpos d)%Z then fl
  else if (Zpos d <? 2 * r)%Z then (fl + 1)%Z
  else if Z.even fl then fl else (fl + 1)%Z.
Definition fix_of (digits : nat) (x : Q) : Z :=
  let y := Qmult x (inject_Z (10 ^ Z.of_nat digits)) in rnd (Qnum y) (Qden y).
Definition q_of_fix (digits : nat) (z : Z) : Q := Qmake z (Z.to_pos (10 ^ Z.of_nat digits)).

(* ---------------------------------------------------------------- xyz lines --------------- *)
Inductive tok : Type :=
| TInt (z : Z)                 (* an integer literal *)
| TFix (digits : nat) (z : Z)  (* a decimal literal z * 10^-digits *)
| TSym (s : str)               (* a word that is no number *)
.
Inductive xline : Type :=
| LTok (ts : list tok)         (* line.split() *)
| LTitle (s : str).            (* raw text of a title line *)
Record atom : Type := mkAtom { lbl : str; ax : Q; ay : Q; az : Q }.
Record ratom : Type := mkRAtom { rlbl : str; rx : Z; ry : Z; rz : Z }.   (* 1e-5 units *)

(* input_output.py:67-98 atoms_to_xyz_file: count, title, then "{label:<3} {x:10.5f} ..." *)
Definition write_atom (a : atom) : xline :=
  LTok [TSym (lbl a); TFix 5 (fix_of 5 (ax a)); TFix 5 (fix_of 5 (ay a)); TFix 5 (fix_of 5 (az a))].
Definition write_frame (atoms : list atom) (title : str) : list xline :=
  LTok [TInt (Z.of_nat (List.length atoms))] :: LTitle title :: map write_atom atoms.
Definition round_atom (a : atom) : ratom :=
  mkRAtom (lbl a) (fix_of 5 (ax a)) (fix_of 5 (ay a)) (fix_of 5 (az a)).

(* float(token) as a count of 1e-5 units (only what the writer can produce is exact here) *)
Definition tok_num (t : tok) : option Z :=
  match t with
  | TInt z => Some (z * 100000)%Z
  | TFix 5 z => Some z
  | TFix d z => if d <? 5 then Some (z * 10 ^ Z.of_nat (5 - d))%Z else None
                               (* more than 5 decimals: not representable in 1e-5 units; the
                                  correspondence check never produces such tokens *)
  | TSym _ => None
  end.
Section XYZ.
Variable valid_sym : str -> bool.      (* oracle: autode.atoms knows the element *)

(* input_output.py:45-52 / 139-147:  atom_label, x, y, z = line.split()[:4]; Atom(label, x, y, z)
   (IndexError, TypeError, ValueError, AssertionError) -> XYZfileWrongFormat  (commit 432035c:
   the unknown-element assertion of Atom() is caught as well) *)
Definition tok_label_ok (t : tok) : bool := match t with TSym s => valid_sym s | _ => false end.
Definition parse_atom (l : xline) : res ratom :=
  match l with
  | LTok (t :: a :: b :: c :: _) =>
      if tok_label_ok t then
        match t, tok_num a, tok_num b, tok_num c with
        | TSym s, Some x, Some y, Some z => Ok (mkRAtom s x y z)
        | _, _, _, _ => ErrFormat
        end
      else ErrFormat
  | LTok _ => ErrFormat                              (* fewer than 4 fields *)
  | LTitle _ => ErrFormat
  end.
Fixpoint parse_atoms (ls : list xline) : res (list ratom) :=
  match ls with
  | [] => Ok []
  | l :: r => match parse_atom l with
              | Ok a => match parse_atoms r with Ok t => Ok (a :: t) | e => e end
              | ErrFormat => ErrFormat | ErrOther => ErrOther
              | ErrProperty => ErrProperty | ErrShape => ErrShape
              end
  end.
(* input_output.py:16-64 xyz_file_to_atoms.  Line 0 must be exactly one integer; line 1 is
   skipped; lines 2..n+1 are atoms (reading stops at line n+2 or at the end of the file) *)
Definition read_atoms (ls : list xline) : res (list ratom) :=
  match ls with
  | [] => ErrFormat                                           (* "had no atoms" *)
  | LTok [TInt z] :: rest =>
      match parse_atoms (firstn (Z.to_nat z) (tl rest)) with
      | Ok atoms =>
          if (z <? 0)%Z then ErrFormat
          else if negb (List.length atoms =? Z.to_nat z) then ErrFormat
          else if (z =? 0)%Z then ErrFormat else Ok atoms
      | e => e
      end
  | _ :: _ => ErrFormat                                       (* "Number of atoms not found" *)
  end.

(* input_output.py:101-165 xyz_file_to_molecules (after commits 432035c, 6bad5d6) *)
Record frame : Type := mkFrame {
  f_atoms : list ratom; f_charge : option str; f_mult : option str;
  f_solvent : option str; f_energy : option str }.
Definition title_text (l : xline) : str := match l with LTitle s => s | LTok _ => [] end.
Variable solvent_key : str.     (* "solvent_name" (commit 110cba0) *)
(* oracles for the conversions applied to the title values (input_output.py:150-158, 187-205):
     Molecule(atoms, solvent_name=title.get(key)) -> get_solvent: an unknown name raises SolventNotFound
       (an AutodeException naming the problem; NOT the format error) - checked first;
     then species.charge = int(v), species.mult (int(v) > 0), species.energy = float(v) through
     _set_attr_from_title_line, which maps ValueError / TypeError to XYZfileWrongFormat (commit f5575d0)
     and ignores a missing key (IndexError). *)
Variables int_ok mult_ok float_ok solv_ok : str -> bool.
Definition conv_ok (ok : str -> bool) (v : option str) : bool := match v with Some x => ok x | None => true end.
Definition title_solvent_ok (tt : str) : bool := conv_ok solv_ok (sd_get solvent_key tt).
Definition title_values_ok (tt : str) : bool :=
  conv_ok int_ok (sd_get (s_ "charge") tt) && conv_ok mult_ok (sd_get (s_ "mult") tt) &&
  conv_ok float_ok (sd_get (s_ "E") tt).
Definition title_converts (tt : str) : bool := title_solvent_ok tt && title_values_ok tt.
Definition is_blank (l : xline) : bool :=            (* len(line.split()) == 0 *)
  match l with LTok [] => true | LTok _ => false | LTitle s => forallb is_ws s end.
(* while lines and not lines[-1].split(): lines.pop() *)
Fixpoint strip_blank (ls : list xline) : list xline :=
  match ls with
  | [] => []
  | l :: r => match strip_blank r with
              | [] => if is_blank l then [] else [l]
              | r' => l :: r'
              end
  end.
(*  for i in range(0, len(lines), n + 2):
        frame_lines = lines[i + 2 : i + n + 2]
        if len(frame_lines) != n or n == 0: raise XYZfileWrongFormat
        title = StringDict(lines[i + 1]); atoms from frame_lines (any bad line -> XYZfileWrongFormat) *)
Fixpoint read_frames (fuel n : nat) (ls : list xline) : res (list frame) :=
  match fuel with
  | 0 => Ok []
  | S f =>
      match ls with
      | [] => Ok []
      | _ :: rest0 =>
          let fl := firstn n (skipn 1 rest0) in
          if negb (List.length fl =? n) || (n =? 0) then ErrFormat
          else match parse_atoms fl with
               | Ok atoms =>
                   let tt := title_text (hd (LTok []) rest0) in
                   if negb (title_solvent_ok tt) then ErrOther
                   else if negb (title_values_ok tt) then ErrFormat else
                   let fr := mkFrame atoms (sd_get (s_ "charge") tt) (sd_get (s_ "mult") tt)
                                     (sd_get solvent_key tt) (sd_get (s_ "E") tt) in
                   match read_frames f n (skipn n (skipn 1 rest0)) with
                   | Ok frs => Ok (fr :: frs)
                   | e => e
                   end
               | _ => ErrFormat
               end
      end
  end.
Definition read_molecules (ls : list xline) : res (list frame) :=
  let ls' := strip_blank ls in
  match ls' with
  | [] => ErrFormat                                   (* "was empty" *)
  | LTok [TInt z] :: _ =>                             (* _n_atoms_from_first_xyz_line: int(line.strip()) *)
      if (z <=? 0)%Z then ErrFormat                   (* commit 6bad5d6: "had no atoms!" *)
      else read_frames (List.length ls') (Z.to_nat z) ls'
  | _ :: _ => ErrFormat                               (* "Number of atoms not found" *)
  end.
End XYZ.

(* species.py:1181-1190 default title line written by print_xyz_file *)
Definition title_of (pre c m : str) (solv : option str) (e : option str) : str :=
  pre ++ s_ "charge = " ++ c ++ s_ " mult = " ++ m ++ s_ " " ++
  match solv with Some s => s_ "solvent_name = " ++ s ++ s_ " " | None => [] end ++
  match e with Some x => s_ "E = " ++ x ++ s_ " Ha" | None => [] end.
