(* C18/Corr.v — helpers used only by the correspondence check (model vs implementation). *)
From Coq Require Import List Arith Lia Bool ZArith Ascii String QArith Qcanon.
From AV.lib Require Import QcInst.
From AV.C18 Require Import Model.
Import ListNotations.
Local Open Scope list_scope.
Local Open Scope nat_scope.

Definition bytes_of_codes (l : list nat) : str := map ascii_of_nat l.
Definition tol : Qc := qc 1 1000000000.      (* 1e-9 relative *)

Fixpoint list_eqb {T} (eqb : T -> T -> bool) (a b : list T) : bool :=
  match a, b with
  | [], [] => true
  | x :: a', y :: b' => eqb x y && list_eqb eqb a' b'
  | _, _ => false
  end.
Definition row_eqb := list_eqb Qc_eq_bool.
Definition mat_eqb := list_eqb row_eqb.
Definition iline_eqb (a b : nat * list Qc) : bool := (fst a =? fst b) && row_eqb (snd a) (snd b).
Definition str_eqb : str -> str -> bool := list_eqb Ascii.eqb.
Definition opt_eqb {T} (eqb : T -> T -> bool) (a b : option T) : bool :=
  match a, b with Some x, Some y => eqb x y | None, None => true | _, _ => false end.

(* implementation outcome classes: 0 ok, 1 CalculationException family (CouldNotGetProperty,
   AtomsNotFound...), 2 ValueError/IndexError (shape / conversion), 3 XYZfileWrongFormat,
   4 anything else *)
Definition res_mat (r : res (list (list Qc))) (cls : nat) (expect : list (list Qc)) : bool :=
  match r, cls with
  | Ok M, 0 => closeM tol M expect
  | ErrProperty, 1 => true
  | ErrShape, 2 => true
  | ErrFormat, 3 => true
  | ErrOther, 4 => true
  | _, _ => false
  end.
Definition z0 : Qc := Q2Qc 0.

(* ORCA .hess: `lines` are the split lines following the dimension line (column/row numbers
   replaced by 0); complete block = model layout, then parse with the code's rule *)
Definition check_orca_layout (w : nat) (M : list (list Qc)) (lines : list (list Qc)) : bool :=
  mat_eqb (orca_lines z0 w M) lines.
(* the .hess lines from the first column-number line on; a "$end" line is passed as the single token -1 *)
Definition end_tok : Qc := Q2Qc (-1 # 1).
Definition is_end_row (l : list Qc) : bool := match l with [x] => Qc_eq_bool x end_tok | _ => false end.
Definition check_orca_file (R : nat) (lines : list (list Qc)) (cls : nat) (impl : list (list Qc)) : bool :=
  res_mat (orca_hess_file is_end_row R lines) cls impl.

Definition strip2 {T} (l : list T) : list T := firstn (List.length l - 2) l.
Definition check_qchem_layout (w : nat) (M : list (list Qc)) (lines : list (list Qc)) : bool :=
  mat_eqb (strip2 (qchem_lines w M)) lines.
Definition check_qchem_parse (R : nat) (lines : list (list Qc)) (cls : nat) (impl : list (list Qc)) : bool :=
  res_mat (qchem_parse R lines) cls impl.

Definition check_nwchem_layout (w : nat) (M : list (list Qc)) (ls : list (nat * list Qc)) : bool :=
  list_eqb iline_eqb (idx_blocks w (lower_rows M)) ls.
Definition check_nwchem_parse (R : nat) (ls : list (nat * list Qc)) (cls : nat) (impl : list (list Qc)) : bool :=
  res_mat (nwchem_hessian z0 R ls) cls impl.

Definition check_g09_layout (M : list (list Qc)) (flat : list Qc) : bool := row_eqb (ltril M) flat.
Definition check_g09_parse (R : nat) (flat : list Qc) (cls : nat) (impl : list (list Qc)) : bool :=
  res_mat (g09_hessian z0 R flat) cls impl.
Definition check_tri_n (L n : nat) : bool := tri_n L =? n.
(* the same integer-square-root formula over Z, for counts too large for unary nat *)
Definition check_tri_nZ (L n : Z) : bool := ((Z.sqrt (8 * L + 1) - 1) / 2 =? n)%Z.

(* "last marker wins": the scanning loop on (marker block | other line) sequences *)
Inductive oln : Type := Mk (b : list (list Qc)) | Ot.
Definition to_oline (o : oln) : @oline Qc := match o with Mk b => Marker b | Ot => Other end.
Definition check_scan (ls : list oln) (impl : list (list Qc)) : bool :=
  closeM tol (scan [] (map to_oline ls)) impl.
(* per-atom table: n rows after `skip` lines *)
Definition check_table (n skip : nat) (after : list (list Qc)) (cls : nat) (impl : list (list Qc)) : bool :=
  res_mat (table_parse n skip after) cls impl.

(* StringDict *)
Definition check_sd (key title : str) (expect : option str) (contains : bool) : bool :=
  opt_eqb str_eqb (sd_get key title) expect && Bool.eqb (sd_contains key title) contains.
(* f"{x:.{d}f}" of the double n/d printed `z` units of 10^-digits *)
Definition check_fix (digits : nat) (n : Z) (d : positive) (z : Z) : bool := (fix_of digits (n # d) =? z)%Z.

(* the key the multi-frame reader looks up (taken from input_output.py by ast) is the key the
   writer emits (taken from species.py) and the one the theorems are stated for *)
Definition check_same_key (reader writer : str) : bool :=
  str_eqb reader writer && str_eqb reader (s_ "solvent_name").

(* xyz *)
Definition ratom_eqb (a b : ratom) : bool :=
  str_eqb (rlbl a) (rlbl b) && (rx a =? rx b)%Z && (ry a =? ry b)%Z && (rz a =? rz b)%Z.
Definition valid_in (elements : list str) (s : str) : bool := existsb (str_eqb s) elements.
Definition res_atoms (r : res (list ratom)) (cls : nat) (expect : list ratom) : bool :=
  match r, cls with
  | Ok a, 0 => list_eqb ratom_eqb a expect
  | ErrProperty, 1 => true | ErrShape, 2 => true | ErrFormat, 3 => true | ErrOther, 4 => true
  | _, _ => false
  end.
Definition check_read_atoms (elements : list str) (ls : list xline) (cls : nat) (expect : list ratom) : bool :=
  res_atoms (read_atoms (valid_in elements) ls) cls expect.
Definition frame_eqb (a b : frame) : bool :=
  list_eqb ratom_eqb (f_atoms a) (f_atoms b) && opt_eqb str_eqb (f_charge a) (f_charge b) &&
  opt_eqb str_eqb (f_mult a) (f_mult b) && opt_eqb str_eqb (f_solvent a) (f_solvent b) &&
  opt_eqb str_eqb (f_energy a) (f_energy b).
Definition check_read_molecules (elements : list str) (key : str) (ints mults floats solvs : list str)
           (ls : list xline) (cls : nat) (expect : list frame) : bool :=
  match read_molecules (valid_in elements) key (valid_in ints) (valid_in mults) (valid_in floats) (valid_in solvs) ls, cls with
  | Ok fs, 0 => list_eqb frame_eqb fs expect
  | ErrOther, 4 => true
  | ErrFormat, 3 => true
  | _, _ => false
  end.
(* the side condition of Props.xyz_title_lookup on a title the real writer produced *)
Definition lookup_all (t : str) (c m : str) (s e : option str) : bool :=
  opt_eqb str_eqb (sd_get (s_ "charge") t) (Some c) && opt_eqb str_eqb (sd_get (s_ "mult") t) (Some m) &&
  opt_eqb str_eqb (sd_get (s_ "solvent_name") t) s && opt_eqb str_eqb (sd_get (s_ "E") t) e.
