(* C18/Props.v — property theorems for "values read from program outputs and xyz files are the
   values in the file".  Each is closed by lemmas of Lemmas.v.  A is ANY value type, every
   statement holds for every matrix size / atom count / block width.

   Scope (partial, see harness/c18.py MANIFEST.level_note): the theorems cover the layouts'
   index arithmetic, reassembly rules, size recovery, last-step selection, truncation of the
   numeric blocks, the xyz line structure and the StringDict title lookup.  The per-program
   keyword / regex scanning that locates the blocks, float<->text conversion and unit factors
   are tied by the correspondence check only. *)
From Coq Require Import List Arith Lia Bool ZArith Ascii String QArith.
From AV.C18 Require Import Model Lemmas.
Import ListNotations.
Local Open Scope list_scope.
Local Open Scope nat_scope.

(* 1. Column-block wrapping is lossless for every row count, column count n and block width
      w >= 1, including w not dividing n and w > n ("sizes that wrap the column blocks"). *)
Theorem unblocks_blocks_id :
  forall (A : Type) (w n : nat) (M : list (list A)),
    1 <= w -> rect n M -> unblocks (List.length M) (blocks w M) = M.
Proof. intros A w n M Hw HR. apply (unblocks_blocks A w M n Hw HR). Qed.

(* wrapping really happens whenever w < n *)
Theorem blocks_wrap :
  forall (A : Type) (w n : nat) (M : list (list A)),
    1 <= w -> rect n M -> M <> [] -> w < n -> 2 <= List.length (blocks w M).
Proof.
  intros A w n M Hw HR Hne Hwn. unfold blocks. rewrite (rect_width A n M HR Hne).
  apply (blocks_f_two A n w M n); auto.
Qed.
Example blocks_wrap_example :
  blocks 5 [[1;2;3;4;5;6;7]; [8;9;10;11;12;13;14]] = [[[1;2;3;4;5]; [8;9;10;11;12]]; [[6;7]; [13;14]]]
  /\ unblocks 2 (blocks 5 [[1;2;3;4;5;6;7]; [8;9;10;11;12;13;14]]) = [[1;2;3;4;5;6;7]; [8;9;10;11;12;13;14]].
Proof. split; reflexivity. Qed.

(* 2. ORCA.py:436-455 — the code's own rule ("skip a line with fewer fields than the previous
      one", `hessian[i mod 3N] += block`, stop at the blank line) applied to the printed layout
      (header line with one field per column, data lines with one more field than their header)
      returns the matrix, for every size, every block width and any text after the block. *)
Theorem orca_code_reassembly :
  forall (A : Type) (hdr : A) (w : nat) (M : list (list A)) (h : list A) (rest X : list (list A)),
    1 <= w -> M <> [] -> rect (List.length M) M ->
    orca_lines hdr w M = h :: rest ->
    orca_parse (List.length M) (h :: rest ++ [] :: X) = Ok M.
Proof.
  intros A hdr w M h rest X Hw Hne HR HL. unfold orca_parse.
  assert (Hn : 1 <= List.length M) by (destruct M; [congruence|cbn; lia]).
  rewrite (orca_reassembly A hdr w M (List.length M) X h rest Hw Hn Hne HR HL).
  rewrite Nat.eqb_refl, (rectb_true A _ _ HR). reflexivity.
Qed.
(* non-square version of the same rule (rows R, columns n): the reassembly itself *)
Theorem orca_code_reassembly_rect :
  forall (A : Type) (hdr : A) (w n : nat) (M : list (list A)) (h : list A) (rest X : list (list A)),
    1 <= w -> 1 <= n -> M <> [] -> rect n M -> orca_lines hdr w M = h :: rest ->
    orca_assemble (List.length M) (orca_collect (List.length h) (rest ++ [] :: X)) = M.
Proof.
  intros A hdr w n M h rest X Hw Hn Hne HR HL.
  exact (orca_reassembly A hdr w M n X h rest Hw Hn Hne HR HL).
Qed.
Example orca_example :
  orca_parse 3 (orca_lines 0 2 [[1;2;3];[4;5;6];[7;8;9]] ++ [[]; [99; 98]]) = Ok [[1;2;3];[4;5;6];[7;8;9]].
Proof. reflexivity. Qed.

(* 3. QChem.py:348-378 — blocks of w columns separated by two lines, `hess[j] += ...` until the
      shape is 3N x 3N. *)
Theorem qchem_code_reassembly :
  forall (A : Type) (w : nat) (M : list (list A)) (tail : list (list A)),
    1 <= w -> M <> [] -> rect (List.length M) M ->
    qchem_parse (List.length M) (qchem_lines w M ++ tail) = Ok M.
Proof. intros. apply qchem_roundtrip; assumption. Qed.
Example qchem_example :
  qchem_parse 3 (qchem_lines 2 [[1;2;3];[4;5;6];[7;8;9]] ++ [[42]]) = Ok [[1;2;3];[4;5;6];[7;8;9]].
Proof. reflexivity. Qed.

(* 4. NWChem.py:419-450 — lower triangle in indexed column blocks, accumulated by row number,
      flattened and symmetrised. *)
Theorem nwchem_code_reassembly :
  forall (A : Type) (zero : A) (w : nat) (M : list (list A)),
    1 <= w -> rect (List.length M) M -> symmetric A zero (List.length M) M ->
    nwchem_hessian zero (List.length M) (idx_blocks w (lower_rows M)) = Ok M.
Proof. intros. apply nwchem_roundtrip; assumption. Qed.
(* the accumulation by row number recovers ANY ragged row list from its indexed blocks *)
Theorem nwchem_rows_id :
  forall (A : Type) (w : nat) (T : list (list A)),
    1 <= w -> nwchem_rows (List.length T) (idx_blocks w T) = Ok T.
Proof. intros. apply nwchem_rows_roundtrip; assumption. Qed.
Example nwchem_example :
  nwchem_hessian 0 3 (idx_blocks 2 (lower_rows [[1;2;3];[2;4;5];[3;5;6]])) = Ok [[1;2;3];[2;4;5];[3;5;6]]
  /\ idx_blocks 2 (lower_rows [[1;2;3];[2;4;5];[3;5;6]]) = [(0,[1]); (1,[2;4]); (2,[3;5]); (2,[6])].
Proof. split; reflexivity. Qed.

(* 5. Gaussian lower triangle: flattening and geom.symm_matrix_from_ltril are inverse on
      symmetric matrices of every size; the size is recovered exactly from the element count. *)
Theorem ltril_roundtrip_sym :
  forall (A : Type) (zero : A) (M : list (list A)),
    rect (List.length M) M -> symmetric A zero (List.length M) M ->
    symm_from_ltril zero (ltril M) = Ok M /\ g09_hessian zero (List.length M) (ltril M) = Ok M.
Proof. intros. split; [apply ltril_roundtrip|apply g09_roundtrip]; assumption. Qed.
Theorem ltril_size :
  (forall n, tri_n (tri n) = n) /\
  (forall (A : Type) (M : list (list A)), rect (List.length M) M -> List.length (ltril M) = tri (List.length M)) /\
  (forall (A : Type) (zero : A) (l : list A) (M : list (list A)),
      symm_from_ltril zero l = Ok M -> List.length l = tri (List.length M) /\ List.length M = tri_n (List.length l)) /\
  (forall a b, tri a = tri b -> a = b).
Proof.
  split; [exact tri_n_tri|]. split; [intros; apply ltril_length; assumption|].
  split; [intros A zero l M H; apply (symm_from_ltril_size A zero l M H)|exact tri_inj].
Qed.
(* The code computes n = int((sqrt(8L+1)-1)/2) in double precision.  For L = n(n+1)/2 the radicand
   is the perfect square (2n+1)^2; below 2^53 both it and its root are exactly representable and
   IEEE-754 sqrt is correctly rounded, so the float formula returns exactly n on this range
   (n < 47453132, i.e. far beyond any Hessian).  Outside the theorem: IEEE semantics itself. *)
Theorem ltril_float_formula_range :
  forall n : Z, (0 <= n)%Z ->
    (8 * (n * (n + 1) / 2) + 1 = (2 * n + 1) * (2 * n + 1))%Z /\
    ((8 * (n * (n + 1) / 2) + 1 < 2 ^ 53)%Z -> (2 * n + 1 < 2 ^ 27)%Z /\ (Z.sqrt (8 * (n * (n + 1) / 2) + 1) = 2 * n + 1)%Z
                                              /\ ((Z.sqrt (8 * (n * (n + 1) / 2) + 1) - 1) / 2 = n)%Z).
Proof.
  intros n Hn.
  assert (E : (n * (n + 1) / 2 * 2 = n * (n + 1))%Z).
  { destruct (Z.even n) eqn:Ev.
    - apply Zeven_bool_iff in Ev. destruct (Zeven_ex n Ev) as [k Hk]. subst n.
      replace (2 * k * (2 * k + 1))%Z with (k * (2 * k + 1) * 2)%Z by ring. rewrite Z.div_mul by lia. reflexivity.
    - assert (Od : Z.odd n = true) by (rewrite <- Z.negb_even, Ev; reflexivity).
      apply Zodd_bool_iff in Od. destruct (Zodd_ex n Od) as [k Hk]. subst n.
      replace ((2 * k + 1) * (2 * k + 1 + 1))%Z with ((2 * k + 1) * (k + 1) * 2)%Z by ring.
      rewrite Z.div_mul by lia. reflexivity. }
  assert (E2 : (8 * (n * (n + 1) / 2) + 1 = (2 * n + 1) * (2 * n + 1))%Z) by nia.
  split; [exact E2|]. intros Hlt. rewrite E2 in *.
  assert (Hs : (Z.sqrt ((2 * n + 1) * (2 * n + 1)) = 2 * n + 1)%Z) by (apply Z.sqrt_square; lia).
  split; [|split].
  - assert ((2 ^ 53 = 2 ^ 27 * 2 ^ 26)%Z) by reflexivity. nia.
  - exact Hs.
  - rewrite Hs. replace (2 * n + 1 - 1)%Z with (n * 2)%Z by ring. apply Z.div_mul. lia.
Qed.

(* 6. Multi-step outputs (PARTIAL): the scanning loop that resets its value at every marker returns
      the block of the LAST marker.  This is a statement about the loop shape `scan`; WHICH parsers
      have that shape is tied by Corr.check_scan on multi-step outputs (ORCA / G09 / NWChem / Q-Chem
      coordinates and gradients, ORCA charges).  It is NOT what every parser does: XTB takes the FIRST
      "final structure" block (XTB.py:283-292 `break`), MOPAC the FIRST "TOTAL ENERGY"/"ETOT" line
      (MOPAC.py:294-299), NWChem the FIRST Hessian block (NWChem.py:404-409 `next(...)`); real outputs
      of these programs print those once, multi-occurrence behaviour is only exercised by the streams. *)
Theorem last_step_used_partial :
  forall (A : Type) (cur : list (list A)) (ls : list (@oline A)),
    scan cur ls = last_step cur (markers ls) /\
    (forall steps s, last_step cur (steps ++ [s]) = s).
Proof.
  intros A cur ls. split.
  - revert cur. induction ls as [|[p|] ls IH]; intros cur; cbn; auto.
  - intros steps. revert cur. induction steps as [|x steps IH]; intros cur s; cbn; auto.
Qed.

(* 7. Truncation of the numeric blocks (line prefixes of the printed block):
      Q-Chem -> CouldNotGetProperty for every prefix lacking a data line; ORCA block rule -> either the
      complete matrix or a shape error, never another matrix; NWChem -> an accepted block has exactly
      3N(3N+1)/2 numbers and 3N rows; a short per-atom GRADIENT table (n >= 1) -> shape error (tied by
      Corr.check_table; short coordinate / charge tables are NOT covered: see Model.v table_parse).
      Not covered by any theorem: line truncation of a Gaussian archive entry (no terminating \\@ ->
      IndexError in the code; exercised by the synth-truncated stream only). *)
Theorem truncation_detected :
  (forall (A : Type) (w : nat) (M : list (list A)) (m : nat),
      1 <= w -> M <> [] -> rect (List.length M) M -> m + 2 < List.length (qchem_lines w M) ->
      qchem_parse (List.length M) (firstn m (qchem_lines w M)) = ErrProperty) /\
  (forall (A : Type) (hdr : A) (w : nat) (M : list (list A)) h rest (m : nat),
      1 <= w -> M <> [] -> rect (List.length M) M -> orca_lines hdr w M = h :: rest ->
      orca_parse (List.length M) (h :: firstn m rest) = Ok M \/
      orca_parse (List.length M) (h :: firstn m rest) = ErrShape) /\
  (forall (A : Type) (zero : A) (R : nat) (ls : list (nat * list A)) (M : list (list A)),
      nwchem_hessian zero R ls = Ok M -> List.length M = R /\ nvalues A ls = tri R) /\
  (forall (A : Type) (n skip : nat) (ls : list (list A)),
      1 <= n -> List.length ls < skip + n -> table_parse n skip ls = ErrShape).
Proof.
  split; [intros; apply qchem_truncation; assumption|].
  split; [intros; eapply orca_truncation; eassumption|].
  split; [intros A zero R ls M H; apply (nwchem_truncated A zero R ls M H)|].
  intros A n skip ls Hn H. unfold table_parse. rewrite firstn_length, skipn_length.
  replace (Nat.min n (List.length ls - skip) =? n) with false; [reflexivity|].
  symmetry. apply Nat.eqb_neq. lia.
Qed.
(* Gaussian: the element-count guard G09.py:666-671 (a list of the wrong length - e.g. the archive of a
   molecule with another atom count - is CouldNotGetProperty; what is accepted has exactly 3N(3N+1)/2
   numbers and 3N rows).  This is NOT a statement about truncated files. *)
Theorem g09_element_count_guard :
  (forall (A : Type) (zero : A) (R : nat) (l : list A),
      List.length l <> tri R -> g09_hessian zero R l = ErrProperty) /\
  (forall (A : Type) (zero : A) (R : nat) (l : list A) (M : list (list A)),
      g09_hessian zero R l = Ok M -> List.length l = tri R /\ List.length M = R).
Proof.
  split.
  - intros A zero R l H. unfold g09_hessian. replace (List.length l =? tri R) with false; [reflexivity|].
    symmetry. apply Nat.eqb_neq. exact H.
  - intros A zero R l M H. apply (g09_hessian_size A zero R l M H).
Qed.
(* ORCA .hess files (ORCA.py:436-437, commit d8ad5dc), `is_end` = "the line starts with $end":
   the complete file (block, blank line, further sections containing the $end line) gives the matrix;
   EVERY file that ends inside or right after the block (no block line is an $end line), whatever is
   cut - also in the middle of a number - is CouldNotGetProperty before anything is parsed. *)
Theorem orca_hess_end_test :
  forall (A : Type) (hdr : A) (is_end : list A -> bool) (w : nat) (M : list (list A)) h rest,
    orca_lines hdr w M = h :: rest ->
    (forall X, 1 <= w -> M <> [] -> rect (List.length M) M -> existsb is_end X = true ->
               orca_hess_file is_end (List.length M) (h :: rest ++ [] :: X) = Ok M) /\
    ((forall l, In l rest -> is_end l = false) ->
     forall m R, orca_hess_file is_end R (h :: firstn m rest) = ErrProperty).
Proof.
  intros A hdr is_end w M h rest HL. split.
  - intros X Hw Hne HR HX. apply (orca_hess_file_complete A hdr is_end w M h rest X Hw Hne HR HL HX).
  - intros HE m R. apply (orca_hess_file_truncated A hdr is_end w M h rest m R HL HE).
Qed.
Example orca_hess_end_example :
  let is_end := fun l => match l with [x] => x =? 999 | _ => false end in
  orca_hess_file is_end 3 (orca_lines 0 2 [[1;2;3];[4;5;6];[7;8;9]] ++ [[]; [5; 5]; [999]]) = Ok [[1;2;3];[4;5;6];[7;8;9]] /\
  orca_hess_file is_end 3 (firstn 9 (orca_lines 0 2 [[1;2;3];[4;5;6];[7;8;9]])) = ErrProperty.
Proof. split; reflexivity. Qed.
Example truncation_example :
  qchem_parse 3 (firstn 6 (qchem_lines 2 [[1;2;3];[4;5;6];[7;8;9]])) = ErrProperty /\
  orca_parse 3 (firstn 7 (orca_lines 0 2 [[1;2;3];[4;5;6];[7;8;9]])) = ErrShape.
Proof. split; reflexivity. Qed.

(* 8. xyz files.  Printed decimals are the round-half-even of x*10^d: within half a unit of the
      last place, exact for representable values. *)
Theorem fixed_point_rounding :
  (forall (n : Z) (d : positive), (Z.abs (2 * (rnd n d * Zpos d - n)) <= Zpos d)%Z) /\
  (forall (z : Z) (d : positive), rnd (z * Zpos d) d = z).
Proof. split; [exact rnd_close|exact rnd_exact]. Qed.

(* single- and multi-frame round trip of the line structure (count line, title line, atom lines
   in order, coordinates rounded to 5 decimals); the title attributes of each frame are the
   StringDict lookups on that frame's own title *)
Theorem xyz_roundtrip :
  forall (valid_sym : str -> bool) (solvent_key : str) (int_ok mult_ok float_ok solv_ok : str -> bool),
  (forall atoms title more, atoms <> [] -> labels_ok valid_sym atoms ->
      read_atoms valid_sym (write_frame atoms title ++ more) = Ok (map round_atom atoms)) /\
  (forall n (fs : list (list atom * str)), 1 <= n -> fs <> [] ->
      Forall (fun fa => List.length (fst fa) = n /\ labels_ok valid_sym (fst fa) /\
                        title_converts solvent_key int_ok mult_ok float_ok solv_ok (snd fa) = true) fs ->
      read_molecules valid_sym solvent_key int_ok mult_ok float_ok solv_ok (write_frames fs)
      = Ok (map (frame_of solvent_key) fs)).
Proof.
  intros v k i m f so. split; [intros; apply xyz_single; assumption|intros; eapply xyz_multi; eassumption].
Qed.

(* the default title written by Species.print_xyz_file (species.py:1181-1190) and the lookups:
   each attribute is found when no earlier whole-key match exists and the value is a single
   token (decidable condition title_ok; it fails e.g. for solvent names with a blank).
   NOTE (partial): title_ok is the search condition itself ("no match before this occurrence"); it is
   not PROVED to hold for every title the writer can emit - it is evaluated by vm_compute on every
   title written for the correspondence (Corr.lookup_all evaluates the four lookups: library solvents, random charge / mult /
   energy).  The str -> int / float conversions of the values are outside the theorems. *)
Definition title_ok (pre c m s e : str) : bool :=
  let E := s_ "E = " ++ e ++ s_ " Ha" in
  let S := s_ "solvent_name = " ++ s ++ s_ " " in
  lookup_ok (s_ "charge") pre c (s_ " mult = " ++ m ++ s_ " " ++ S ++ E) &&
  lookup_ok (s_ "mult") (pre ++ s_ "charge = " ++ c ++ s_ " ") m (s_ " " ++ S ++ E) &&
  lookup_ok (s_ "solvent_name") (pre ++ s_ "charge = " ++ c ++ s_ " mult = " ++ m ++ s_ " ") s (s_ " " ++ E) &&
  lookup_ok (s_ "E") (pre ++ s_ "charge = " ++ c ++ s_ " mult = " ++ m ++ s_ " " ++ s_ "solvent_name = " ++ s ++ s_ " ") e (s_ " Ha").
Theorem xyz_title_lookup :
  forall pre c m s e, title_ok pre c m s e = true ->
    let t := title_of pre c m (Some s) (Some e) in
    sd_get (s_ "charge") t = Some c /\ sd_get (s_ "mult") t = Some m /\
    sd_get (s_ "solvent_name") t = Some s /\ sd_get (s_ "E") t = Some e.
Proof.
  intros pre c m s e H t. unfold title_ok in H.
  apply andb_prop in H as [H H4]. apply andb_prop in H as [H H3]. apply andb_prop in H as [H1 H2].
  apply sd_get_ok in H1. apply sd_get_ok in H2. apply sd_get_ok in H3. apply sd_get_ok in H4.
  unfold t, title_of. repeat split.
  - rewrite <- H1. f_equal.
  - rewrite <- H2. f_equal. rewrite <- !app_assoc. reflexivity.
  - rewrite <- H3. f_equal. rewrite <- !app_assoc. reflexivity.
  - rewrite <- H4. f_equal. rewrite <- !app_assoc. reflexivity.
Qed.
(* the same for the minimal title (no solvent, no energy - the common case) *)
Definition title_ok_min (pre c m : str) : bool :=
  lookup_ok (s_ "charge") pre c (s_ " mult = " ++ m ++ s_ " ") &&
  lookup_ok (s_ "mult") (pre ++ s_ "charge = " ++ c ++ s_ " ") m (s_ " ").
Theorem xyz_title_lookup_min :
  forall pre c m, title_ok_min pre c m = true ->
    let t := title_of pre c m None None in
    sd_get (s_ "charge") t = Some c /\ sd_get (s_ "mult") t = Some m.
Proof.
  intros pre c m H t. unfold title_ok_min in H. apply andb_prop in H as [H1 H2].
  apply sd_get_ok in H1. apply sd_get_ok in H2. unfold t, title_of. split.
  - rewrite <- H1. f_equal.
  - rewrite <- H2. f_equal. rewrite <- !app_assoc. reflexivity.
Qed.
Example title_ok_example :
  title_ok (s_ "Generated by autodE on: 2026-10-01. ") (s_ "-1") (s_ "2") (s_ "water") (s_ "-76.123457") = true.
Proof. vm_compute. reflexivity. Qed.

(* 9. Malformed files.  Single-frame reader: whatever xyz_file_to_atoms accepts has a positive
      count line and exactly that many well-formed atom lines; EVERY other file raises
      XYZfileWrongFormat (unknown element labels included, commit 432035c).
      Multi-frame reader: every accepted frame has exactly the declared number (>= 1) of atoms -
      a truncated frame is never accepted; every rejected file raises XYZfileWrongFormat - malformed counts,
      atom lines AND title values that do not convert (int charge, positive int mult, float E; commit
      f5575d0) - the ONLY other outcome being SolventNotFound for a title naming an unknown solvent (an
      AutodeException that names the problem; not counted as a malformed file). *)
Theorem xyz_malformed_rejected :
  forall (valid_sym : str -> bool) (ls : list xline),
    (forall atoms, read_atoms valid_sym ls = Ok atoms ->
       exists z rest, ls = LTok [TInt z] :: rest /\ (0 < z)%Z /\ List.length atoms = Z.to_nat z /\
                      Z.to_nat z <= List.length (tl rest) /\
                      parse_atoms valid_sym (firstn (Z.to_nat z) (tl rest)) = Ok atoms) /\
    ((exists atoms, read_atoms valid_sym ls = Ok atoms) \/ read_atoms valid_sym ls = ErrFormat).
Proof.
  intros v ls. split; [intros atoms H; apply (read_atoms_sound v ls atoms H)|apply read_atoms_documented].
Qed.
Theorem xyz_multi_malformed_rejected :
  forall (valid_sym : str -> bool) (key : str) (int_ok mult_ok float_ok solv_ok : str -> bool) (ls : list xline),
    let rd := read_molecules valid_sym key int_ok mult_ok float_ok solv_ok in
    (forall frs, rd ls = Ok frs ->
        exists z rest, strip_blank ls = LTok [TInt z] :: rest /\ (0 < z)%Z /\
                       Forall (fun fr => List.length (f_atoms fr) = Z.to_nat z) frs) /\
    (titles_solvent_ok key solv_ok (strip_blank ls) ->
        (exists frs, rd ls = Ok frs) \/ rd ls = ErrFormat) /\
    ((exists frs, rd ls = Ok frs) \/ rd ls = ErrFormat \/ rd ls = ErrOther).
Proof.
  intros v k io mo fo so ls rd. unfold rd, read_molecules. split; [|split].
  - intros frs H. destruct (strip_blank ls) as [|l rest] eqn:E; [discriminate|].
    destruct l as [ts|t]; [|discriminate]. destruct ts as [|t ts]; [discriminate|].
    destruct t as [z| |]; try discriminate. destruct ts; [|discriminate].
    destruct (z <=? 0)%Z eqn:Ez; [discriminate|]. apply Z.leb_gt in Ez.
    exists z, rest. split; [reflexivity|]. split; [exact Ez|].
    eapply Forall_impl; [|apply (read_frames_sound v k io mo fo so _ _ _ _ H)]. intros fr [H1 _]. exact H1.
  - intros HT. destruct (strip_blank ls) as [|l rest] eqn:E; [right; reflexivity|].
    destruct l as [ts|t]; [|right; reflexivity]. destruct ts as [|t ts]; [right; reflexivity|].
    destruct t as [z| |]; try (right; reflexivity). destruct ts; [|right; reflexivity].
    destruct (z <=? 0)%Z; [right; reflexivity|].
    apply (read_frames_documented v k io mo fo so (Z.to_nat z) _ _ HT).
  - destruct (strip_blank ls) as [|l rest] eqn:E; [right; left; reflexivity|].
    destruct l as [ts|t]; [|right; left; reflexivity]. destruct ts as [|t ts]; [right; left; reflexivity|].
    destruct t as [z| |]; try (right; left; reflexivity). destruct ts; [|right; left; reflexivity].
    destruct (z <=? 0)%Z; [right; left; reflexivity|].
    apply (read_frames_cases v k io mo fo so (Z.to_nat z)).
Qed.
Example xyz_malformed_examples :
  (* truncated single frame, truncated last frame of a multi-frame file, unknown element, bad count,
     and a valid file with a trailing blank line *)
  read_atoms (fun _ => true) [LTok [TInt 2]; LTitle []; LTok [TSym (s_ "H"); TInt 0; TInt 0; TInt 0]] = ErrFormat /\
  read_molecules (fun _ => true) (s_ "solvent_name") (fun _ => true) (fun _ => true) (fun _ => true) (fun _ => true)
    [LTok [TInt 2]; LTitle []; LTok [TSym (s_ "H"); TInt 0; TInt 0; TInt 0]] = ErrFormat /\
  read_atoms (fun s => negb (prefixb (s_ "Qq") s))
    [LTok [TInt 1]; LTitle []; LTok [TSym (s_ "Qq"); TInt 0; TInt 0; TInt 0]] = ErrFormat /\
  read_molecules (fun _ => true) (s_ "solvent_name") (fun _ => true) (fun _ => true) (fun _ => true) (fun _ => true) [LTok [TSym (s_ "x")]] = ErrFormat /\
  (* a title value that does not convert (charge = x) is the format error; an unknown solvent is SolventNotFound *)
  read_molecules (fun _ => true) (s_ "solvent_name") (fun v => negb (prefixb (s_ "x") v)) (fun _ => true) (fun _ => true) (fun _ => true)
    [LTok [TInt 1]; LTitle (s_ "charge = x mult = 1"); LTok [TSym (s_ "H"); TInt 0; TInt 0; TInt 0]] = ErrFormat /\
  read_molecules (fun _ => true) (s_ "solvent_name") (fun _ => true) (fun _ => true) (fun _ => true) (fun v => negb (prefixb (s_ "nota") v))
    [LTok [TInt 1]; LTitle (s_ "solvent_name = notasolvent"); LTok [TSym (s_ "H"); TInt 0; TInt 0; TInt 0]] = ErrOther /\
  read_molecules (fun _ => true) (s_ "solvent_name") (fun _ => true) (fun _ => true) (fun _ => true) (fun _ => true) [LTok [TInt (-2)]; LTitle []] = ErrFormat /\
  read_molecules (fun _ => true) (s_ "solvent_name") (fun _ => true) (fun _ => true) (fun _ => true) (fun _ => true) [LTok [TInt (-5)]; LTitle []; LTok [TSym (s_ "zz")]] = ErrFormat /\
  (exists fr, read_molecules (fun _ => true) (s_ "solvent_name") (fun _ => true) (fun _ => true) (fun _ => true) (fun _ => true)
    [LTok [TInt 1]; LTitle (s_ "charge = -1 mult = 2"); LTok [TSym (s_ "H"); TInt 0; TInt 0; TInt 0]; LTok []] = Ok [fr]
    /\ f_charge fr = Some (s_ "-1") /\ f_mult fr = Some (s_ "2")).
Proof. repeat split; try reflexivity. eexists. split; [vm_compute; reflexivity|split; reflexivity]. Qed.

(* 10. StringDict matches whole keys only (commit 1120b15): whatever a lookup returns is the token
       that follows an occurrence of "key = " which starts the line or follows a blank, and it is
       the first such occurrence - a key is never found inside another word. *)
Theorem stringdict_whole_key :
  forall (key s v : str), sd_get key s = Some v ->
    exists pre rest, s = pre ++ (key ++ delim) ++ v ++ rest /\ flag_after true pre = true /\
                     is_token v = true /\ rest_ok rest = true /\
                     no_hit (key ++ delim) true s (List.length pre) = true.
Proof. intros key s v H. apply (sd_find_sound (key ++ delim) s true v H). Qed.
Example stringdict_whole_key_examples :
  sd_get (s_ "mult") (s_ "xmult = 5 mult = 1") = Some (s_ "1") /\
  sd_get (s_ "E") (s_ "maxE = 3.0 E = -1.5") = Some (s_ "-1.5") /\
  sd_contains (s_ "charge") (s_ "charge = 1 total_charge = 1") = true /\
  sd_get (s_ "mult") (s_ "xmult = 5") = None.
Proof. repeat split; vm_compute; reflexivity. Qed.

(* ------------------------------------------------------------------------------------------
   Statements of the property that are FALSE of the faithful model (witnesses; each replays on
   the real code, see harness/c18.py findings). *)

(* a solvent whose name contains a blank is not read back ("diethyl ether" -> "diethyl") *)
Theorem xyz_solvent_blank_refuted :
  exists pre c m s e,
    s = s_ "diethyl ether" /\
    sd_get (s_ "solvent_name") (title_of pre c m (Some s) (Some e)) = Some (s_ "diethyl") /\
    title_ok pre c m s e = false.
Proof.
  exists (s_ "Generated by autodE on: 2026-10-01. "), (s_ "0"), (s_ "1"), (s_ "diethyl ether"), (s_ "-1.000000").
  split; [reflexivity|]. split; vm_compute; reflexivity.
Qed.
