#!/bin/bash
# MANIFEST.setup_cmd: regenerate the translated models from /repo and build the whole Coq project.
# Offline; everything comes from files on disk.  Each check re-runs its own translator and `make`
# for its slice, so this is only a warm-up that makes the quick checks fast.
set -e
cd /verif
export PYTHONPATH=/repo:/verif/harness PYTHONHASHSEED=0 PYTHONDONTWRITEBYTECODE=1
mkdir -p .work coq/gen evidence replay
for t in tr/translate_*.py; do
  python3 "$t" || echo "translator $t failed (its check will report it)"
done
bash tools/coq_prepare.sh
cd coq
timeout 3000 make -f Makefile.coq -j"$(nproc)" -k || echo "some Coq files failed to build (their checks will report it)"
