#!/usr/bin/env python3
"""Fail-closed translator: autode/opt/coordinates/_autodiff.py -> coq/gen/C07_Gen.v

Only the Python `ast` is read; nothing from the repository is imported or executed.

What is translated (every other construct raises Untranslatable -> exit status 3):

* VectorHyperDual.__add__ / __neg__ / __mul__ / apply_operation by a small symbolic executor that
  runs each method body once per derivative order (zeroth, first, second), deciding the
  `isinstance(...)`, `self._order == DerivativeOrder.x` and `x is not None` tests statically, and
  collecting the returned (value, first_der, second_der) as typed terms (scalar / vector / matrix)
  over the vocabulary of coq/lib/Sums.v (+ vmulr/mmulr for `array * scalar`).  The three runs must
  agree on the shared components (the value of every order and the gradient of order 1 and 2 are
  the same formulas), otherwise the translation fails closed.
* the delegating dunders __radd__, __sub__, __rsub__, __rmul__, __truediv__, __rtruediv__,
  __pow__ as compositions of the above and of DifferentiableMath.pow (hyper-dual ** int).
* VectorHyperDual.from_variable (seeding of a variable).
* the (operator, operator_first_deriv, operator_second_deriv) lambda triples of
  DifferentiableMath.sqrt/exp/log/pow/acos/atan as expression trees (Model.uexpr), with the guard
  each function asserts on its argument (Model.dom), and the two branch formulas of atan2.
"""
import ast
import hashlib
import os
import sys

REPO = os.environ.get("VERIF_REPO", "/repo")
SRC = "autode/opt/coordinates/_autodiff.py"
OUT = "/verif/coq/gen/C07_Gen.v"


class Untranslatable(Exception):
    pass


def U(node):
    return ast.unparse(node)


# --------------------------------------------------------------------------- typed array terms
BIN = {
    (ast.Add, "S", "S"): ("S", "(fadd K {0} {1})"),
    (ast.Sub, "S", "S"): ("S", "(fsub K {0} {1})"),
    (ast.Mult, "S", "S"): ("S", "(fmul K {0} {1})"),
    (ast.Div, "S", "S"): ("S", "(fdiv K {0} {1})"),
    (ast.Add, "V", "V"): ("V", "(vadd {0} {1})"),
    (ast.Sub, "V", "V"): ("V", "(vsub {0} {1})"),
    (ast.Add, "M", "M"): ("M", "(madd {0} {1})"),
    (ast.Sub, "M", "M"): ("M", "(msub {0} {1})"),
    (ast.Mult, "S", "V"): ("V", "(vscal {0} {1})"),
    (ast.Mult, "V", "S"): ("V", "(vmulr {0} {1})"),
    (ast.Mult, "S", "M"): ("M", "(mscal {0} {1})"),
    (ast.Mult, "M", "S"): ("M", "(mmulr {0} {1})"),
}
NEG = {"S": "(fopp K {0})", "V": "(vneg {0})", "M": "(mneg {0})"}
FIELDS = {"_val": "S", "_first_der": "V", "_second_der": "M"}
ORDERS = ("zeroth", "first", "second")


class Obj:
    """A VectorHyperDual value during symbolic execution."""

    def __init__(self, val, fd, sd):
        self.f = {"_val": val, "_first_der": fd, "_second_der": sd}

    def copy(self):
        return Obj(self.f["_val"], self.f["_first_der"], self.f["_second_der"])


def hd_obj(name, order):
    return Obj(("S", f"(v {name})"),
               ("V", f"(d1 {name})") if order != "zeroth" else None,
               ("M", f"(d2 {name})") if order == "second" else None)


class Exec:
    def __init__(self, where, order, objs, scalars=None, funcs=None, kinds=None):
        self.where = where
        self.order = order
        self.env = dict(objs)            # name -> Obj | typed term
        self.scalars = scalars or {}     # python name of a numeric argument -> Coq scalar
        self.funcs = funcs or {}         # python callable argument -> Coq function
        self.kinds = kinds or {}         # name -> 'numeric' | 'hd'

    def bad(self, node, why="unsupported construct"):
        raise Untranslatable(f"{self.where}: {why}: `{U(node)[:90]}`")

    # ----- expressions
    def field(self, node):
        if isinstance(node.value, ast.Name) and isinstance(self.env.get(node.value.id), Obj) and node.attr in FIELDS:
            t = self.env[node.value.id].f[node.attr]
            if t is None:
                self.bad(node, f"derivative array used at order {self.order} where it is None")
            return t
        self.bad(node)

    def expr(self, node):
        if isinstance(node, ast.Name):
            t = self.env.get(node.id)
            if isinstance(t, tuple):
                return t
            self.bad(node, "unknown name")
        if isinstance(node, ast.Attribute):
            return self.field(node)
        if isinstance(node, ast.UnaryOp) and isinstance(node.op, ast.USub):
            s, t = self.expr(node.operand)
            return (s, NEG[s].format(t))
        if isinstance(node, ast.BinOp):
            (sa, ta), (sb, tb) = self.expr(node.left), self.expr(node.right)
            key = (type(node.op), sa, sb)
            if key not in BIN:
                self.bad(node, f"operator on shapes {sa},{sb}")
            s, fmt = BIN[key]
            return (s, fmt.format(ta, tb))
        if isinstance(node, ast.Call) and not node.keywords:
            f = node.func
            if isinstance(f, ast.Name) and f.id == "float" and len(node.args) == 1 \
                    and isinstance(node.args[0], ast.Name) and node.args[0].id in self.scalars:
                return ("S", self.scalars[node.args[0].id])
            if isinstance(f, ast.Attribute) and U(f) == "np.outer" and len(node.args) == 2:
                (sa, ta), (sb, tb) = self.expr(node.args[0]), self.expr(node.args[1])
                if (sa, sb) != ("V", "V"):
                    self.bad(node, "np.outer of non-vectors")
                return ("M", f"(outer {ta} {tb})")
            if isinstance(f, ast.Name) and f.id in self.funcs and len(node.args) == 1:
                s, t = self.expr(node.args[0])
                if s != "S":
                    self.bad(node, "operator applied to a non-scalar")
                return ("S", f"({self.funcs[f.id]} {t})")
        self.bad(node)

    # ----- static tests
    def cond(self, node):
        if isinstance(node, ast.Call) and isinstance(node.func, ast.Name) and node.func.id == "isinstance" \
                and len(node.args) == 2 and isinstance(node.args[0], ast.Name) and node.args[0].id in self.kinds:
            cls = U(node.args[1])
            if cls == "numeric":
                return self.kinds[node.args[0].id] == "numeric"
            if cls == "VectorHyperDual":
                return self.kinds[node.args[0].id] == "hd"
            self.bad(node)
        if isinstance(node, ast.Compare) and len(node.ops) == 1:
            l, r = node.left, node.comparators[0]
            if isinstance(node.ops[0], ast.Eq) and isinstance(l, ast.Attribute) and l.attr == "_order" \
                    and isinstance(l.value, ast.Name) and isinstance(self.env.get(l.value.id), Obj) \
                    and isinstance(r, ast.Attribute) and U(r.value) == "DerivativeOrder" and r.attr in ORDERS:
                return self.order == r.attr
            if isinstance(node.ops[0], ast.IsNot) and isinstance(r, ast.Constant) and r.value is None \
                    and isinstance(l, ast.Attribute) and l.attr in ("_first_der", "_second_der") \
                    and isinstance(l.value, ast.Name) and isinstance(self.env.get(l.value.id), Obj):
                return self.env[l.value.id].f[l.attr] is not None
        self.bad(node, "test not statically decidable")

    # ----- statements;  returns None (fell through) or the tuple of returned components
    def ret(self, node):
        if isinstance(node, ast.Name) and isinstance(self.env.get(node.id), Obj):
            o = self.env[node.id]
            comps = [o.f["_val"], o.f["_first_der"], o.f["_second_der"]]
            return tuple(c for c in comps if c is not None)
        if isinstance(node, ast.Call) and U(node.func) == "VectorHyperDual" and not node.keywords \
                and 2 <= len(node.args) <= 4:
            sym = node.args[1]
            if not (isinstance(sym, ast.Attribute) and sym.attr == "_symbols" and isinstance(sym.value, ast.Name)
                    and isinstance(self.env.get(sym.value.id), Obj)):
                self.bad(node, "symbols of the result are not the operand's symbols")
            comps = [self.expr(node.args[0])] + [self.expr(a) for a in node.args[2:]]
            if [s for s, _ in comps] != ["S", "V", "M"][:len(comps)]:
                self.bad(node, "constructor argument shapes")
            return tuple(comps)
        self.bad(node, "return value")

    def block(self, stmts):
        for st in stmts:
            r = self.stmt(st)
            if r is not None:
                return r
        return None

    def stmt(self, st):
        if isinstance(st, ast.Expr) and isinstance(st.value, ast.Constant) and isinstance(st.value.value, str):
            return None
        if isinstance(st, ast.Expr) and U(st.value) in ("self._check_compatible(other)",):
            return None       # symbol/order compatibility guard (raises ValueError), not arithmetic
        if isinstance(st, ast.Assert):
            t = st.test
            ok = (isinstance(t, ast.Compare) and len(t.ops) == 1 and isinstance(t.ops[0], ast.IsNot)
                  and isinstance(t.comparators[0], ast.Constant) and t.comparators[0].value is None) or \
                 (isinstance(t, ast.Call) and U(t.func) == "isinstance")
            if not ok:
                self.bad(st)
            return None
        if isinstance(st, ast.Assign) and len(st.targets) == 1:
            tg = st.targets[0]
            if isinstance(tg, ast.Name):
                if U(st.value) in ("self.copy()", "num.copy()") and isinstance(self.env.get(U(st.value)[:-7]), Obj):
                    self.env[tg.id] = self.env[U(st.value)[:-7]].copy()
                else:
                    self.env[tg.id] = self.expr(st.value)
                return None
            if isinstance(tg, ast.Attribute) and isinstance(tg.value, ast.Name) and tg.attr in FIELDS \
                    and isinstance(self.env.get(tg.value.id), Obj) and tg.value.id not in ("self", "other", "num"):
                t = self.expr(st.value)
                if t[0] != FIELDS[tg.attr]:
                    self.bad(st, "shape of assigned field")
                self.env[tg.value.id].f[tg.attr] = t
                return None
            self.bad(st)
        if isinstance(st, ast.AugAssign):
            cur = self.expr(st.target)
            val = self.expr(st.value)
            key = (type(st.op), cur[0], val[0])
            if key not in BIN or BIN[key][0] != cur[0]:
                self.bad(st, "augmented assignment shapes")
            new = (cur[0], BIN[key][1].format(cur[1], val[1]))
            tg = st.target
            if isinstance(tg, ast.Name):
                self.env[tg.id] = new
            elif isinstance(tg, ast.Attribute) and isinstance(tg.value, ast.Name) \
                    and tg.value.id not in ("self", "other", "num") and isinstance(self.env.get(tg.value.id), Obj):
                self.env[tg.value.id].f[tg.attr] = new
            else:
                self.bad(st)
            return None
        if isinstance(st, ast.If):
            return self.block(st.body) if self.cond(st.test) else self.block(st.orelse)
        if isinstance(st, ast.Return) and st.value is not None:
            return self.ret(st.value)
        if isinstance(st, ast.Raise):
            self.bad(st, "the modelled call reaches a raise")
        self.bad(st)


def run_orders(where, fn, make):
    """Execute fn's body at the three derivative orders; -> (val, fd, sd) terms of order two."""
    res = {}
    for order in ORDERS:
        ex = make(order)
        ex.where, ex.order = where, order
        r = ex.block(fn.body)
        if r is None:
            raise Untranslatable(f"{where}: no return at order {order}")
        if len(r) != ORDERS.index(order) + 1:
            raise Untranslatable(f"{where}: order {order} returns {len(r)} components")
        res[order] = r
    if not (res["zeroth"][0] == res["first"][0] == res["second"][0]):
        raise Untranslatable(f"{where}: the value differs between derivative orders")
    if res["first"][1] != res["second"][1]:
        raise Untranslatable(f"{where}: the first derivative differs between order 1 and order 2")
    return tuple(t for _, t in res["second"])


# --------------------------------------------------------------------------- lambda bodies
MATHFN = {"sqrt": "USqrt", "exp": "UExp", "log": "ULog", "acos": "UAcos", "atan": "UAtan"}


def const_int(node):
    if isinstance(node, ast.Constant) and isinstance(node.value, (int, float)) and not isinstance(node.value, bool):
        if float(node.value) != int(node.value):
            raise Untranslatable(f"non-integer literal {node.value!r} in a derivative formula")
        return int(node.value)
    if isinstance(node, ast.UnaryOp) and isinstance(node.op, ast.USub):
        return -const_int(node.operand)
    raise Untranslatable(f"not an integer literal `{U(node)}`")


def uexpr(node, names, where):
    """lambda body -> nested list, e.g. ["UDiv", ["UCst", 1], ["UX"]]"""
    if isinstance(node, ast.Name):
        if node.id in names:
            return [names[node.id]]
        raise Untranslatable(f"{where}: free name `{node.id}`")
    if isinstance(node, ast.Constant):
        return ["UCst", const_int(node)]
    if isinstance(node, ast.UnaryOp) and isinstance(node.op, ast.USub):
        if isinstance(node.operand, ast.Constant):
            return ["UCst", const_int(node)]
        return ["UNeg", uexpr(node.operand, names, where)]
    if isinstance(node, ast.BinOp):
        ops = {ast.Add: "UAdd", ast.Sub: "USub", ast.Mult: "UMul", ast.Div: "UDiv", ast.Pow: "UPow"}
        if type(node.op) in ops:
            return [ops[type(node.op)], uexpr(node.left, names, where), uexpr(node.right, names, where)]
    if isinstance(node, ast.Call) and not node.keywords and isinstance(node.func, ast.Attribute) \
            and isinstance(node.func.value, ast.Name):
        mod, fn = node.func.value.id, node.func.attr
        if mod == "math" and fn in MATHFN and len(node.args) == 1:
            return [MATHFN[fn], uexpr(node.args[0], names, where)]
        if mod == "math" and fn == "pow" and len(node.args) == 2:
            return ["UPow", uexpr(node.args[0], names, where), uexpr(node.args[1], names, where)]
        if mod == "DifferentiableMath" and fn == "atan" and len(node.args) == 1 and where.startswith("atan2"):
            return ["UAtan", uexpr(node.args[0], names, where)]
    raise Untranslatable(f"{where}: `{U(node)[:80]}`")


def coq_of(t):
    if t[0] == "UCst":
        return f"(UCst ({t[1]})%Z)"
    if len(t) == 1:
        return t[0]
    return "(" + t[0] + " " + " ".join(coq_of(a) for a in t[1:]) + ")"


def triple_of_call(call, where, extra_names=None):
    """VectorHyperDual.apply_operation(num, operator=lambda.., operator_first_deriv=.., operator_second_deriv=..)"""
    if not (isinstance(call, ast.Call) and U(call.func) == "VectorHyperDual.apply_operation"
            and len(call.args) == 1 and U(call.args[0]) == "num"):
        raise Untranslatable(f"{where}: does not return VectorHyperDual.apply_operation(num, ...)")
    kw = {k.arg: k.value for k in call.keywords}
    want = ("operator", "operator_first_deriv", "operator_second_deriv")
    if tuple(sorted(kw)) != tuple(sorted(want)):
        raise Untranslatable(f"{where}: apply_operation keywords {sorted(kw)}")
    out = []
    for w in want:
        lam = kw[w]
        if not (isinstance(lam, ast.Lambda) and len(lam.args.args) == 1 and not lam.args.defaults
                and not lam.args.kwonlyargs and lam.args.vararg is None and lam.args.kwarg is None):
            raise Untranslatable(f"{where}: {w} is not a one-argument lambda")
        names = {lam.args.args[0].arg: "UX"}
        names.update(extra_names or {})
        out.append(uexpr(lam.body, names, f"{where}.{w}"))
    return out


def guard_of(fn, where):
    """The guard asserted on num.value; statements other than the docstring, the guard and the
    final return are rejected."""
    dom = "DomAll"
    body = [s for s in fn.body if not (isinstance(s, ast.Expr) and isinstance(s.value, ast.Constant))]
    if not body or not isinstance(body[-1], ast.Return):
        raise Untranslatable(f"{where}: last statement is not a return")
    for st in body[:-1]:
        asserts = []
        if isinstance(st, ast.If) and U(st.test) in ("isinstance(num, numeric)", "isinstance(num, VectorHyperDual)") \
                and len(st.body) == 1 and len(st.orelse) == 1:
            asserts = [st.body[0], st.orelse[0]]
        elif isinstance(st, ast.Assert):
            asserts = [st]
        else:
            raise Untranslatable(f"{where}: statement `{U(st)[:60]}`")
        for a in asserts:
            if not isinstance(a, ast.Assert):
                raise Untranslatable(f"{where}: guard is not an assert")
            t = U(a.test)
            if t in ("num > 0", "num.value > 0"):
                d = "DomPos"
            elif t in ("-1 < num < 1", "-1 < num.value < 1"):
                d = "DomOpenUnit"
            else:
                raise Untranslatable(f"{where}: guard `{t}`")
            if "value" in t:
                dom = d
    return dom, body[-1].value


def find(cls, name):
    fs = [n for n in cls.body if isinstance(n, ast.FunctionDef) and n.name == name]
    if len(fs) != 1:
        raise Untranslatable(f"{cls.name}.{name} not found")
    return fs[0]


def body_wo_doc(fn):
    return [s for s in fn.body if not (isinstance(s, ast.Expr) and isinstance(s.value, ast.Constant))]


# --------------------------------------------------------------------------- delegating dunders
class Deleg:
    """Expressions built from self/other/power, unary minus, .__add__/.__mul__, `+`, and
    DifferentiableMath.pow(e, int)."""

    def __init__(self, where, other_kind, radd_ok, rmul_ok):
        self.where, self.other_kind = where, other_kind
        self.radd_ok, self.rmul_ok = radd_ok, rmul_ok
        self.env = {"self": ("hd", "a")}
        if other_kind == "hd":
            self.env["other"] = ("hd", "b")
        elif other_kind == "numeric":
            self.env["other"] = ("num", "c")
        self.env["power"] = ("int", "k")

    def add(self, x, y):
        if x[0] == "hd" and y[0] == "hd":
            return ("hd", f"(hd_add {x[1]} {y[1]})")
        if x[0] == "hd" and y[0] == "num":
            return ("hd", f"(hd_add_scalar {x[1]} {y[1]})")
        raise Untranslatable(f"{self.where}: addition of {x[0]} and {y[0]}")

    def mul(self, x, y):
        if x[0] == "hd" and y[0] == "hd":
            return ("hd", f"(hd_mul {x[1]} {y[1]})")
        if x[0] == "hd" and y[0] == "num":
            return ("hd", f"(hd_mul_scalar {x[1]} {y[1]})")
        raise Untranslatable(f"{self.where}: product of {x[0]} and {y[0]}")

    def e(self, node):
        if isinstance(node, ast.Name) and node.id in self.env:
            return self.env[node.id]
        if isinstance(node, ast.UnaryOp) and isinstance(node.op, ast.USub):
            try:
                return ("int", f"({const_int(node)})%Z")
            except Untranslatable:
                pass
            k, t = self.e(node.operand)
            if k == "hd":
                return ("hd", f"(hd_neg {t})")
            if k == "num":
                return ("num", f"(fopp K {t})")
        if isinstance(node, ast.Constant):
            return ("int", f"({const_int(node)})%Z")
        if isinstance(node, ast.BinOp) and isinstance(node.op, ast.Add):
            x, y = self.e(node.left), self.e(node.right)
            if x[0] == "num" and y[0] == "hd":      # float + hd -> hd.__radd__(float)
                if not self.radd_ok:
                    raise Untranslatable(f"{self.where}: __radd__ is not `self.__add__(other)`")
                return self.add(y, x)
            return self.add(x, y)
        if isinstance(node, ast.Call) and not node.keywords and isinstance(node.func, ast.Attribute):
            f = node.func
            if f.attr in ("__add__", "__mul__") and len(node.args) == 1:
                x, y = self.e(f.value), self.e(node.args[0])
                return self.add(x, y) if f.attr == "__add__" else self.mul(x, y)
            if U(f) == "DifferentiableMath.pow" and len(node.args) == 2:
                x, k = self.e(node.args[0]), self.e(node.args[1])
                if k[0] != "int":
                    raise Untranslatable(f"{self.where}: exponent is not an integer")
                if x[0] == "hd":
                    return ("hd", f"(hd_pow {x[1]} {k[1]})")
                if x[0] == "num":                    # both numeric: math.pow(num, power)
                    return ("num", f"(fpowz K {x[1]} {k[1]})")
        raise Untranslatable(f"{self.where}: `{U(node)[:80]}`")


def single_return(fn, where):
    b = body_wo_doc(fn)
    if len(b) != 1 or not isinstance(b[0], ast.Return):
        raise Untranslatable(f"{where}: expected a single return statement")
    return b[0].value


# --------------------------------------------------------------------------- main
def main():
    path = os.path.join(REPO, SRC)
    src = open(path).read()
    tree = ast.parse(src)
    classes = {n.name: n for n in tree.body if isinstance(n, ast.ClassDef)}
    for c in ("VectorHyperDual", "DifferentiableMath"):
        if c not in classes:
            raise Untranslatable(f"class {c} not found")
    VH, DM = classes["VectorHyperDual"], classes["DifferentiableMath"]
    if "numeric = (float, int)" not in src:
        raise Untranslatable("`numeric = (float, int)` changed")
    defs = []     # (name, params, body term, comment)

    def hd3(c):
        return f"mkHd {c[0]}\n      {c[1]}\n      {c[2]}"

    # __add__
    fn = find(VH, "__add__")
    c = run_orders("__add__[numeric]", fn, lambda o: Exec("", o, {"self": hd_obj("a", o)}, scalars={"other": "c"},
                                                            kinds={"other": "numeric"}))
    defs.append(("hd_add_scalar", "(a : hd K) (c : car K)", hd3(c), f"_autodiff.py:{fn.lineno} __add__, numeric branch"))
    c = run_orders("__add__[hd]", fn, lambda o: Exec("", o, {"self": hd_obj("a", o), "other": hd_obj("b", o)},
                                                       kinds={"other": "hd"}))
    defs.append(("hd_add", "(a b : hd K)", hd3(c), f"_autodiff.py:{fn.lineno} __add__, hyper-dual branch"))
    # __neg__
    fn = find(VH, "__neg__")
    c = run_orders("__neg__", fn, lambda o: Exec("", o, {"self": hd_obj("a", o)}))
    defs.append(("hd_neg", "(a : hd K)", hd3(c), f"_autodiff.py:{fn.lineno} __neg__"))
    # __mul__
    fn = find(VH, "__mul__")
    c = run_orders("__mul__[numeric]", fn, lambda o: Exec("", o, {"self": hd_obj("a", o)}, scalars={"other": "c"},
                                                            kinds={"other": "numeric"}))
    defs.append(("hd_mul_scalar", "(a : hd K) (c : car K)", hd3(c), f"_autodiff.py:{fn.lineno} __mul__, numeric branch"))
    c = run_orders("__mul__[hd]", fn, lambda o: Exec("", o, {"self": hd_obj("a", o), "other": hd_obj("b", o)},
                                                       kinds={"other": "hd"}))
    defs.append(("hd_mul", "(a b : hd K)", hd3(c), f"_autodiff.py:{fn.lineno} __mul__, hyper-dual branch (product rule)"))
    # apply_operation
    fn = find(VH, "apply_operation")
    if [a.arg for a in fn.args.args] != ["num", "operator", "operator_first_deriv", "operator_second_deriv"]:
        raise Untranslatable("apply_operation signature changed")
    funcs = {"operator": "f", "operator_first_deriv": "f'", "operator_second_deriv": "f''"}
    c = run_orders("apply_operation", fn, lambda o: Exec("", o, {"num": hd_obj("a", o)}, funcs=funcs,
                                                           kinds={"num": "hd"}))
    defs.append(("hd_apply", "(f f' f'' : car K -> car K) (a : hd K)", hd3(c),
                 f"_autodiff.py:{fn.lineno} apply_operation (chain rule)"))

    # from_variable
    fn = find(VH, "from_variable")
    stm = [U(s) for s in body_wo_doc(fn) if not isinstance(s, ast.Assert)]
    want = ["val = float(value)", "first_der = None", "second_der = None", "n = len(all_symbols)",
            "idx = list(all_symbols).index(symbol)", "order = DerivativeOrder(order)",
            None, "if order == DerivativeOrder.second:\n    second_der = np.zeros(shape=(n, n), dtype=float)",
            "return VectorHyperDual(val, all_symbols, first_der, second_der)"]
    if len(stm) != len(want) or any(w is not None and w != s for w, s in zip(want, stm)):
        raise Untranslatable("from_variable: statement list changed")
    ifn = [s for s in body_wo_doc(fn) if not isinstance(s, ast.Assert)][6]
    if not (isinstance(ifn, ast.If) and U(ifn.test) == "order == DerivativeOrder.first or order == DerivativeOrder.second"
            and len(ifn.body) == 2 and not ifn.orelse and U(ifn.body[0]) == "first_der = np.zeros(shape=n, dtype=float)"
            and isinstance(ifn.body[1], ast.Assign) and U(ifn.body[1].targets[0]) == "first_der[idx]"):
        raise Untranslatable("from_variable: first derivative seeding changed")
    seed = const_int(ifn.body[1].value)
    defs.append(("hd_from_variable", "(idx : nat) (value : car K)",
                 f"mkHd value\n      (fun i => if Nat.eqb i idx then of_Z K ({seed})%Z else f0 K)\n      (fun _ _ => f0 K)",
                 f"_autodiff.py:{fn.lineno} from_variable: zeros, first_der[idx] = {U(ifn.body[1].value)}, zero matrix"))

    # DifferentiableMath triples
    triples = {}
    for name in ("sqrt", "exp", "log", "acos", "atan"):
        fn = find(DM, name)
        dom, retv = guard_of(fn, name)
        triples[name] = (dom, triple_of_call(retv, name), fn.lineno)
    # pow
    fn = find(DM, "pow")
    b = body_wo_doc(fn)
    if len(b) != 1 or not isinstance(b[0], ast.If):
        raise Untranslatable("pow: structure changed")
    br1, rest = b[0], b[0].orelse
    if U(br1.test) != "isinstance(num, numeric) and isinstance(power, numeric)" or len(br1.body) != 1 \
            or U(br1.body[0]) != "return math.pow(num, power)":
        raise Untranslatable("pow: numeric/numeric branch changed")
    if len(rest) != 1 or not isinstance(rest[0], ast.If) \
            or U(rest[0].test) != "isinstance(num, VectorHyperDual) and isinstance(power, numeric)":
        raise Untranslatable("pow: hyper-dual/numeric branch changed")
    br2 = rest[0]
    if len(br2.body) != 2 or not isinstance(br2.body[0], ast.If) or not isinstance(br2.body[1], ast.Return) \
            or U(br2.body[0].test) != "num.value < 0 and isinstance(power, float)" \
            or not isinstance(br2.body[0].body[0], ast.Raise) or br2.body[0].orelse:
        raise Untranslatable("pow: guard of the hyper-dual/numeric branch changed")
    triples["pow"] = ("DomAll", triple_of_call(br2.body[1].value, "pow", {"power": "UPower"}), fn.lineno)
    # atan2 branches
    fn = find(DM, "atan2")
    inner = {n.name: n for n in fn.body if isinstance(n, ast.FunctionDef)}
    br = {}
    for nm in ("atan2_derivs_x_not_0", "atan2_derivs_x_close_0"):
        if nm not in inner or [a.arg for a in inner[nm].args.args] != ["y", "x"]:
            raise Untranslatable(f"atan2: helper {nm}(y, x) not found")
        br[nm] = uexpr(single_return(inner[nm], "atan2." + nm), {"x": "UX", "y": "UY"}, "atan2." + nm)
    sel = [s for s in fn.body if isinstance(s, ast.If) and "isclose" in U(s.test)]
    if len(sel) != 1 or U(sel[0].test) != "math.isclose(abs(res_val), math.pi / 2, abs_tol=0.1)" \
            or [U(s) for s in sel[0].body] != ["res = atan2_derivs_x_close_0(num_y, num_x)", "res.value = res_val", "return res"] \
            or [U(s) for s in sel[0].orelse] != ["res = atan2_derivs_x_not_0(num_y, num_x)", "res.value = res_val", "return res"]:
        raise Untranslatable("atan2: branch selection changed")
    if "res_val = math.atan2(y_val, x_val)" not in [U(s) for s in fn.body]:
        raise Untranslatable("atan2: value is no longer math.atan2(y_val, x_val)")

    # delegating dunders
    radd_ok = U(single_return(find(VH, "__radd__"), "__radd__")) == "self.__add__(other)"
    rmul_ok = U(single_return(find(VH, "__rmul__"), "__rmul__")) == "self.__mul__(other)"
    if not radd_ok or not rmul_ok:
        raise Untranslatable("__radd__/__rmul__ no longer delegate to __add__/__mul__")
    dl = []
    hd_pow_body = ("hd_apply (evF K k pow_f) (evF K k pow_f') (evF K k pow_f'') a")
    dl.append(("hd_pow", "(a : hd K) (k : Z)", hd_pow_body,
               f"_autodiff.py:{triples['pow'][2]} DifferentiableMath.pow, hyper-dual ** int"))
    for meth, okind, cname, params in (
            ("__sub__", "hd", "hd_sub", "(a b : hd K)"),
            ("__sub__", "numeric", "hd_sub_scalar", "(a : hd K) (c : car K)"),
            ("__rsub__", "numeric", "hd_rsub", "(c : car K) (a : hd K)"),
            ("__truediv__", "hd", "hd_div", "(a b : hd K)"),
            ("__truediv__", "numeric", "hd_div_scalar", "(a : hd K) (c : car K)"),
            ("__rtruediv__", "numeric", "hd_rdiv", "(c : car K) (a : hd K)")):
        fn = find(VH, meth)
        k, t = Deleg(f"{meth}[{okind}]", okind, radd_ok, rmul_ok).e(single_return(fn, meth))
        if k != "hd":
            raise Untranslatable(f"{meth}: result is not a hyper-dual")
        dl.append((cname, params, t, f"_autodiff.py:{fn.lineno} {meth} ({okind} other): `{U(single_return(fn, meth))}`"))
    fn = find(VH, "__pow__")
    b = [U(s) for s in body_wo_doc(fn)]
    if b != ["if modulo is not None:\n    raise NotImplementedError('Modulo inverse is not implemented')",
             "result = DifferentiableMath.pow(self, power)", "assert isinstance(result, VectorHyperDual)", "return result"]:
        raise Untranslatable("__pow__: body changed")

    sha = hashlib.sha256(src.encode()).hexdigest()
    L = [f"(* GENERATED by /verif/tr/translate_c07.py from {SRC} - do not edit.",
         f"   source sha256 = {sha} *)",
         "From Coq Require Import ZArith Arith List.",
         "From AV.lib Require Import Sums.",
         "From AV.C07 Require Import Model.", "",
         "(* ---- (operator, first derivative, second derivative) lambda triples ---- *)"]
    for name, (dom, tr, line) in triples.items():
        L.append(f"(* _autodiff.py:{line} DifferentiableMath.{name} *)")
        L.append(f"Definition {name}_f : uexpr := {coq_of(tr[0])}.")
        L.append(f"Definition {name}_f' : uexpr := {coq_of(tr[1])}.")
        L.append(f"Definition {name}_f'' : uexpr := {coq_of(tr[2])}.")
        L.append(f"Definition {name}_dom : dom := {dom}.")
    L.append("(* atan2: derivatives from atan(y/x), or from -atan(x/y) when |atan2(y,x)| is within 0.1 of pi/2;")
    L.append("   the value is overwritten with math.atan2(y, x) in both branches *)")
    L.append(f"Definition atan2_branch_x_not_0 : uexpr := {coq_of(br['atan2_derivs_x_not_0'])}.")
    L.append(f"Definition atan2_branch_x_close_0 : uexpr := {coq_of(br['atan2_derivs_x_close_0'])}.")
    L += ["", "Section Gen.", "Variable K : ops.",
          "Local Notation vadd := (Sums.vadd (car K) (fadd K)).",
          "Local Notation vsub := (Sums.vsub (car K) (fsub K)).",
          "Local Notation vneg := (Sums.vneg (car K) (fopp K)).",
          "Local Notation vscal := (Sums.vscal (car K) (fmul K)).",
          "Local Notation madd := (Sums.madd (car K) (fadd K)).",
          "Local Notation msub := (Sums.msub (car K) (fsub K)).",
          "Local Notation mneg := (Sums.mneg (car K) (fopp K)).",
          "Local Notation mscal := (Sums.mscal (car K) (fmul K)).",
          "Local Notation outer := (Sums.outer (car K) (fmul K)).",
          "Local Notation vmulr := (Model.vmulr K).",
          "Local Notation mmulr := (Model.mmulr K).", ""]
    for name, params, body, cm in defs + dl:
        L.append(f"(* {cm} *)")
        L.append(f"Definition {name} {params} : hd K :=\n  {body}.")
    L += ["", "End Gen.", ""]
    txt = "\n".join(L)
    os.makedirs(os.path.dirname(OUT), exist_ok=True)
    old = open(OUT).read() if os.path.exists(OUT) else None
    if old != txt:
        _tmp = OUT + ".tmp%d" % os.getpid()
        with open(_tmp, "w") as f:
            f.write(txt)
        os.replace(_tmp, OUT)  # atomic: a concurrent coqc never sees a partial file
    return {"sha256": sha, "definitions": [d[0] for d in defs + dl],
            "triples": {k: v[1] for k, v in triples.items()},
            "domains": {k: v[0] for k, v in triples.items()},
            "atan2": {"x_not_0": br["atan2_derivs_x_not_0"], "x_close_0": br["atan2_derivs_x_close_0"]}}


if __name__ == "__main__":
    try:
        info = main()
        print("translated:", {"sha256": info["sha256"][:16], "definitions": len(info["definitions"]),
                              "triples": sorted(info["triples"]), "domains": info["domains"]})
        if "--json" in sys.argv:
            import json
            print("JSON:" + json.dumps(info))
    except Untranslatable as e:
        print("UNTRANSLATABLE:", e)
        sys.exit(3)
    except (OSError, SyntaxError, KeyError, IndexError, AttributeError, TypeError, ValueError) as e:
        print("UNTRANSLATABLE: translator could not read the source:", type(e).__name__, e)
        sys.exit(3)
