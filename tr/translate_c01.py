#!/usr/bin/env python3
"""Fail-closed translator for property C01 (SMILES parser):

    autode/smiles/base.py   :: bond_order_symbols, organic_symbols, aromatic_symbols
    autode/smiles/parser.py :: elems_poss_val (dict literal inside Parser._set_implicit_hs)
                               the literal character collections used by Parser.parse /
                               Parser._check_smiles:  (".", "*"),  ["/", "\\"],
                               ["/", "\\", "(", ")", ""],  ("Cl", "Br")
    autode/atoms.py         :: elements                         ->  coq/gen/C01_Gen.v

Only the Python `ast` is read; nothing of /repo is imported or executed.  Every table must be a
literal list/tuple/dict of string (resp. int) constants; anything else raises Untranslatable
(exit status 3): the model is then not tied to the source and the property is not shown.
"""
import ast
import hashlib
import os
import sys

REPO = os.environ.get("VERIF_REPO", "/repo")
OUT = "/verif/coq/gen/C01_Gen.v"


class Untranslatable(Exception):
    pass


def cstr(s):
    if any(ord(c) < 32 or ord(c) > 126 for c in s):
        raise Untranslatable(f"string {s!r}")
    return '"' + s.replace('"', '""') + '"'


def las(s):
    """Coq term of type list ascii"""
    return f"(list_ascii_of_string {cstr(s)})"


def str_seq(node, where, allow_empty_string=False):
    if not isinstance(node, (ast.List, ast.Tuple)):
        raise Untranslatable(f"{where}: not a list/tuple literal: {ast.unparse(node)[:80]}")
    out = []
    for e in node.elts:
        if not (isinstance(e, ast.Constant) and isinstance(e.value, str)):
            raise Untranslatable(f"{where}: element is not a string literal")
        if e.value == "" and not allow_empty_string:
            raise Untranslatable(f"{where}: empty string")
        out.append(e.value)
    return out


def module_assign(tree, name, where):
    hits = []
    for st in tree.body:
        if isinstance(st, ast.Assign) and len(st.targets) == 1 and isinstance(st.targets[0], ast.Name) \
                and st.targets[0].id == name:
            hits.append(st.value)
        if isinstance(st, ast.AnnAssign) and isinstance(st.target, ast.Name) and st.target.id == name:
            hits.append(st.value)
    if len(hits) != 1:
        raise Untranslatable(f"{where}: `{name}` assigned {len(hits)} times at module level")
    return hits[0]


def find_method(tree, cls, name, where):
    cs = [n for n in tree.body if isinstance(n, ast.ClassDef) and n.name == cls]
    if len(cs) != 1:
        raise Untranslatable(f"{where}: class {cls} not found")
    fs = [n for n in cs[0].body if isinstance(n, ast.FunctionDef) and n.name == name]
    if len(fs) != 1:
        raise Untranslatable(f"{where}: {cls}.{name} not found")
    return fs[0]


def main():
    bsrc = open(os.path.join(REPO, "autode/smiles/base.py")).read()
    psrc = open(os.path.join(REPO, "autode/smiles/parser.py")).read()
    asrc = open(os.path.join(REPO, "autode/atoms.py")).read()
    bt, pt, at = ast.parse(bsrc), ast.parse(psrc), ast.parse(asrc)

    bos = str_seq(module_assign(bt, "bond_order_symbols", "base.py"), "bond_order_symbols")
    if any(len(s) != 1 for s in bos) or len(set(bos)) != len(bos):
        raise Untranslatable("bond_order_symbols: entries must be distinct single characters")
    org = str_seq(module_assign(bt, "organic_symbols", "base.py"), "organic_symbols")
    aro = str_seq(module_assign(bt, "aromatic_symbols", "base.py"), "aromatic_symbols")
    elements = str_seq(module_assign(at, "elements", "atoms.py"), "elements")
    if len(set(elements)) != len(elements):
        raise Untranslatable("elements: duplicates")

    # ---- elems_poss_val inside _set_implicit_hs
    f = find_method(pt, "Parser", "_set_implicit_hs", "parser.py")
    tabs = [st.value for st in ast.walk(f) if isinstance(st, ast.Assign) and len(st.targets) == 1
            and isinstance(st.targets[0], ast.Name) and st.targets[0].id == "elems_poss_val"]
    if len(tabs) != 1 or not isinstance(tabs[0], ast.Dict):
        raise Untranslatable("_set_implicit_hs: elems_poss_val is not a single dict literal")
    val = []
    for k, v in zip(tabs[0].keys, tabs[0].values):
        if not (isinstance(k, ast.Constant) and isinstance(k.value, str)):
            raise Untranslatable("elems_poss_val: key")
        if not isinstance(v, (ast.Tuple, ast.List)) or not v.elts:
            raise Untranslatable("elems_poss_val: value must be a non-empty tuple literal")
        ns = []
        for e in v.elts:
            if not (isinstance(e, ast.Constant) and isinstance(e.value, int) and not isinstance(e.value, bool)
                    and e.value >= 0):
                raise Untranslatable("elems_poss_val: valence is not a natural number literal")
            ns.append(e.value)
        val.append((k.value, ns))
    if len({k for k, _ in val}) != len(val):
        raise Untranslatable("elems_poss_val: duplicate key")
    # the way the table is used: first valence >= sum of bond orders, else 0
    fsrc = " ".join(ast.unparse(f).split())
    for needle in ("if atom.n_hydrogens is not None: continue",
                   "if atom.smiles_label not in elems_poss_val.keys(): raise InvalidSmilesString",
                   "bonds = self.bonds.involving(idx)",
                   "sum_bond_orders = sum((bond.order for bond in bonds))",
                   "for valance in elems_poss_val[atom.smiles_label]: if sum_bond_orders <= valance: "
                   "atom.n_hydrogens = valance - sum_bond_orders break atom.n_hydrogens = 0"):
        if needle not in fsrc:
            raise Untranslatable(f"_set_implicit_hs: structure changed (missing `{needle[:60]}`)")

    # ---- literal character collections of parse / _check_smiles
    chk = find_method(pt, "Parser", "_check_smiles", "parser.py")
    tups = [n for n in ast.walk(chk) if isinstance(n, ast.comprehension)]
    if len(tups) != 1:
        raise Untranslatable("_check_smiles: expected one comprehension")
    invalid_chars = str_seq(tups[0].iter, "_check_smiles invalid characters")
    if any(len(s) != 1 for s in invalid_chars):
        raise Untranslatable("_check_smiles: invalid characters must be single characters")

    par = find_method(pt, "Parser", "parse", "parser.py")
    extra, followers, two = None, None, None
    for n in ast.walk(par):
        if isinstance(n, ast.Compare) and len(n.ops) == 1 and isinstance(n.ops[0], ast.In):
            rhs = n.comparators[0]
            if isinstance(rhs, ast.BinOp) and isinstance(rhs.op, ast.Add) and isinstance(rhs.left, ast.Name) \
                    and rhs.left.id == "bond_order_symbols":
                lst = str_seq(rhs.right, "parse: bond character list", allow_empty_string=True)
                lhs = ast.unparse(n.left)
                if lhs in ("char", "self._string[i - 1]"):
                    if extra is not None and extra != lst:
                        raise Untranslatable("parse: two different bond character lists")
                    extra = lst
                elif lhs.startswith("next_char("):
                    followers = lst
                else:
                    raise Untranslatable(f"parse: `{lhs} in bond_order_symbols + ...` not recognised")
            elif isinstance(rhs, ast.Tuple) and ast.unparse(n.left).replace(" ", "") == "char+next_char(self._string,i)":
                two = str_seq(rhs, "parse: two-letter organic symbols")
    psrc_n = " ".join(ast.unparse(par).split())
    for needle in ("if self._string[i - 1] == '(' or (self._string[i - 1] in bond_order_symbols + ['/', '\\\\'] and self._string[i - 2] == '('): "
                   "raise InvalidSmilesString",):
        if needle not in psrc_n:
            raise Untranslatable(f"parse: structure changed (missing `{needle[:70]}`)")
    if extra is None or followers is None or two is None:
        raise Untranslatable("parse: literal character collections not found")
    if any(len(s) != 1 for s in extra) or any(len(s) > 1 for s in followers) or any(len(s) != 2 for s in two):
        raise Untranslatable("parse: literal character collections have unexpected lengths")

    sha = hashlib.sha256((bsrc + psrc).encode()).hexdigest()
    L = ["(* GENERATED by /verif/tr/translate_c01.py from autode/smiles/base.py, autode/smiles/parser.py and",
         "   autode/atoms.py -- do not edit.  (No source hash here: the file changes only when a table changes, so",
         "   concurrent runs on other worktrees with the same tables do not force a rebuild.) *)",
         "From Coq Require Import List Ascii String.", "Import ListNotations.", "Open Scope string_scope.", ""]

    def strs(name, xs, comment):
        L.append(f"(* {comment} *)")
        L.append(f"Definition {name} : list (list ascii) := [" + "; ".join(las(x) for x in xs) + "].")
        L.append("")

    def chars(name, xs, comment):
        L.append(f"(* {comment} *)")
        L.append(f"Definition {name} : list ascii := [" + "; ".join(f"{cstr(x)}%char" for x in xs) + "].")
        L.append("")

    chars("bond_order_symbols", bos, "base.py: bond_order_symbols (order of symbol k is k+1)")
    strs("organic_symbols", org, "base.py: organic_symbols")
    strs("aromatic_symbols", aro, "base.py: aromatic_symbols")
    chars("invalid_chars", invalid_chars, "parser.py Parser._check_smiles")
    chars("bond_extra_chars", extra, "parser.py Parser.parse: char in bond_order_symbols + [...]")
    chars("dangling_follow_chars", [c for c in followers if c != ""],
          "parser.py Parser.parse: next_char(...) in bond_order_symbols + [...] (non-empty entries)")
    L.append(f"Definition dangling_follow_end : bool := {'true' if '' in followers else 'false'}.")
    L.append("")
    strs("two_letter_organic", two, "parser.py Parser.parse: char + next_char in (...)")
    L.append("(* parser.py Parser._set_implicit_hs: elems_poss_val *)")
    L.append("Definition elems_poss_val : list (list ascii * list nat) := [")
    L.append(";\n".join(f"  ({las(k)}, [" + "; ".join(str(n) for n in ns) + "])" for k, ns in val))
    L.append("].\n")
    L.append("(* atoms.py: elements (atomic number = position + 1) *)")
    L.append("Definition elements : list (list ascii) := [")
    rows = [elements[i:i + 12] for i in range(0, len(elements), 12)]
    L.append(";\n".join("  " + "; ".join(las(e) for e in r) for r in rows))
    L.append("].")
    txt = "\n".join(L) + "\n"
    os.makedirs(os.path.dirname(OUT), exist_ok=True)
    old = open(OUT).read() if os.path.exists(OUT) else None
    if old != txt:
        _tmp = OUT + ".tmp%d" % os.getpid()
        with open(_tmp, "w") as fo:
            fo.write(txt)
        os.replace(_tmp, OUT)  # atomic: a concurrent coqc never sees a partial file
    return {"bond_order_symbols": bos, "organic": len(org), "aromatic": len(aro), "valence_rows": len(val),
            "elements": len(elements), "invalid_chars": invalid_chars, "bond_extra": extra,
            "followers": followers, "two_letter": two, "sha256": sha[:16]}


if __name__ == "__main__":
    try:
        print("translated:", main())
    except Untranslatable as e:
        print("UNTRANSLATABLE:", e)
        sys.exit(3)
