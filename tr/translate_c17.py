#!/usr/bin/env python3
"""Fail-closed translator for C17: the print sites of every wrapper that write coordinates,
charge / multiplicity, constraints, added internal coordinates and point charges
-> coq/gen/C17_Gen.v  (a table of line TEMPLATES: literal text and replacement fields with their
Python format specs, e.g. {x:^12.8f}, {atom.label:<3}, {i + 1}).

Only the Python `ast` is read; nothing from the repository is imported or executed.  Every listed
function must exist and must yield exactly the expected set of line kinds; a replacement field
that mentions a tracked quantity (x, y, z, label, charge, mult, i, j, dist ...) in a form outside
the small vocabulary (bare name / attribute, `e + c`, `e - c`, dist.to('Å'), len(...)) aborts with
exit status 3 (UNTRANSLATABLE), as does a format spec outside  [<>^]?width?(.precision f)? .
"""
import ast
import hashlib
import os
import re
import sys

REPO = os.environ.get("VERIF_REPO", "/repo")
OUT = "/verif/coq/gen/C17_Gen.v"


class Untranslatable(Exception):
    pass


# ---------------------------------------------------------------------------- site list
COORD = {"atom.label": "FLabel", "x": "FX", "y": "FY", "z": "FZ"}
CHGMULT = {"molecule.charge": "FChg", "molecule.mult": "FMult", "calc.molecule.charge": "FChg",
           "calc.molecule.mult": "FMult"}
IDX = {"i": "FI", "j": "FJ", "dist": "FDist", "dist.to('Å')": "FDist"}

# (program, file, qualified function, name->field map, expected multiset of line kinds)
SITES = [
    ("ORCA", "autode/wrappers/ORCA.py", "print_coordinates", {**COORD, **CHGMULT}, ["LChargeMult", "LCoord"]),
    ("ORCA", "autode/wrappers/ORCA.py", "print_distance_constraints", IDX, ["LDist"]),
    ("ORCA", "autode/wrappers/ORCA.py", "print_cartesian_constraints", IDX, ["LCart"]),
    ("ORCA", "autode/wrappers/ORCA.py", "print_added_internals", IDX, ["LInternal"]),
    ("ORCA", "autode/wrappers/ORCA.py", "print_point_charges",
     {"pc.charge": "FQ", "x": "FX", "y": "FY", "z": "FZ", "len(*)": "FN"},
     ["LNAtoms", "LPointCharge"]),
    ("G09", "autode/wrappers/G09.py", "G09.generate_input_for", {**COORD, **CHGMULT}, ["LChargeMult", "LCoord"]),
    ("G09", "autode/wrappers/G09.py", "_print_point_charges",
     {"point_charge.charge": "FQ", "x": "FX", "y": "FY", "z": "FZ"}, ["LPointCharge"]),
    ("G09", "autode/wrappers/G09.py", "_print_added_internals", IDX, ["LInternal"]),
    ("G09", "autode/wrappers/G09.py", "_print_constraints", IDX, ["LCart", "LDist", "LDistFreeze"]),
    ("NWChem", "autode/wrappers/NWChem.py", "NWChem.generate_input_for",
     {**COORD, **CHGMULT, "pc.charge": "FQ"}, ["LCharge", "LCoord", "LPointCharge"]),
    ("NWChem", "autode/wrappers/NWChem.py", "get_keywords", {"molecule.mult": "FMult"},
     ["LMult", "LNopen", "LNopen"]),
    ("QChem", "autode/wrappers/QChem.py", "QChem._InputFileWriter.add_molecule_block", {**COORD, **CHGMULT},
     ["LChargeMult", "LCoord"]),
    ("QChem", "autode/wrappers/QChem.py", "QChem._InputFileWriter.add_constraints", IDX,
     ["LCart", "LDist", "LInternal"]),
    ("XTB", "autode/wrappers/XTB.py", "XTB.print_distance_constraints", IDX, ["LDist"]),
    ("XTB", "autode/wrappers/XTB.py", "XTB.print_point_charge_file",
     {"charge": "FQ", "x": "FX", "y": "FY", "z": "FZ", "len(*)": "FN"},
     ["LNAtoms", "LPointCharge"]),
    ("MOPAC", "autode/wrappers/MOPAC.py", "print_atoms", COORD, ["LCoord", "LCoordFixed"]),
    ("MOPAC", "autode/wrappers/MOPAC.py", "get_keywords", {"molecule.charge": "FChg", "molecule.mult": "FMult"},
     ["LCharge"]),
    ("XYZ", "autode/input_output.py", "atoms_to_xyz_file", {**COORD, "len(*)": "FN"}, ["LCoord", "LNAtoms"]),
    ("XYZ", "autode/species/species.py", "Species.print_xyz_file", {"self.charge": "FChg", "self.mult": "FMult"},
     ["LTitle"]),
]
# identifiers whose appearance inside an unrecognised replacement field is an error
TRACKED_IDS = {"x", "y", "z", "i", "j", "dist", "label", "charge", "mult", "coord"}
INT_FIELDS = {"FChg", "FMult", "FI", "FJ", "FN"}
SPEC_RE = re.compile(r"^(?P<al>[<>^])?(?P<w>\d+)?(?:\.(?P<d>\d+)f)?$")


def find_function(tree, qual):
    node = tree
    for part in qual.split("."):
        nxt = [n for n in node.body if isinstance(n, (ast.FunctionDef, ast.ClassDef)) and n.name == part]
        if len(nxt) != 1:
            raise Untranslatable(f"{qual}: `{part}` not found (or ambiguous)")
        node = nxt[0]
    if not isinstance(node, ast.FunctionDef):
        raise Untranslatable(f"{qual} is not a function")
    return node


def ids_in(node):
    out = set()
    for n in ast.walk(node):
        if isinstance(n, ast.Name):
            out.add(n.id)
        elif isinstance(n, ast.Attribute):
            out.add(n.attr)
    return out


def classify(expr, names):
    """-> (field, int offset) for a tracked expression, ('FOther', 0) for an untracked one."""
    src = ast.unparse(expr)
    if src in names:
        return names[src], 0
    if "len(*)" in names and isinstance(expr, ast.Call) and isinstance(expr.func, ast.Name) \
            and expr.func.id == "len" and len(expr.args) == 1 and not expr.keywords:
        return names["len(*)"], 0
    if isinstance(expr, ast.BinOp) and isinstance(expr.op, (ast.Add, ast.Sub)) \
            and isinstance(expr.right, ast.Constant) and type(expr.right.value) is int:
        inner = ast.unparse(expr.left)
        if inner in names and names[inner] in INT_FIELDS:
            c = expr.right.value
            return names[inner], (c if isinstance(expr.op, ast.Add) else -c)
    # untracked only if it mentions none of the tracked identifiers that this site maps
    site_ids = set()
    for k in names:
        if k != "len(*)":
            site_ids |= ids_in(ast.parse(k, mode="eval"))
    hit = ids_in(expr) & (TRACKED_IDS & site_ids | {k for k in names if k.isidentifier()})
    if hit:
        raise Untranslatable(f"replacement field `{src}` uses tracked name(s) {sorted(hit)} in an unsupported form")
    return "FOther", 0


def spec_of(field, off, fmt_node, conversion, where):
    spec_txt = ""
    if fmt_node is not None:
        if not (isinstance(fmt_node, ast.JoinedStr) and all(isinstance(v, ast.Constant) for v in fmt_node.values)):
            raise Untranslatable(f"{where}: computed format spec")
        spec_txt = "".join(v.value for v in fmt_node.values)
    if field == "FOther":
        return ("ALeft", 0, "KRepr")
    if conversion not in (-1, None):
        raise Untranslatable(f"{where}: conversion !{chr(conversion)} on a tracked field")
    m = SPEC_RE.match(spec_txt)
    if not m:
        raise Untranslatable(f"{where}: format spec `{spec_txt}` outside the vocabulary")
    width = int(m.group("w") or 0)
    if m.group("d") is not None:
        if off != 0:
            raise Untranslatable(f"{where}: offset on a fixed-point field")
        kind = f"KFixed {int(m.group('d'))}"
    elif field == "FLabel":
        kind = "KStr"
    elif field in INT_FIELDS:
        kind = f"KInt ({off})"
    else:
        kind = "KRepr"
    default = "ALeft" if kind == "KStr" else "ARight"
    al = {"<": "ALeft", ">": "ARight", "^": "ACenter", None: default}[m.group("al")]
    return (al, width, kind)


def items_of_joined(js, names, where):
    items = []
    for v in js.values:
        if isinstance(v, ast.Constant):
            if not isinstance(v.value, str):
                raise Untranslatable(f"{where}: non-string constant in f-string")
            items.append(("lit", v.value))
        elif isinstance(v, ast.FormattedValue):
            field, off = classify(v.value, names)
            items.append(("fld", field, spec_of(field, off, v.format_spec, v.conversion, where)))
        else:
            raise Untranslatable(f"{where}: f-string part {type(v).__name__}")
    return items


def items_of_arg(a, names, where):
    if isinstance(a, ast.Constant) and isinstance(a.value, str):
        return [("lit", a.value)]
    if isinstance(a, ast.JoinedStr):
        return items_of_joined(a, names, where)
    if isinstance(a, ast.Starred):
        if ids_in(a) & {k for k in names if k.isidentifier()}:
            raise Untranslatable(f"{where}: starred tracked argument")
        return [("fld", "FOther", ("ALeft", 0, "KRepr"))]
    field, off = classify(a, names)
    return [("fld", field, spec_of(field, off, None, -1, where))]


def merge_lits(items):
    out = []
    for it in items:
        if it[0] == "lit" and out and out[-1][0] == "lit":
            out[-1] = ("lit", out[-1][1] + it[1])
        elif it[0] == "lit" and it[1] == "":
            continue
        else:
            out.append(it)
    return out


def split_lines(items):
    lines, cur = [], []
    for it in items:
        if it[0] == "lit" and "\n" in it[1]:
            parts = it[1].split("\n")
            for k, p in enumerate(parts):
                if p:
                    cur.append(("lit", p))
                if k < len(parts) - 1:
                    lines.append(cur)
                    cur = []
        else:
            cur.append(it)
    lines.append(cur)
    return [merge_lits(l) for l in lines]


def templates_in(fn, names, where):
    """All line templates (with at least one tracked field) printed / built in function fn, with the
    ast node they came from."""
    out = []
    consumed = set()
    for node in ast.walk(fn):
        if not isinstance(node, ast.Call):
            continue
        f = node.func
        is_print = isinstance(f, ast.Name) and f.id == "print"
        is_write = isinstance(f, ast.Attribute) and f.attr == "write" and ast.unparse(f.value) == "self"
        if not (is_print or is_write):
            continue
        sep = " "
        for kw in node.keywords:
            if kw.arg == "sep":
                if not (isinstance(kw.value, ast.Constant) and isinstance(kw.value.value, str)):
                    raise Untranslatable(f"{where}: computed sep=")
                sep = kw.value.value
            elif kw.arg not in ("file", "end"):
                raise Untranslatable(f"{where}: print keyword {kw.arg}")
        items = []
        for k, a in enumerate(node.args):
            if k:
                items.append(("lit", sep))
            items += items_of_arg(a, names, where)
            for sub in ast.walk(a):
                if isinstance(sub, ast.JoinedStr):
                    consumed.add(id(sub))
        out.append((node, merge_lits(items)))
    for node in ast.walk(fn):
        if isinstance(node, ast.JoinedStr) and id(node) not in consumed:
            # format specs are JoinedStr nodes themselves: skip those
            out.append((node, merge_lits(items_of_joined(node, names, where))))
    # nested format-spec JoinedStr nodes: remove (they are children of FormattedValue)
    specs = {id(v.format_spec) for n in ast.walk(fn) if isinstance(n, ast.JoinedStr)
             for v in n.values if isinstance(v, ast.FormattedValue) and v.format_spec is not None}
    res = []
    for node, items in out:
        if id(node) in specs:
            continue
        for line in split_lines(items):
            fields = [it[1] for it in line if it[0] == "fld" and it[1] != "FOther"]
            if fields:
                res.append((node, line))
    return res


def enclosing_if_branch(fn, node, test_src):
    """'body' / 'orelse' if node lies in that branch of an `if <test_src>:` of fn, else None."""
    for n in ast.walk(fn):
        if isinstance(n, ast.If) and ast.unparse(n.test) == test_src:
            for br in ("body", "orelse"):
                for st in getattr(n, br):
                    if any(sub is node for sub in ast.walk(st)):
                        return br
    return None


def kind_of(prog, qual, fn, node, line):
    fs = sorted(it[1] for it in line if it[0] == "fld" and it[1] != "FOther")
    offs = [it[2][2] for it in line if it[0] == "fld" and it[1] == "FMult"]
    if fs == ["FLabel", "FX", "FY", "FZ"]:
        if prog == "MOPAC":
            br = enclosing_if_branch(fn, node, "i in fixed_atom_idxs")
            if br is None:
                raise Untranslatable("MOPAC.print_atoms: coordinate line outside `if i in fixed_atom_idxs`")
            return "LCoordFixed" if br == "body" else "LCoord"
        return "LCoord"
    if fs == ["FQ", "FX", "FY", "FZ"]:
        return "LPointCharge"
    if fs == ["FChg", "FMult"]:
        return "LTitle" if qual.endswith("print_xyz_file") else "LChargeMult"
    if fs == ["FChg"]:
        return "LCharge"
    if fs == ["FMult"]:
        return "LMult" if offs == ["KInt (0)"] else "LNopen"
    if fs == ["FDist", "FI", "FJ"]:
        return "LDist"
    if fs == ["FI", "FJ"]:
        return "LDistFreeze" if qual == "_print_constraints" else "LInternal"
    if fs == ["FI"]:
        return "LCart"
    if fs == ["FN"]:
        return "LNAtoms"
    raise Untranslatable(f"{prog} {qual}: a printed line carries the unexpected field set {fs}")


IN_ORDER_ITERS = {("atom", "molecule.atoms"), ("atom", "calc.molecule.atoms"), ("atom", "atoms"),
                  ("(i, atom)", "enumerate(atoms)")}


def loop_of(fn, node, where):
    """The `for` statement enclosing the coordinate print site `node`, classified."""
    loops = [n for n in ast.walk(fn) if isinstance(n, ast.For) and any(sub is node for st in n.body for sub in ast.walk(st))]
    if len(loops) != 1:
        raise Untranslatable(f"{where}: coordinate line is inside {len(loops)} for-loops (exactly one expected)")
    lp = loops[0]
    if lp.orelse:
        raise Untranslatable(f"{where}: for-else around the coordinate line")
    key = (ast.unparse(lp.target), ast.unparse(lp.iter))
    it = "IterInOrder" if key in IN_ORDER_ITERS else f"(IterOther {coq_str('for ' + key[0] + ' in ' + key[1])})"
    binds = [st for st in lp.body if isinstance(st, ast.Assign) and
             any(set(ids_in(t)) & {"x", "y", "z"} for t in st.targets)]
    if len(binds) == 1 and ast.unparse(binds[0]) == "x, y, z = atom.coord":
        bd = "BindXYZ"
    else:
        bd = f"(BindOther {coq_str('; '.join(ast.unparse(b) for b in binds))})"
    # x, y, z must not be rebound anywhere else in the loop (augmented assignment, walrus, nested targets)
    for sub in ast.walk(lp):
        if isinstance(sub, (ast.AugAssign, ast.NamedExpr)) and set(ids_in(sub.target)) & {"x", "y", "z", "atom"}:
            bd = f"(BindOther {coq_str(ast.unparse(sub))})"
    total = not any(isinstance(sub, (ast.Continue, ast.Break, ast.Return)) for st in lp.body for sub in ast.walk(st))
    return f"mkLoop {it} {bd} {'true' if total else 'false'}"


def nwchem_control(tree):
    """The branch structure of NWChem.get_keywords that decides WHETHER a multiplicity line is written."""
    fn = find_function(tree, "get_keywords")
    loop = [n for n in fn.body if isinstance(n, ast.For) and ast.unparse(n.iter) == "calc_input.keywords"]
    if len(loop) != 1:
        raise Untranslatable("NWChem.get_keywords: keyword loop not found")
    chain = [n for n in loop[0].body if isinstance(n, ast.If) and "opt" in ast.unparse(n.test)]
    if len(chain) != 1:
        raise Untranslatable("NWChem.get_keywords: the if/elif chain that appends the keywords was not found")
    tests, node = [], chain[0]
    while True:
        tests.append((ast.unparse(node.test), ast.unparse(ast.Module(body=node.body, type_ignores=[]))))
        if len(node.orelse) == 1 and isinstance(node.orelse[0], ast.If):
            node = node.orelse[0]
        else:
            break
    order = [t for t, _ in tests]
    want = ["'opt' in keyword.lower() and molecule.n_atoms == 1", "keyword.lower().startswith('dft')",
            "keyword.lower().startswith('scf')"]
    if order[:3] != want:
        raise Untranslatable(f"NWChem.get_keywords: branch order {order[:3]} != {want}")
    if "lines.insert(1, f'  mult {molecule.mult}')" not in tests[1][1] or "new_keywords.append(new_keyword)" not in tests[1][1]:
        raise Untranslatable("NWChem.get_keywords: the dft branch no longer inserts `mult` and appends the block")
    if "if not any(('nopen' in kw for kw in new_keywords)):" not in tests[2][1] or \
            "lines.insert(1, f'  nopen {molecule.mult - 1}')" not in tests[2][1]:
        raise Untranslatable("NWChem.get_keywords: the scf branch no longer inserts `nopen` once")
    tail = [n for n in fn.body if isinstance(n, ast.If) and "new_keywords.insert(1" in ast.unparse(n)]
    if len(tail) != 1 or tail[0].orelse or "nopen {molecule.mult - 1}" not in ast.unparse(tail[0]):
        raise Untranslatable("NWChem.get_keywords: the trailing scf/nopen insertion was not found")
    t = ast.unparse(tail[0].test)
    if t == "not any((kw.lower().startswith('dft') for kw in new_keywords)) and (not any(('nopen' in kw.lower() for kw in new_keywords)))":
        return "GuardNoDftNoNopen"
    if t == "any(('task scf' in kw.lower() for kw in new_keywords)) and (not any(('nopen' in kw.lower() for kw in new_keywords)))":
        return "GuardTaskScfNoNopen"
    return f"(GuardOther {coq_str(t[:200])})"


def coq_str(s):
    if any(ord(c) < 32 or ord(c) > 126 for c in s):
        raise Untranslatable(f"non-printable / non-ASCII literal {s!r}")
    return '"' + s.replace('"', '""') + '"'


def coq_item(it):
    if it[0] == "lit":
        return f"Lit {coq_str(it[1])}"
    al, w, kind = it[2]
    k = kind if " " not in kind else f"({kind})"
    return f"Fld {it[1]} (mkSpec {al} {w} {k})"


def xtb_cart_offset(tree):
    fn = find_function(tree, "XTB.print_cartesian_constraints")
    offs = []
    for n in ast.walk(fn):
        if isinstance(n, ast.GeneratorExp) and len(n.generators) == 1 and \
                ast.unparse(n.generators[0].iter) == "molecule.constraints.cartesian":
            e = n.elt
            if isinstance(e, ast.BinOp) and isinstance(e.op, (ast.Add, ast.Sub)) and \
                    ast.unparse(e.left) == "int(i)" and isinstance(e.right, ast.Constant) and type(e.right.value) is int:
                offs.append(e.right.value if isinstance(e.op, ast.Add) else -e.right.value)
            elif ast.unparse(e) in ("int(i)", "i"):
                offs.append(0)
            else:
                raise Untranslatable(f"XTB.print_cartesian_constraints: index expression `{ast.unparse(e)}`")
    if len(offs) != 1:
        raise Untranslatable("XTB.print_cartesian_constraints: index generator not found")
    src = ast.unparse(fn)
    for needle in ("atom_idx - 1 == last_range[-1]", "last_range.append(atom_idx)", "list_of_ranges.append([atom_idx])",
                   "f'{idxs[0]}-{idxs[-1]}' if len(idxs) > 1 else str(idxs[0])",
                   "atoms: {','.join(list_of_ranges_str)}", "sorted("):
        if needle not in src:
            raise Untranslatable(f"XTB.print_cartesian_constraints: range construction changed (missing `{needle}`)")
    return offs[0]


def max_label_len(tree):
    for n in tree.body:
        tgt = None
        if isinstance(n, ast.Assign) and len(n.targets) == 1 and isinstance(n.targets[0], ast.Name):
            tgt, val = n.targets[0].id, n.value
        elif isinstance(n, ast.AnnAssign) and isinstance(n.target, ast.Name):
            tgt, val = n.target.id, n.value
        if tgt == "elements":
            if not isinstance(val, ast.List) or not all(isinstance(e, ast.Constant) and isinstance(e.value, str) for e in val.elts):
                raise Untranslatable("atoms.elements is not a list of string literals")
            m = max(len(e.value) for e in val.elts)
            return max(m, 1), len(val.elts)   # DummyAtom / PointCharge label is the one-character "D"
    raise Untranslatable("atoms.elements not found")


def check_g16(src):
    tree = ast.parse(src)
    cls = [n for n in tree.body if isinstance(n, ast.ClassDef) and n.name == "G16"]
    if len(cls) != 1 or [ast.unparse(b) for b in cls[0].bases] != ["G09"]:
        raise Untranslatable("G16 is no longer a plain subclass of G09")
    meths = sorted(n.name for n in cls[0].body if isinstance(n, ast.FunctionDef))
    if meths != ["__init__", "__repr__"]:
        raise Untranslatable(f"G16 overrides {meths}: its input writer must be translated separately")


def check_atom_validation(tree):
    cls = [n for n in tree.body if isinstance(n, ast.ClassDef) and n.name == "Atom"]
    if len(cls) != 1:
        raise Untranslatable("class Atom not found")
    init = [n for n in cls[0].body if isinstance(n, ast.FunctionDef) and n.name == "__init__"]
    if len(init) != 1 or "assert atomic_symbol in elements" not in ast.unparse(init[0]):
        raise Untranslatable("Atom.__init__ no longer asserts `atomic_symbol in elements` (label length bound lost)")


def main():
    cache, rows, loops, sha = {}, [], [], hashlib.sha256()
    for prog, rel, qual, names, expected in SITES:
        if rel not in cache:
            src = open(os.path.join(REPO, rel)).read()
            cache[rel] = (src, ast.parse(src))
        src, tree = cache[rel]
        fn = find_function(tree, qual)
        sha.update(ast.get_source_segment(src, fn).encode())
        where = f"{rel}:{qual}"
        found = []
        for node, line in templates_in(fn, names, where):
            k = kind_of(prog, qual, fn, node, line)
            found.append((k, line, node.lineno))
            if k == "LCoord":
                loops.append((prog, loop_of(fn, node, where), f"{rel}:{node.lineno}"))
        if sorted(k for k, _, _ in found) != sorted(expected):
            raise Untranslatable(f"{where}: printed line kinds {sorted(k for k, _, _ in found)} != expected {sorted(expected)}")
        for k, line, lineno in found:
            rows.append((prog, k, line, f"{rel}:{lineno}"))
    xsrc, xtree = cache["autode/wrappers/XTB.py"]
    xoff = xtb_cart_offset(xtree)
    asrc = open(os.path.join(REPO, "autode/atoms.py")).read()
    atree = ast.parse(asrc)
    nwg = nwchem_control(cache["autode/wrappers/NWChem.py"][1])
    mll, nel = max_label_len(atree)
    check_atom_validation(atree)
    check_g16(open(os.path.join(REPO, "autode/wrappers/G16.py")).read())
    # Gaussian 16 inherits every print site of Gaussian 09
    rows += [("G16", k, line, w + " (inherited by G16)") for p, k, line, w in rows if p == "G09"]
    loops += [("G16", l, w + " (inherited by G16)") for p, l, w in loops if p == "G09"]

    L = ["(* GENERATED by /verif/tr/translate_c17.py from the print sites of autode/wrappers/*.py,",
         f"   autode/input_output.py, autode/species/species.py — do not edit.  source sha256 = {sha.hexdigest()} *)",
         "From Coq Require Import ZArith List String.", "From AV.C17 Require Import Base.",
         "Import ListNotations.", "Open Scope string_scope.", "",
         f"(* longest element symbol in autode/atoms.py `elements` ({nel} entries); Atom() asserts membership *)",
         f"Definition max_label_len : nat := {mll}%nat.",
         "(* XTB.print_cartesian_constraints: sorted(int(i) + c for i in constraints.cartesian) *)",
         f"Definition xtb_cart_offset : Z := ({xoff})%Z.", "",
         "(* NWChem.get_keywords: branch order (single-atom `opt` rewrite, dft -> mult, scf -> nopen once) is checked by the",
         "   translator; the guard of the trailing `scf / nopen` insertion is: *)",
         f"Definition nwchem_tail_guard : nw_guard := {nwg}.", "",
         "Definition lines : list (program * lkind * list item) := ["]
    body = []
    for prog, k, line, w in rows:
        body.append(f"  (* {w} *)\n  ({prog}, {k}, [" + "; ".join(coq_item(it) for it in line) + "])")
    L.append(";\n".join(body) + "\n].\n")
    L.append("(* the for-statement around each coordinate print site and the binding of x, y, z *)")
    L.append("Definition coord_loops : list (program * loop) := [")
    L.append(";\n".join(f"  (* {w} *)\n  ({p}, {l})" for p, l, w in loops) + "\n].\n")
    L.append("Definition spec_table : list (program * field * spec) := [")
    srows = []
    for prog, k, line, w in rows:
        for it in line:
            if it[0] == "fld" and it[1] != "FOther":
                al, wd, kind = it[2]
                kk = kind if " " not in kind else f"({kind})"
                srows.append(f"  ({prog}, {it[1]}, mkSpec {al} {wd} {kk})")
    L.append(";\n".join(srows) + "\n].\n")
    txt = "\n".join(L)
    os.makedirs(os.path.dirname(OUT), exist_ok=True)
    old = open(OUT).read() if os.path.exists(OUT) else None
    if old != txt:
        _tmp = OUT + ".tmp%d" % os.getpid()
        with open(_tmp, "w") as f:
            f.write(txt)
        os.replace(_tmp, OUT)  # atomic: a concurrent coqc never sees a partial file
    return {"lines": len(rows), "loops": len(loops), "specs": len(srows), "max_label_len": mll, "xtb_cart_offset": xoff,
            "sha256": sha.hexdigest()[:16]}


if __name__ == "__main__":
    try:
        print("translated:", main())
    except Untranslatable as e:
        print("UNTRANSLATABLE:", e)
        sys.exit(3)
