#!/usr/bin/env python3
"""Fail-closed translator for C03: autode/atoms.py, autode/mol_graphs.py, autode/species/species.py,
autode/constants.py, autode/units.py  ->  coq/gen/C03_Gen.v

Only the Python `ast` is read; nothing from the repo is imported or executed.  Emitted:
  * the element tables the bond perception uses: `elements`, `metals`, `_max_valances`,
    `_bond_lengths`, `_covalent_radii_pm` (symbols resolved to 0-based element indexes), and the
    constants of `Atom.maximal_valance` (metal / fall-back valence);
  * the bond test of make_graph (`dist_mat[i, j] <= avg_bond_length * (1.0 + rel_tolerance)`) and
    the out-of-plane test of Atoms.are_planar, TRANSLATED expression by expression into the
    vocabulary of coq/C03/Vec.v (so e.g. dropping the `abs` changes the generated definition and
    the reflection-invariance proof no longer checks);
  * default tolerances (rel_tolerance, Species.is_planar tol, Species.is_linear angle_tol and the
    cosine threshold 1 - |1 - cos(angle_tol)| evaluated in double precision as the code does).
The statement structure of maximal_valance, eqm_bond_distance, covalent_radius, atomic_number,
is_metal, are_linear, are_planar is compared with the structure the hand model was written from;
anything else raises Untranslatable (exit status 3).
"""
import ast
import hashlib
import math
import os
import sys
from fractions import Fraction

REPO = os.environ.get("VERIF_REPO", "/repo")
OUT = "/verif/coq/gen/C03_Gen.v"


class Untranslatable(Exception):
    pass


def q(x):
    f = x if isinstance(x, Fraction) else Fraction(*float(x).as_integer_ratio())
    return f"(qc ({f.numerator})%Z {f.denominator}%positive)"


def cstr(s):
    if '"' in s or "\n" in s or "\\" in s or not s.isascii():
        raise Untranslatable(f"string {s!r}")
    return '"' + s + '"'


def strip_doc(body):
    """statements without docstrings, bare string expressions and logger calls"""
    out = []
    for st in body:
        if isinstance(st, ast.Expr) and isinstance(st.value, ast.Constant) and isinstance(st.value.value, str):
            continue
        if isinstance(st, ast.Expr) and isinstance(st.value, ast.Call) and ast.unparse(st.value.func).startswith("logger."):
            continue
        out.append(st)
    return out


def norm_src(fn):
    """canonical one-statement-per-line source of a function body (docstrings/logging removed,
    recursively)"""
    class Strip(ast.NodeTransformer):
        def generic_visit(self, node):
            super().generic_visit(node)
            for fld in ("body", "orelse", "finalbody"):
                b = getattr(node, fld, None)
                if isinstance(b, list) and b and isinstance(b[0], ast.stmt):
                    nb = strip_doc(b)
                    setattr(node, fld, nb if nb or fld != "body" else [ast.Pass()])
            return node
    import copy
    f = Strip().visit(copy.deepcopy(fn))
    return "\n".join(ast.unparse(s) for s in f.body)


def find_class(tree, name):
    c = [n for n in tree.body if isinstance(n, ast.ClassDef) and n.name == name]
    if len(c) != 1:
        raise Untranslatable(f"class {name} not found exactly once")
    return c[0]


def find_def(scope, name, which=0):
    body = scope.body
    c = [n for n in body if isinstance(n, ast.FunctionDef) and n.name == name]
    if not c:
        raise Untranslatable(f"function {name} not found")
    return c[which]


def module_literal(tree, name):
    for st in tree.body:
        tgt = None
        if isinstance(st, ast.Assign) and len(st.targets) == 1 and isinstance(st.targets[0], ast.Name):
            tgt, val = st.targets[0].id, st.value
        elif isinstance(st, ast.AnnAssign) and isinstance(st.target, ast.Name) and st.value is not None:
            tgt, val = st.target.id, st.value
        if tgt == name:
            try:
                return ast.literal_eval(val)
            except Exception:
                raise Untranslatable(f"{name} is not a literal")
    raise Untranslatable(f"module-level {name} not found")


def expect(src, wanted, what):
    if src != wanted:
        raise Untranslatable(f"{what}: structure changed.\n--- expected ---\n{wanted}\n--- found ---\n{src}")


# ------------------------------------------------------------------ tiny expression compiler
class Tr:
    """Python expression -> Gallina over Vec.v.  env: python source text -> (coq term, type) with
    type 'v' (3-vector) or 's' (scalar)."""

    def __init__(self, env):
        self.env = dict(env)

    def e(self, node):
        src = ast.unparse(node)
        if src in self.env:
            return self.env[src]
        if isinstance(node, ast.Constant) and isinstance(node.value, (int, float)) and not isinstance(node.value, bool):
            return q(float(node.value)), "s"
        if isinstance(node, ast.BinOp):
            (a, ta), (b, tb) = self.e(node.left), self.e(node.right)
            if isinstance(node.op, ast.Sub):
                if ta == tb == "v":
                    return f"(vsub3 {a} {b})", "v"
                if ta == tb == "s":
                    return f"({a} - {b})", "s"
            if isinstance(node.op, ast.Add):
                if ta == tb == "v":
                    return f"(vadd3 {a} {b})", "v"
                if ta == tb == "s":
                    return f"({a} + {b})", "s"
            if isinstance(node.op, ast.Mult) and ta == tb == "s":
                return f"({a} * {b})", "s"
            raise Untranslatable(f"operator in `{src}`")
        if isinstance(node, ast.Call) and not node.keywords:
            f = ast.unparse(node.func)
            args = [self.e(a) for a in node.args]
            if f == "np.cross" and [t for _, t in args] == ["v", "v"]:
                return f"(cross3 {args[0][0]} {args[1][0]})", "v"
            if f == "np.dot" and [t for _, t in args] == ["v", "v"]:
                return f"(dot3 {args[0][0]} {args[1][0]})", "s"
            if f in ("abs", "np.abs") and [t for _, t in args] == ["s"]:
                return f"(Qcabs {args[0][0]})", "s"
            raise Untranslatable(f"call `{src}`")
        if isinstance(node, ast.Compare) and len(node.ops) == 1:
            (a, ta), (b, tb) = self.e(node.left), self.e(node.comparators[0])
            if ta == tb == "s":
                op = node.ops[0]
                if isinstance(op, ast.Gt):
                    return f"(Qcltb {b} {a})", "b"
                if isinstance(op, ast.Lt):
                    return f"(Qcltb {a} {b})", "b"
                if isinstance(op, ast.LtE):
                    return f"(Qcleb {a} {b})", "b"
                if isinstance(op, ast.GtE):
                    return f"(Qcleb {b} {a})", "b"
            raise Untranslatable(f"comparison `{src}`")
        raise Untranslatable(f"expression `{src}`")


# ------------------------------------------------------------------ atoms.py
MAXVAL_SRC = """if self.is_metal:
    return {metal}
if self.label in _max_valances:
    return _max_valances[self.label]
return {fallback}"""

EQM_SRC = """if not self.idxs_are_present(i, j):
    raise ValueError(f'Cannot calculate the equilibrium distance between {i}-{j}. At least one atom not present')
if i == j:
    return Distance(0.0, units='Å')
symbols = f'{self[i].atomic_symbol}{self[j].atomic_symbol}'
if symbols in _bond_lengths:
    return Distance(_bond_lengths[symbols], units='Å')
return self[i].covalent_radius + self[j].covalent_radius"""

COVRAD_SRC = """radius = Distance(_covalent_radii_pm[self.atomic_number - 1], units='pm')
return radius.to('Å')"""

LINEAR_SRC = """if len(self) < 2:
    return False
if len(self) == 2:
    return True
tol = np.abs(1.0 - np.cos(angle_tol.to('rad')))
coords = np.array([atom.coord for atom in self], dtype=float)
for i in range(len(self)):
    vecs = np.delete(coords, i, axis=0) - coords[i]
    vecs /= np.linalg.norm(vecs, axis=1)[:, np.newaxis]
    cos_thetas = np.matmul(vecs, vecs.T)
    if np.any(np.abs(np.abs(cos_thetas) - 1) > tol):
        return False
return True"""

NVECTOR_SRC = """vec = self.vector(i, j)
return vec / np.linalg.norm(vec)"""
VECTOR_SRC = "return np.asarray(self[j].coord - self[i].coord)"


def parse_atoms(src):
    tree = ast.parse(src)
    elements = module_literal(tree, "elements")
    metals = module_literal(tree, "metals")
    maxval = module_literal(tree, "_max_valances")
    blen = module_literal(tree, "_bond_lengths")
    cov = module_literal(tree, "_covalent_radii_pm")
    if not (isinstance(elements, list) and all(isinstance(s, str) for s in elements) and len(set(elements)) == len(elements)):
        raise Untranslatable("elements is not a duplicate-free list of strings")
    if not (isinstance(metals, list) and all(m in elements for m in metals)):
        raise Untranslatable("metals: entry not in elements")
    if not (isinstance(maxval, dict) and all(k in elements and isinstance(v, int) and not isinstance(v, bool) and v >= 0
                                             for k, v in maxval.items())):
        raise Untranslatable("_max_valances: unknown element or non-natural valence")
    if not (isinstance(cov, list) and all(isinstance(x, (int, float)) and not isinstance(x, bool) for x in cov)):
        raise Untranslatable("_covalent_radii_pm is not a list of numbers")
    if not (isinstance(blen, dict) and all(isinstance(k, str) and isinstance(v, (int, float)) for k, v in blen.items())):
        raise Untranslatable("_bond_lengths is not a dict str -> number")
    # a key of _bond_lengths is looked up as f"{symbol_i}{symbol_j}": resolve to ALL element pairs
    pairs = []
    for key, val in blen.items():
        hits = [(a, b) for a in range(len(elements)) for b in range(len(elements)) if elements[a] + elements[b] == key]
        if not hits:
            raise Untranslatable(f"_bond_lengths key {key!r} is not a concatenation of two element symbols")
        for a, b in hits:
            pairs.append((a, b, float(val)))

    atom = find_class(tree, "Atom")
    mvf = find_def(atom, "maximal_valance")
    st = strip_doc(mvf.body)
    try:
        metal_v = st[0].body[0].value.value
        fallback_v = st[-1].value.value
    except Exception:
        raise Untranslatable("Atom.maximal_valance: structure not recognised")
    if not all(isinstance(v, int) and not isinstance(v, bool) and v >= 0 for v in (metal_v, fallback_v)):
        raise Untranslatable("Atom.maximal_valance: constants are not naturals")
    expect(norm_src(mvf), MAXVAL_SRC.format(metal=metal_v, fallback=fallback_v), "Atom.maximal_valance")
    expect(norm_src(find_def(atom, "is_metal")), "return self.label in metals", "Atom.is_metal")
    expect(norm_src(find_def(atom, "atomic_number")), "return elements.index(self.label) + 1", "Atom.atomic_number")
    expect(norm_src(find_def(atom, "atomic_symbol")), "return self.label", "Atom.atomic_symbol")
    expect(norm_src(find_def(atom, "covalent_radius")), COVRAD_SRC, "Atom.covalent_radius")

    atoms = find_class(tree, "Atoms")
    expect(norm_src(find_def(atoms, "eqm_bond_distance")), EQM_SRC, "Atoms.eqm_bond_distance")
    expect(norm_src(find_def(atoms, "are_linear")), LINEAR_SRC, "Atoms.are_linear")
    expect(norm_src(find_def(atoms, "nvector")), NVECTOR_SRC, "Atoms.nvector")
    expect(norm_src(find_def(atoms, "vector")), VECTOR_SRC, "Atoms.vector")
    planar = translate_planar(find_def(atoms, "are_planar"))
    return dict(elements=elements, metals=[elements.index(m) for m in metals],
                maxval=[(elements.index(k), v) for k, v in maxval.items()], pairs=pairs, cov=[float(x) for x in cov],
                metal_v=metal_v, fallback_v=fallback_v, planar=planar,
                lin_default=default_of(find_def(atoms, "are_linear"), "angle_tol"),
                pl_default=default_of(find_def(atoms, "are_planar"), "distance_tol"))


def default_of(fn, arg):
    a = fn.args
    names = [x.arg for x in a.args]
    if arg not in names:
        raise Untranslatable(f"{fn.name}: no argument {arg}")
    k = names.index(arg) - (len(names) - len(a.defaults))
    if k < 0:
        raise Untranslatable(f"{fn.name}: {arg} has no default")
    return a.defaults[k]


def value_literal(node, cls_names, unit_ok):
    """Distance(1e-4) / val.Angle(1.0, 'degrees') -> (float, unit string or None)"""
    if isinstance(node, ast.Constant) and isinstance(node.value, (int, float)) and not isinstance(node.value, bool):
        return float(node.value), None
    if isinstance(node, ast.Call) and ast.unparse(node.func) in cls_names and not node.keywords and 1 <= len(node.args) <= 2:
        v = node.args[0]
        if not (isinstance(v, ast.Constant) and isinstance(v.value, (int, float)) and not isinstance(v.value, bool)):
            raise Untranslatable(f"default `{ast.unparse(node)}`: value is not a literal")
        u = None
        if len(node.args) == 2:
            if not (isinstance(node.args[1], ast.Constant) and node.args[1].value in unit_ok):
                raise Untranslatable(f"default `{ast.unparse(node)}`: unit not understood")
            u = node.args[1].value
        return float(v.value), u
    raise Untranslatable(f"default `{ast.unparse(node)}` not understood")


PLANAR_HEAD = """if len(self) < {nmin}:
    return True
arr = self.coordinates.to('Å')
if isinstance(distance_tol, Distance):
    distance_tol_float = float(distance_tol.to('Å'))
else:
    distance_tol_float = float(distance_tol)"""


def translate_planar(fn):
    """Atoms.are_planar -> dict(nmin, normal term, eps, test term, sources).  Recognised shape:
         <guards>; x0 = arr[0, :]; normal_vec = np.zeros(3)
         for j in range(2, len(self)):  normal_vec = <expr>;  if np.linalg.norm(normal_vec) > EPS: break
         for i in range(2, len(self)):  if <test>: return False
         return True"""
    st = strip_doc(fn.body)
    if len(st) != 8:
        raise Untranslatable("Atoms.are_planar: structure not recognised")
    try:
        nmin = st[0].test.comparators[0].value
    except Exception:
        raise Untranslatable("Atoms.are_planar: first guard not recognised")
    head = norm_src(ast.FunctionDef(name="x", args=fn.args, body=st[:3], decorator_list=[], lineno=0, col_offset=0))
    expect(head, PLANAR_HEAD.format(nmin=nmin), "Atoms.are_planar (guards)")
    if nmin != 4:
        raise Untranslatable("Atoms.are_planar: minimum atom count is not 4")
    tr = Tr({"arr[0, :]": ("p0", "v"), "arr[1, :]": ("p1", "v"), "arr[j, :]": ("pj", "v"),
             "arr[i, :]": ("pi", "v"), "distance_tol_float": ("tol", "s"), "np.zeros(3)": ("vzero", "v")})
    s_x0, s_init, loop_j, loop_i, s_ret = st[3:]
    for s, name in ((s_x0, "x0"), (s_init, "normal_vec")):
        if not (isinstance(s, ast.Assign) and len(s.targets) == 1 and ast.unparse(s.targets[0]) == name):
            raise Untranslatable(f"Atoms.are_planar: expected assignment to {name}")
        tr.env[name] = tr.e(s.value)
    if tr.env["normal_vec"] != ("vzero", "v"):
        raise Untranslatable("Atoms.are_planar: normal_vec is not initialised to zeros")

    def rng(loop, var):
        it = loop.iter
        if not (isinstance(loop, ast.For) and ast.unparse(loop.target) == var and not loop.orelse
                and isinstance(it, ast.Call) and ast.unparse(it.func) == "range" and len(it.args) == 2
                and isinstance(it.args[0], ast.Constant) and it.args[0].value == 2
                and ast.unparse(it.args[1]) == "len(self)"):
            raise Untranslatable(f"Atoms.are_planar: loop over {var} is not `for {var} in range(2, len(self))`")
        return strip_doc(loop.body)

    bj = rng(loop_j, "j")
    if not (len(bj) == 2 and isinstance(bj[0], ast.Assign) and ast.unparse(bj[0].targets[0]) == "normal_vec"
            and isinstance(bj[1], ast.If) and not bj[1].orelse and [ast.unparse(x) for x in bj[1].body] == ["break"]):
        raise Untranslatable("Atoms.are_planar: normal search loop body")
    normal_term, ty = tr.e(bj[0].value)
    if ty != "v":
        raise Untranslatable("Atoms.are_planar: normal is not a vector")
    t = bj[1].test
    if not (isinstance(t, ast.Compare) and len(t.ops) == 1 and isinstance(t.ops[0], ast.Gt)
            and ast.unparse(t.left) == "np.linalg.norm(normal_vec)" and isinstance(t.comparators[0], ast.Constant)
            and isinstance(t.comparators[0].value, float) and t.comparators[0].value > 0):
        raise Untranslatable("Atoms.are_planar: normal search test is not `np.linalg.norm(normal_vec) > eps`")
    eps = t.comparators[0].value
    bi = rng(loop_i, "i")
    if not (len(bi) == 1 and isinstance(bi[0], ast.If) and not bi[0].orelse
            and [ast.unparse(x) for x in strip_doc(bi[0].body)] == ["return False"]):
        raise Untranslatable("Atoms.are_planar: test loop body")
    tr.env["normal_vec"] = ("nv", "v")
    test_term, ty = tr.e(bi[0].test)
    if ty != "b":
        raise Untranslatable("Atoms.are_planar: test is not a comparison")
    if ast.unparse(s_ret) != "return True":
        raise Untranslatable("Atoms.are_planar: final return")
    return dict(nmin=nmin, normal=normal_term, normal_src=ast.unparse(bj[0].value), eps=eps,
                test=test_term, test_src=ast.unparse(bi[0].test))


# ------------------------------------------------------------------ mol_graphs.py / species.py
def parse_mol_graphs(src):
    tree = ast.parse(src)
    mg = find_def(tree, "make_graph")
    rel = default_of(mg, "rel_tolerance")
    if not (isinstance(rel, ast.Constant) and isinstance(rel.value, float)):
        raise Untranslatable("make_graph: rel_tolerance default")
    tests = []
    for node in ast.walk(mg):
        if isinstance(node, ast.Compare) and ast.unparse(node.left) == "dist_mat[i, j]":
            tests.append(node)
    if len(tests) != 1:
        raise Untranslatable("make_graph: the distance test `dist_mat[i, j] <op> ...` was not found exactly once")
    tr = Tr({"dist_mat[i, j]": ("d", "s"), "avg_bond_length": ("r0", "s"), "rel_tolerance": ("tol", "s")})
    term, ty = tr.e(tests[0])
    return float(rel.value), term, ast.unparse(tests[0])


def parse_species(src):
    tree = ast.parse(src)
    sp = find_class(tree, "Species")
    pl = value_literal(default_of(find_def(sp, "is_planar"), "tol"), ("val.Distance", "Distance"), ("Å", "ang"))
    li = value_literal(default_of(find_def(sp, "is_linear"), "angle_tol"), ("val.Angle", "Angle"),
                       ("degrees", "deg", "º", "°", "rad"))
    expect(norm_src(find_def(sp, "is_planar")), "return self.atoms.are_planar(distance_tol=tol)", "Species.is_planar")
    expect(norm_src(find_def(sp, "is_linear")),
           "if tol is not None:\n    angle_tol = val.Angle(np.arccos(1.0 - tol), units='rad')\n"
           "return self.atoms.are_linear(angle_tol=angle_tol)", "Species.is_linear")
    return pl, li


def parse_consts(csrc, usrc):
    ct = find_class(ast.parse(csrc), "Constants")
    vals = {}
    for st in ct.body:
        if isinstance(st, ast.Assign) and isinstance(st.value, ast.Constant) and isinstance(st.value.value, (int, float)):
            for t in st.targets:
                if isinstance(t, ast.Name):
                    vals[t.id] = float(st.value.value)
    for k in ("ang_to_pm", "rad_to_deg"):
        if k not in vals:
            raise Untranslatable(f"Constants.{k} is not a literal")
    ut = ast.parse(usrc)
    need = {"pm": "Unit(name='pm', times=Constants.ang_to_pm", "deg": "Unit(name='°', times=Constants.rad_to_deg",
            "ang": "BaseUnit(name='Å'", "rad": "BaseUnit(name='rad'"}
    for st in ut.body:
        if isinstance(st, ast.Assign) and len(st.targets) == 1 and isinstance(st.targets[0], ast.Name) \
                and st.targets[0].id in need:
            if not ast.unparse(st.value).startswith(need[st.targets[0].id]):
                raise Untranslatable(f"units.{st.targets[0].id} definition changed")
            need.pop(st.targets[0].id)
    if need:
        raise Untranslatable(f"units {sorted(need)} not found")
    return vals


def main():
    rd = lambda p: open(os.path.join(REPO, p)).read()
    asrc, gsrc, ssrc = rd("autode/atoms.py"), rd("autode/mol_graphs.py"), rd("autode/species/species.py")
    csrc, usrc = rd("autode/constants.py"), rd("autode/units.py")
    A = parse_atoms(asrc)
    rel, within_term, within_src = parse_mol_graphs(gsrc)
    (pl_tol, _), (li_val, li_unit) = parse_species(ssrc)
    K = parse_consts(csrc, usrc)
    # angle_tol.to('rad') as values._to computes it: x * (rad.times / deg.times)
    li_rad = li_val if li_unit in (None, "rad") else li_val * (1.0 / K["rad_to_deg"])
    lin_tol = abs(1.0 - math.cos(li_rad))
    lin_ct = 1.0 - lin_tol
    sha = hashlib.sha256((asrc + gsrc + ssrc).encode()).hexdigest()
    P = A["planar"]

    L = ["(* GENERATED by /verif/tr/translate_c03.py from autode/atoms.py, mol_graphs.py, species/species.py,",
         f"   constants.py, units.py - do not edit.  source sha256 = {sha} *)",
         "From Coq Require Import ZArith QArith Qcanon List String Bool.",
         "From AV.lib Require Import QcInst.", "From AV.C03 Require Import Vec.", "Import ListNotations.", "Open Scope Qc_scope.", ""]
    L.append("(* atoms.py: elements (index = atomic number - 1) *)")
    L.append("Definition elements : list string := [" + "; ".join(cstr(e) for e in A["elements"]) + "]%string.")
    L.append("(* atoms.py: metals, as element indexes *)")
    L.append("Definition metals : list nat := [" + "; ".join(str(m) for m in A["metals"]) + "]%nat.")
    L.append("(* atoms.py: _max_valances (element index, valence) in dict order *)")
    L.append("Definition max_valances : list (nat * nat) := [" + "; ".join(f"({k}, {v})" for k, v in A["maxval"]) + "]%nat.")
    L.append("(* Atom.maximal_valance: `if self.is_metal: return M` ... `return F` *)")
    L.append(f"Definition metal_valence : nat := {A['metal_v']}%nat.")
    L.append(f"Definition fallback_valence : nat := {A['fallback_v']}%nat.")
    L.append("(* atoms.py: _bond_lengths, every (i, j) with elements[i] ++ elements[j] = key (in Angstrom) *)")
    L.append("Definition bond_lengths : list (nat * nat * Qc) := [" +
             "; ".join(f"({a}%nat, {b}%nat, {q(v)})" for a, b, v in A["pairs"]) + "].")
    L.append("(* atoms.py: _covalent_radii_pm *)")
    L.append("Definition cov_radii_pm : list Qc := [" + "; ".join(q(x) for x in A["cov"]) + "].")
    L.append(f"(* constants.py: ang_to_pm (Distance(x, 'pm').to('Å') = x * (1 / ang_to_pm)) *)")
    L.append(f"Definition pm_per_ang : Qc := {q(K['ang_to_pm'])}.")
    L.append(f"(* mol_graphs.make_graph: rel_tolerance default; the bond test `{within_src}` *)")
    L.append(f"Definition rel_tolerance_default : Qc := {q(rel)}.")
    L.append(f"Definition within (d r0 tol : Qc) : bool := {within_term}.")
    L.append(f"(* Atoms.are_planar: normal_vec = `{P['normal_src']}` for the first j in range(2, n) with")
    L.append(f"   np.linalg.norm(normal_vec) > {P['eps']!r}; test for i in range(2, n): `{P['test_src']}` (x0 = arr[0]) *)")
    L.append(f"Definition planar_min_atoms : nat := {P['nmin']}%nat.")
    L.append(f"Definition planar_normal (p0 p1 pj : V3) : V3 := {P['normal']}.")
    L.append(f"Definition planar_normal_eps : Qc := {q(P['eps'])}.")
    L.append(f"Definition planar_off (tol : Qc) (nv p0 pi : V3) : bool := {P['test']}.")
    L.append(f"(* Species.is_planar default tol; Species.is_linear default angle_tol = {li_val} {li_unit};")
    L.append("   linear_cos_default = 1 - |1 - cos(angle_tol in rad)| in double precision *)")
    L.append(f"Definition planar_tol_default : Qc := {q(pl_tol)}.")
    L.append(f"Definition linear_cos_default : Qc := {q(lin_ct)}.")
    txt = "\n".join(L) + "\n"
    os.makedirs(os.path.dirname(OUT), exist_ok=True)
    old = open(OUT).read() if os.path.exists(OUT) else None
    if old != txt:
        _tmp = OUT + ".tmp%d" % os.getpid()
        with open(_tmp, "w") as f:
            f.write(txt)
        os.replace(_tmp, OUT)  # atomic: a concurrent coqc never sees a partial file
    return {"elements": len(A["elements"]), "metals": len(A["metals"]), "max_valances": len(A["maxval"]),
            "bond_lengths": len(A["pairs"]), "cov_radii": len(A["cov"]), "rel_tolerance": rel,
            "within": within_term, "planar_off": P["test"], "planar_normal": P["normal"], "planar_tol": pl_tol, "linear_cos": lin_ct, "sha256": sha}


if __name__ == "__main__":
    try:
        print("translated:", main())
    except Untranslatable as e:
        print("UNTRANSLATABLE:", e)
        sys.exit(3)
