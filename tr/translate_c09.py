#!/usr/bin/env python3
"""Fail-closed translator: autode/opt/optimisers/hessian_update.py (+ the update_h_from_old_h loop of
autode/opt/coordinates/base.py) -> coq/gen/C09_Gen.v

Only the Python `ast` is read; nothing from the repository is imported or executed.

For every concrete HessianUpdater subclass C and every method m in {_updated_h, _updated_h_inv,
conditions_met} (resolved along C's inheritance chain, `self._updated_h` / `super().m` resolved in the
context of C) the body is translated statement by statement into a Gallina term over the vocabulary
of coq/lib/Sums.v specialised to an environment E : fenv (coq/C09/Model.v):

    C_m            E n h h_inv s y [extra ctor params]         the value (matrix / bool)
    C_m_denoms     ...  : list (fF E)      every divisor evaluated on the path taken, in order
    C_m__<var>     ...                      every local variable (e.g. the Powell-damped y_, theta,
                                            Bofill's phi_bofill, G_i_MS, G_i_PSB, the flowchart criteria)

plus _ensure_hermitian, _matrix_in_full_space (enumerate loops -> fold_enum / mupd) and the
reductions of _apply_subspace (m[:, idxs][idxs, :] -> msel_rows idxs (msel_cols idxs m), v[idxs] -> vsel).
The control flow of __init__/updated_h/updated_h_inv and of update_h_from_old_h is hand-modelled in
Model.v; its source text is pinned here (any change -> UNTRANSLATABLE).

Shapes (scalar S, vector V, matrix M, column C, row R, bool B) are inferred; decimal literals are
emitted as the exact decimal written in the source (0.2 -> cst E 1 5).  Any statement, expression,
call, attribute or shape combination outside the vocabulary aborts with exit code 3.
"""
import ast
import hashlib
import os
import sys
from fractions import Fraction

REPO = os.environ.get("VERIF_REPO", "/repo")
OUT = "/verif/coq/gen/C09_Gen.v"
SRC_REL = "autode/opt/optimisers/hessian_update.py"
BASE_REL = "autode/opt/coordinates/base.py"

EXPECTED_CLASSES = ["BFGSUpdate", "BFGSPDUpdate", "BFGSDampedUpdate", "SR1Update", "NullUpdate",
                    "BofillUpdate", "FlowchartUpdate", "BFGSSR1Update"]
METHODS = ["_updated_h", "_updated_h_inv", "conditions_met"]
COQ_RESERVED = {"if", "then", "else", "let", "in", "fun", "match", "with", "end", "forall", "exists",
                "Type", "Prop", "Set", "fix", "cofix", "return", "as", "at", "where", "struct",
                "n", "E", "h", "h_inv", "s", "y"}


class Untranslatable(Exception):
    pass


def bail(node, msg):
    line = getattr(node, "lineno", "?")
    raise Untranslatable(f"{SRC_REL}:{line}: {msg}")


class Val:
    """A translated expression: Coq term, shape, divisors evaluated (Coq terms of type fF E)."""
    __slots__ = ("t", "sh", "dens", "eig")

    def __init__(self, t, sh, dens=(), eig=None):
        self.t, self.sh, self.dens, self.eig = t, sh, list(dens), eig


def lit(frac):
    return f"(cst E ({frac.numerator})%Z {frac.denominator}%positive)"


class Translator:
    def __init__(self, src):
        self.src = src
        self.tree = ast.parse(src)
        self.classes = {n.name: n for n in self.tree.body if isinstance(n, ast.ClassDef)}
        self.funcs = {n.name: n for n in self.tree.body if isinstance(n, ast.FunctionDef)}
        self.emitted = {}        # (C, m) -> shape
        self.out = []
        self.extras = {}         # class -> [(param, default Fraction)]
        self.locals_emitted = []

    # ------------------------------------------------------------------ class structure
    def chain(self, cname):
        """Linear inheritance chain [C, parent, ..., HessianUpdater]."""
        out = [cname]
        while True:
            c = self.classes[out[-1]]
            bases = [b.id for b in c.bases if isinstance(b, ast.Name)]
            if len(bases) != len(c.bases) or len(bases) != 1:
                bail(c, f"class {c.name}: bases {ast.unparse(c)[:60]!r} not a single plain name")
            if bases[0] == "ABC":
                if out[-1] != "HessianUpdater":
                    bail(c, f"class {c.name} derives from ABC directly")
                return out
            if bases[0] not in self.classes:
                bail(c, f"class {c.name}: unknown base {bases[0]}")
            out.append(bases[0])

    def method(self, cname, mname):
        for st in self.classes[cname].body:
            if isinstance(st, ast.FunctionDef) and st.name == mname:
                return st
        return None

    def find_def(self, cname, mname, after=None):
        """(defining class, FunctionDef) of mname for an instance of cname; `after`: super() of that class."""
        ch = self.chain(cname)
        if after is not None:
            ch = ch[ch.index(after) + 1:]
        for k in ch:
            f = self.method(k, mname)
            if f is not None:
                if any(isinstance(d, ast.Name) and d.id == "abstractmethod" for d in f.decorator_list):
                    return None, None
                return k, f
        return None, None

    def class_attr(self, cname, attr):
        for k in self.chain(cname):
            for st in self.classes[k].body:
                if isinstance(st, ast.Assign) and len(st.targets) == 1 and isinstance(st.targets[0], ast.Name) \
                        and st.targets[0].id == attr:
                    return st.value
        return None

    def ctor_extras(self, cname):
        """Extra constructor parameters stored on self (BFGSPDUpdate.min_eigenvalue)."""
        if cname in self.extras:
            return self.extras[cname]
        ex = []
        for k in reversed(self.chain(cname)):
            f = self.method(k, "__init__")
            if f is None or k == "HessianUpdater":
                continue
            a = f.args
            if a.vararg or a.kwonlyargs or a.posonlyargs or a.kwarg is None or a.kwarg.arg != "kwargs":
                bail(f, f"{k}.__init__ signature")
            names = [x.arg for x in a.args]
            if names[0] != "self" or len(a.defaults) != len(names) - 1:
                bail(f, f"{k}.__init__ parameters need defaults")
            body = [st for st in f.body if not self.is_doc(st)]
            want = ["super().__init__(**kwargs)"] + [f"self.{p} = {p}" for p in names[1:]]
            got = [ast.unparse(st) for st in body]
            if got != want:
                bail(f, f"{k}.__init__ body {got} is not {want}")
            for p, d in zip(names[1:], a.defaults):
                ex.append((p, self.literal(d)))
        self.extras[cname] = ex
        return ex

    # ------------------------------------------------------------------ helpers
    @staticmethod
    def is_doc(st):
        return isinstance(st, ast.Expr) and isinstance(st.value, ast.Constant) and isinstance(st.value.value, str)

    @staticmethod
    def is_logger(st):
        return (isinstance(st, ast.Expr) and isinstance(st.value, ast.Call)
                and isinstance(st.value.func, ast.Attribute) and isinstance(st.value.func.value, ast.Name)
                and st.value.func.value.id == "logger" and st.value.func.attr in ("info", "warning", "debug"))

    def literal(self, node):
        """Exact decimal value of a numeric literal as written in the source."""
        neg = False
        if isinstance(node, ast.UnaryOp) and isinstance(node.op, ast.USub):
            neg, node = True, node.operand
        if not (isinstance(node, ast.Constant) and isinstance(node.value, (int, float))
                and not isinstance(node.value, bool)):
            bail(node, f"not a numeric literal: {ast.unparse(node)}")
        seg = ast.get_source_segment(self.src, node)
        try:
            f = Fraction(seg.replace("_", ""))
        except Exception:
            bail(node, f"literal {seg!r}")
        if float(f) != float(node.value):
            bail(node, f"literal {seg!r} does not denote {node.value!r}")
        return -f if neg else f

    @staticmethod
    def ident(name):
        if not name.isidentifier() or not name.isascii():
            raise Untranslatable(f"identifier {name!r}")
        return name + "_" if name in COQ_RESERVED or name.endswith("_") else name

    # ------------------------------------------------------------------ expressions
    def prod(self, node, a, b):
        """numpy dot/matmul product of two translated values."""
        d = a.dens + b.dens
        k = (a.sh, b.sh)
        if k == ("M", "V"):
            return Val(f"(Matvec E n {a.t} {b.t})", "V", d)
        if k == ("V", "M"):
            return Val(f"(Vecmat E n {a.t} {b.t})", "V", d)
        if k == ("V", "V"):
            return Val(f"(Dot E n {a.t} {b.t})", "S", d)
        if k == ("M", "M"):
            return Val(f"(Matmul E n {a.t} {b.t})", "M", d)
        if k == ("M", "C"):
            return Val(f"(Matvec E n {a.t} {b.t})", "C", d)
        if k == ("C", "R"):
            return Val(f"(Outer E {a.t} {b.t})", "M", d)
        if k == ("R", "M"):
            return Val(f"(Vecmat E n {a.t} {b.t})", "R", d)
        if k == ("R", "C") or k == ("R", "V") or k == ("V", "C"):
            return Val(f"(Dot E n {a.t} {b.t})", "S", d)
        bail(node, f"product of shapes {k}: {ast.unparse(node)}")

    def np_call(self, node, fname, ctx):
        args = node.args
        if node.keywords:
            bail(node, f"keyword arguments in {ast.unparse(node)}")
        if fname in ("np.dot", "np.matmul"):
            if len(args) != 2:
                bail(node, "arity")
            return self.prod(node, self.expr(args[0], ctx), self.expr(args[1], ctx))
        if fname == "np.outer":
            if len(args) != 2:
                bail(node, "arity")
            a, b = self.expr(args[0], ctx), self.expr(args[1], ctx)
            if (a.sh, b.sh) != ("V", "V"):
                bail(node, f"np.outer of shapes {(a.sh, b.sh)}")
            return Val(f"(Outer E {a.t} {b.t})", "M", a.dens + b.dens)
        if fname == "np.linalg.multi_dot":
            if len(args) != 1 or not isinstance(args[0], (ast.Tuple, ast.List)) or len(args[0].elts) < 2:
                bail(node, "multi_dot argument")
            vals = [self.expr(e, ctx) for e in args[0].elts]
            acc = vals[0]
            for v in vals[1:]:           # exact arithmetic is associative: left fold
                acc = self.prod(node, acc, v)
            return acc
        if fname == "np.linalg.norm":
            if len(args) != 1:
                bail(node, "arity")
            a = self.expr(args[0], ctx)
            if a.sh != "V":
                bail(node, f"norm of shape {a.sh}")
            return Val(f"(vnorm E n {a.t})", "S", a.dens)
        if fname in ("np.sqrt", "np.abs"):
            if len(args) != 1:
                bail(node, "arity")
            a = self.expr(args[0], ctx)
            if a.sh != "S":
                bail(node, f"{fname} of shape {a.sh}")
            return Val(f"({'fsqrt' if fname == 'np.sqrt' else 'fabs'} E {a.t})", "S", a.dens)
        if fname == "np.linalg.inv":
            if len(args) != 1:
                bail(node, "arity")
            a = self.expr(args[0], ctx)
            if a.sh != "M":
                bail(node, f"inv of shape {a.sh}")
            return Val(f"(fminv E n {a.t})", "M", a.dens)
        if fname == "np.linalg.eigvals":
            if len(args) != 1:
                bail(node, "arity")
            a = self.expr(args[0], ctx)
            if a.sh != "M":
                bail(node, f"eigvals of shape {a.sh}")
            return Val(a.t, "EIG", a.dens)
        if fname == "np.all":
            if len(args) != 1:
                bail(node, "arity")
            a = self.expr(args[0], ctx)
            if a.sh != "EIGGT":
                bail(node, f"np.all of {ast.unparse(args[0])}")
            return Val(f"(feig_all_gt E n {a.t} {a.eig})", "B", a.dens)
        bail(node, f"call {fname}")

    def self_attr(self, node, attr, ctx):
        C = ctx["cls"]
        if attr in ("h", "h_inv"):
            return Val(ctx["self"][attr], "M")
        if attr in ("s", "y"):
            return Val(ctx["self"][attr], "V")
        if attr in [p for p, _ in self.ctor_extras(C)]:
            return Val(self.ident(attr), "S")
        if attr in METHODS:
            if attr == "conditions_met" or (C, attr) not in self.emitted:
                self.emit_method(C, attr)
            sh = self.emitted[(C, attr)]
            call = self.call_of(C, attr)
            return Val(f"({call})", sh, [f"DENS:({self.call_of(C, attr, '_denoms')})"])
        ca = self.class_attr(C, attr)
        if ca is not None:
            return Val(lit(self.literal(ca)), "S")
        bail(node, f"self.{attr}")

    def expr(self, node, ctx):
        env = ctx["env"]
        if isinstance(node, ast.Constant) or (isinstance(node, ast.UnaryOp) and isinstance(node.op, ast.USub)
                                              and isinstance(node.operand, ast.Constant)):
            if isinstance(node, ast.Constant) and isinstance(node.value, bool):
                return Val("true" if node.value else "false", "B")
            return Val(lit(self.literal(node)), "S")
        if isinstance(node, ast.UnaryOp) and isinstance(node.op, ast.USub):
            a = self.expr(node.operand, ctx)
            f = {"S": "fopp E", "V": "Vneg E", "M": "Mneg E"}.get(a.sh) or bail(node, "negation shape")
            return Val(f"({f} {a.t})", a.sh, a.dens)
        if isinstance(node, ast.Name):
            if node.id in env:
                return Val(env[node.id][0], env[node.id][1])
            bail(node, f"unknown name {node.id}")
        if isinstance(node, ast.Attribute):
            if isinstance(node.value, ast.Name) and node.value.id == "self":
                return self.self_attr(node, node.attr, ctx)
            if node.attr == "T":
                a = self.expr(node.value, ctx)
                if a.sh == "V":
                    return a                      # 1-D arrays are their own transpose
                if a.sh == "M":
                    return Val(f"(Transpose E {a.t})", "M", a.dens)
                bail(node, f".T of shape {a.sh}")
            if isinstance(node.value, ast.Call) and ast.unparse(node.value) == "super()" and node.attr in METHODS:
                k, f = self.find_def(ctx["cls"], node.attr, after=ctx["defcls"])
                if f is None:
                    bail(node, f"super().{node.attr} not found")
                t, sh, dens = self.body_term(ctx["cls"], k, f, node.attr, dict(ctx["self"]))
                return Val(f"({t})", sh, [f"DENS:({dens})"])
            bail(node, f"attribute {ast.unparse(node)}")
        if isinstance(node, ast.Call):
            fn = node.func
            fname = ast.unparse(fn)
            if fname.startswith("np."):
                return self.np_call(node, fname, ctx)
            if isinstance(fn, ast.Attribute) and not node.keywords:
                if fn.attr == "dot" and len(node.args) == 1:
                    return self.prod(node, self.expr(fn.value, ctx), self.expr(node.args[0], ctx))
                if fn.attr == "copy" and not node.args:
                    return self.expr(fn.value, ctx)
                if fn.attr == "flatten" and not node.args:
                    a = self.expr(fn.value, ctx)
                    if a.sh != "V":
                        bail(node, f"flatten of shape {a.sh}")
                    return a
                if fn.attr == "reshape" and len(node.args) == 2:
                    a = self.expr(fn.value, ctx)
                    dims = [ast.unparse(x) for x in node.args]
                    if a.sh == "V" and dims == ["-1", "1"]:
                        return Val(a.t, "C", a.dens)
                    if a.sh == "V" and dims == ["1", "-1"]:
                        return Val(a.t, "R", a.dens)
                    bail(node, f"reshape{dims} of shape {a.sh}")
            if isinstance(fn, ast.Name) and fn.id == "_ensure_hermitian" and len(node.args) == 1 and not node.keywords:
                a = self.expr(node.args[0], ctx)
                if a.sh != "M":
                    bail(node, "_ensure_hermitian of non-matrix")
                return Val(f"(ensure_hermitian E {a.t})", "M", a.dens)
            bail(node, f"call {fname}")
        if isinstance(node, ast.BinOp):
            a, b = self.expr(node.left, ctx), self.expr(node.right, ctx)
            d = a.dens + b.dens
            k = (a.sh, b.sh)
            op = type(node.op)
            if op in (ast.Add, ast.Sub):
                nm = "add" if op is ast.Add else "sub"
                if k == ("S", "S"):
                    return Val(f"(f{nm} E {a.t} {b.t})", "S", d)
                if k == ("V", "V"):
                    return Val(f"(V{nm} E {a.t} {b.t})", "V", d)
                if k == ("M", "M"):
                    return Val(f"(M{nm} E {a.t} {b.t})", "M", d)
            if op is ast.Mult:
                if k == ("S", "S"):
                    return Val(f"(fmul E {a.t} {b.t})", "S", d)
                if k == ("S", "V"):
                    return Val(f"(Vscal E {a.t} {b.t})", "V", d)
                if k == ("S", "M"):
                    return Val(f"(Mscal E {a.t} {b.t})", "M", d)
                if k == ("V", "S"):
                    return Val(f"(Vscal E {b.t} {a.t})", "V", d)
                if k == ("M", "S"):
                    return Val(f"(Mscal E {b.t} {a.t})", "M", d)
            if op is ast.Div:
                if k == ("S", "S"):
                    return Val(f"(fdiv E {a.t} {b.t})", "S", d + [b.t])
                if k == ("V", "S"):
                    return Val(f"(Vdivs E {a.t} {b.t})", "V", d + [b.t])
                if k == ("M", "S"):
                    return Val(f"(Mdivs E {a.t} {b.t})", "M", d + [b.t])
            if op is ast.Pow:
                if a.sh == "S" and isinstance(node.right, ast.Constant) and node.right.value == 2 \
                        and isinstance(node.right.value, int):
                    return Val(f"(fsq E {a.t})", "S", a.dens)
            bail(node, f"operator {op.__name__} on shapes {k}: {ast.unparse(node)}")
        if isinstance(node, ast.Compare):
            if len(node.ops) != 1:
                bail(node, "chained comparison")
            a, b = self.expr(node.left, ctx), self.expr(node.comparators[0], ctx)
            d = a.dens + b.dens
            op = type(node.ops[0])
            if (a.sh, b.sh) == ("S", "S"):
                if op is ast.Lt:
                    return Val(f"(fltb E {a.t} {b.t})", "B", d)
                if op is ast.Gt:
                    return Val(f"(fltb E {b.t} {a.t})", "B", d)
                # a <= b is (not b < a) for ordered (non-NaN) values; the model has no NaN
                if op is ast.LtE:
                    return Val(f"(negb (fltb E {b.t} {a.t}))", "B", d)
                if op is ast.GtE:
                    return Val(f"(negb (fltb E {a.t} {b.t}))", "B", d)
            if (a.sh, b.sh) == ("EIG", "S") and op is ast.Gt:
                return Val(a.t, "EIGGT", d, eig=b.t)
            bail(node, f"comparison {ast.unparse(node)} on shapes {(a.sh, b.sh)}")
        if isinstance(node, ast.BoolOp) and isinstance(node.op, ast.And):
            vals = [self.expr(v, ctx) for v in node.values]
            if any(v.sh != "B" for v in vals):
                bail(node, "`and` of non-booleans")
            t = vals[0].t
            for v in vals[1:]:
                t = f"(andb {t} {v.t})"
            return Val(t, "B", [x for v in vals for x in v.dens])
        bail(node, f"expression {type(node).__name__}: {ast.unparse(node)[:80]}")

    # ------------------------------------------------------------------ statements
    @staticmethod
    def dens_term(dens):
        """Coq term of type list (fF E) from divisor strings / nested DENS:(list term) markers."""
        parts, cur = [], []
        for d in dens:
            if d.startswith("DENS:"):
                if cur:
                    parts.append("[" + "; ".join(cur) + "]")
                    cur = []
                parts.append(d[5:])
            else:
                cur.append(d)
        if cur or not parts:
            parts.append("[" + "; ".join(cur) + "]")
        return " ++ ".join(parts)

    # h-from-inverse fallbacks (SR1.conditions_met, BFGSDampedUpdate._updated_h_inv): outside the model, h is given
    SR1_FALLBACK = ("self.h_inv is not None and self.h is None", "self.h is None")

    def block(self, stmts, ctx, prefix, want):
        """-> (value term, shape, denoms term).  `prefix`: function wrapping a term in the enclosing lets
        (for the per-variable definitions).  `want`: 'value'."""
        stmts = [st for st in stmts if not self.is_doc(st) and not self.is_logger(st)]
        if not stmts:
            raise Untranslatable(f"{ctx['cls']}.{ctx['mname']}: a path falls off the end without return")
        st, rest = stmts[0], stmts[1:]
        if isinstance(st, ast.Return):
            if rest:
                bail(rest[0], "statement after return")
            if st.value is None:
                bail(st, "bare return")
            v = self.expr(st.value, ctx)
            return v.t, v.sh, self.dens_term(v.dens)
        if isinstance(st, (ast.Assign, ast.AugAssign)):
            if isinstance(st, ast.Assign):
                if len(st.targets) != 1:
                    bail(st, "multiple assignment targets")
                tgt = st.targets[0]
                if isinstance(tgt, ast.Tuple):
                    if not isinstance(st.value, ast.Tuple) or len(tgt.elts) != len(st.value.elts):
                        bail(st, "tuple assignment")
                    pairs = list(zip(tgt.elts, st.value.elts))
                else:
                    pairs = [(tgt, st.value)]
                # tuple assignment evaluates all right-hand sides first
                vals = [(t, self.expr(v, ctx)) for t, v in pairs]
            else:
                cur = ast.BinOp(left=ast.Name(id=ast.unparse(st.target), ctx=ast.Load()), op=st.op, right=st.value)
                ast.copy_location(cur, st)
                ast.fix_missing_locations(cur)
                if not isinstance(st.target, ast.Name):
                    bail(st, "augmented assignment target")
                vals = [(st.target, self.expr(cur, ctx))]
            lets, dens = [], []
            new_ctx = dict(ctx, env=dict(ctx["env"]))
            for tgt, v in vals:
                if not isinstance(tgt, ast.Name):
                    bail(st, f"assignment target {ast.unparse(tgt)}")
                if v.sh in ("EIG", "EIGGT"):
                    # eigenvalue arrays stay symbolic (oracle): bind the matrix
                    nm = self.ident(tgt.id)
                    lets.append((nm, v.t))
                    new_ctx["env"][tgt.id] = (nm, v.sh)
                    dens += v.dens
                    continue
                if v.sh not in ("S", "V", "M", "B"):
                    bail(st, f"cannot bind a value of shape {v.sh}")
                nm = self.ident(tgt.id)
                lets.append((nm, v.t))
                new_ctx["env"][tgt.id] = (nm, v.sh)
                dens += v.dens

            def wrap(term, lets=lets):
                for nm, t in reversed(lets):
                    term = f"let {nm} := {t} in\n  {term}"
                return term
            for (tgt, _), (nm, _) in zip(vals, lets):
                self.local_def(ctx, nm, new_ctx["env"], prefix, wrap, tgt.id)
            t, sh, dn = self.block(rest, new_ctx, lambda x: prefix(wrap(x)), want)
            return wrap(t), sh, wrap(f"({self.dens_term(dens)}) ++ ({dn})" if dens else dn)
        if isinstance(st, ast.If):
            test_src = ast.unparse(st.test)
            if test_src in self.SR1_FALLBACK:
                body = [x for x in st.body if not self.is_logger(x)]
                if st.orelse or [ast.unparse(x) for x in body] != ["self.h = np.linalg.inv(self.h_inv)"]:
                    bail(st, "h-from-inverse fallback changed")
                ctx["notes"].append("h-from-inverse fallback (h is None) outside the model: h is always given")
                return self.block(rest, ctx, prefix, want)
            c = self.expr(st.test, ctx)
            if c.sh != "B":
                bail(st, f"if-test of shape {c.sh}")
            body_returns = self.returns(st.body)
            else_returns = self.returns(st.orelse) if st.orelse else False
            cd = self.dens_term(c.dens)
            if body_returns and (else_returns or not st.orelse):
                t1, sh1, d1 = self.block(st.body, dict(ctx, env=dict(ctx["env"])), prefix, want)
                tail = st.orelse if st.orelse else rest
                if st.orelse and rest:
                    bail(rest[0], "unreachable statement after if/else that both return")
                t2, sh2, d2 = self.block(tail, dict(ctx, env=dict(ctx["env"])), prefix, want)
                if sh1 != sh2:
                    bail(st, f"branches return different shapes {sh1}/{sh2}")
                return (f"if {c.t}\n  then ({t1})\n  else ({t2})", sh1,
                        f"({cd}) ++ (if {c.t} then ({d1}) else ({d2}))")
            if not body_returns and not else_returns and st.orelse:
                # both branches only assign the same single name:  x = a  /  x = b
                def single(b):
                    b = [x for x in b if not self.is_doc(x) and not self.is_logger(x)]
                    if len(b) == 1 and isinstance(b[0], ast.Assign) and len(b[0].targets) == 1 \
                            and isinstance(b[0].targets[0], ast.Name):
                        return b[0].targets[0].id, b[0].value
                    return None
                a, b = single(st.body), single(st.orelse)
                if a and b and a[0] == b[0]:
                    va, vb = self.expr(a[1], ctx), self.expr(b[1], ctx)
                    if va.sh != vb.sh or va.sh not in ("S", "V", "M"):
                        bail(st, "conditional assignment shapes")
                    nm = self.ident(a[0])
                    new_ctx = dict(ctx, env=dict(ctx["env"]))
                    new_ctx["env"][a[0]] = (nm, va.sh)
                    val = f"(if {c.t} then {va.t} else {vb.t})"
                    dens = f"({cd}) ++ (if {c.t} then ({self.dens_term(va.dens)}) else ({self.dens_term(vb.dens)}))"

                    def wrap(term, nm=nm, val=val):
                        return f"let {nm} := {val} in\n  {term}"
                    self.local_def(ctx, nm, new_ctx["env"], prefix, wrap, a[0])
                    t, sh, dn = self.block(rest, new_ctx, lambda x: prefix(wrap(x)), want)
                    return wrap(t), sh, wrap(f"({dens}) ++ ({dn})")
            bail(st, f"if-statement form not understood: if {test_src}: ...")
        bail(st, f"statement {type(st).__name__}: {ast.unparse(st)[:80]}")

    def returns(self, stmts):
        """every path through stmts ends in return"""
        stmts = [st for st in stmts if not self.is_doc(st) and not self.is_logger(st)]
        if not stmts:
            return False
        last = stmts[-1]
        if isinstance(last, ast.Return):
            return True
        if isinstance(last, ast.If) and last.orelse:
            return self.returns(last.body) and self.returns(last.orelse)
        return False

    # ------------------------------------------------------------------ definitions
    def params(self, C):
        ex = "".join(f" ({self.ident(p)} : fF E)" for p, _ in self.ctor_extras(C))
        return f"(n : nat) (h h_inv : Mat E) (s y : Vec E){ex}"

    def call_of(self, C, m, suffix=""):
        ex = "".join(f" {self.ident(p)}" for p, _ in self.ctor_extras(C))
        # inside the generated Section the definitions are not yet generalised over E
        return f"{C}{m if m.startswith('_') else '_' + m}{suffix} n h h_inv s y{ex}"

    @staticmethod
    def defname(C, m):
        return f"{C}{m if m.startswith('_') else '_' + m}"

    def local_def(self, ctx, nm, env, prefix, wrap, pyname):
        if ctx.get("inline"):
            return
        sh = [v[1] for v in env.values() if v[0] == nm][0]
        ty = {"S": "fF E", "V": "Vec E", "M": "Mat E", "B": "bool", "EIG": "Mat E", "EIGGT": "Mat E"}[sh]
        name = f"{self.defname(ctx['cls'], ctx['mname'])}__{pyname}"
        if name in self.locals_emitted:
            k = 2
            while f"{name}_{k}" in self.locals_emitted:
                k += 1
            name = f"{name}_{k}"
        self.locals_emitted.append(name)
        ctx["locals"].append(f"Definition {name} {self.params(ctx['cls'])} : {ty} :=\n  {prefix(wrap(nm))}.\n")

    def body_term(self, C, defcls, fdef, mname, selfmap, inline=True, locals_out=None, notes=None):
        if [a.arg for a in fdef.args.args] != ["self"] or fdef.args.vararg or fdef.args.kwarg:
            bail(fdef, f"{defcls}.{mname} signature")
        if not any(isinstance(d, ast.Name) and d.id == "property" for d in fdef.decorator_list):
            bail(fdef, f"{defcls}.{mname} is not a property")
        ctx = {"cls": C, "defcls": defcls, "mname": mname, "env": {}, "self": selfmap, "inline": inline,
               "locals": locals_out if locals_out is not None else [], "notes": notes if notes is not None else []}
        return self.block(fdef.body, ctx, lambda x: x, "value")

    def emit_method(self, C, mname):
        if (C, mname) in self.emitted:
            return
        defcls, fdef = self.find_def(C, mname)
        if fdef is None:
            raise Untranslatable(f"{C}.{mname} not defined")
        locs, notes = [], []
        t, sh, dens = self.body_term(C, defcls, fdef, mname, {"h": "h", "h_inv": "h_inv", "s": "s", "y": "y"},
                                     inline=False, locals_out=locs, notes=notes)
        want = "B" if mname == "conditions_met" else "M"
        if sh != want:
            bail(fdef, f"{C}.{mname} returns shape {sh}, expected {want}")
        ty = "bool" if want == "B" else "Mat E"
        name = self.defname(C, mname)
        seg = ast.get_source_segment(self.src, fdef)
        sha = hashlib.sha256(seg.encode()).hexdigest()[:16]
        self.out.append(f"(* {C}.{mname}: body of {defcls}.{mname}, {SRC_REL}:{fdef.lineno}-{fdef.end_lineno}, "
                        f"sha256 {sha}" + "".join(f"; NOTE {x}" for x in notes) + " *)")
        self.out.append(f"Definition {name} {self.params(C)} : {ty} :=\n  {t}.\n")
        self.out.append(f"Definition {name}_denoms {self.params(C)} : list (fF E) :=\n  {dens}.\n")
        self.out.extend(locs)
        self.emitted[(C, mname)] = sh

    # ------------------------------------------------------------------ base class plumbing
    def ensure_hermitian(self):
        f = self.funcs.get("_ensure_hermitian")
        if f is None or [a.arg for a in f.args.args] != ["matrix"]:
            raise Untranslatable("_ensure_hermitian(matrix) not found")
        ctx = {"cls": "HessianUpdater", "defcls": "HessianUpdater", "mname": "_ensure_hermitian",
               "env": {"matrix": ("matrix", "M")}, "self": {}, "inline": True, "locals": [], "notes": []}
        t, sh, dens = self.block(f.body, ctx, lambda x: x, "value")
        if sh != "M":
            bail(f, "_ensure_hermitian: does not return a matrix")
        self.out.append(f"(* _ensure_hermitian, {SRC_REL}:{f.lineno}-{f.end_lineno} *)")
        self.out.append(f"Definition ensure_hermitian (matrix : Mat E) : Mat E :=\n  {t}.\n")

    def matrix_in_full_space(self):
        f = self.method("HessianUpdater", "_matrix_in_full_space")
        if f is None or [a.arg for a in f.args.args] != ["self", "m", "m_sub"]:
            raise Untranslatable("_matrix_in_full_space(self, m, m_sub) not found")
        body = [st for st in f.body if not self.is_doc(st)]
        if len(body) != 3 or ast.unparse(body[0]) != "assert self.subspace_idxs is not None":
            bail(f, "_matrix_in_full_space: statement structure")

        def enum_loop(st):
            if not (isinstance(st, ast.For) and not st.orelse and isinstance(st.target, ast.Tuple)
                    and len(st.target.elts) == 2 and all(isinstance(e, ast.Name) for e in st.target.elts)
                    and ast.unparse(st.iter) == "enumerate(self.subspace_idxs)" and len(st.body) == 1):
                bail(st, "expected `for k, idx in enumerate(self.subspace_idxs):` with a single statement")
            return st.target.elts[0].id, st.target.elts[1].id, st.body[0]
        i, idx_i, inner = enum_loop(body[1])
        j, idx_j, asg = enum_loop(inner)
        names = {i, idx_i, j, idx_j}
        if len(names) != 4:
            bail(body[1], "loop variables not distinct")

        def index_pair(node, arr):
            if not (isinstance(node, ast.Subscript) and isinstance(node.value, ast.Name) and node.value.id == arr
                    and isinstance(node.slice, ast.Tuple) and len(node.slice.elts) == 2
                    and all(isinstance(e, ast.Name) and e.id in names for e in node.slice.elts)):
                bail(node, f"expected {arr}[a, b] over the loop variables")
            return [self.ident(e.id) for e in node.slice.elts]
        if not (isinstance(asg, ast.Assign) and len(asg.targets) == 1):
            bail(asg, "loop body is not a single item assignment")
        r, c = index_pair(asg.targets[0], "m")
        a, b = index_pair(asg.value, "m_sub")
        if ast.unparse(body[2]) != "return _ensure_hermitian(m)":
            bail(body[2], "_matrix_in_full_space: return")
        i, idx_i, j, idx_j = (self.ident(x) for x in (i, idx_i, j, idx_j))
        self.out.append(f"(* HessianUpdater._matrix_in_full_space, {SRC_REL}:{f.lineno}-{f.end_lineno} *)")
        self.out.append(
            "Definition matrix_in_full_space (idxs : list nat) (m m_sub : Mat E) : Mat E :=\n"
            f"  let m := fold_enum idxs (fun {i} {idx_i} m =>\n"
            f"             fold_enum idxs (fun {j} {idx_j} m => mupd m {r} {c} (m_sub {a} {b})) m) m in\n"
            "  ensure_hermitian m.\n")

    def apply_subspace(self):
        """Symbolic execution of _apply_subspace for subspace_idxs = idxs (non-empty)."""
        f = self.method("HessianUpdater", "_apply_subspace")
        if f is None or [a.arg for a in f.args.args] != ["self"]:
            raise Untranslatable("_apply_subspace(self) not found")
        state = {"h": "m", "h_inv": "m", "s": "v", "y": "v"}      # attr -> kind of the stored object
        result = {}                                                  # attr -> coq term in `x`
        idx_name = None
        for st in [x for x in f.body if not self.is_doc(x) and not self.is_logger(x)]:
            src = ast.unparse(st)
            if isinstance(st, ast.Assign) and src.endswith("= self.subspace_idxs") and isinstance(st.targets[0], ast.Name):
                idx_name = st.targets[0].id
                continue
            if isinstance(st, ast.If) and not st.orelse:
                t = ast.unparse(st.test)
                if t == f"{idx_name} is None" and ast.unparse(st.body[0]).startswith("return"):
                    continue                                         # no subspace: nothing reduced
                if t == f"len({idx_name}) == 0" and isinstance(st.body[0], ast.Raise):
                    continue                                         # empty subspace is an error
                bail(st, f"_apply_subspace: guard `{t}`")
            if isinstance(st, ast.Return) and (st.value is None or ast.unparse(st.value) == "None"):
                continue
            if isinstance(st, ast.For) and not st.orelse and isinstance(st.target, ast.Name) \
                    and isinstance(st.iter, ast.Tuple) and all(isinstance(e, ast.Constant) and isinstance(e.value, str)
                                                               for e in st.iter.elts):
                var = st.target.id
                for attr in [e.value for e in st.iter.elts]:
                    if attr not in state:
                        bail(st, f"_apply_subspace: attribute {attr!r}")
                    local = {}
                    for b in st.body:
                        bs = ast.unparse(b)
                        if isinstance(b, ast.Assign) and bs.endswith(f"= getattr(self, {var})") \
                                and isinstance(b.targets[0], ast.Name):
                            local[b.targets[0].id] = state[attr]
                            continue
                        if isinstance(b, ast.Expr) and isinstance(b.value, ast.Call) and ast.unparse(b.value.func) == "setattr" \
                                and len(b.value.args) == 3 and ast.unparse(b.value.args[0]) == "self":
                            nm, val = b.value.args[1], b.value.args[2]
                            if isinstance(nm, ast.Name) and nm.id == var:
                                tgt = attr
                            elif isinstance(nm, ast.JoinedStr):
                                tgt = ""
                                for part in nm.values:
                                    if isinstance(part, ast.Constant):
                                        tgt += part.value
                                    elif isinstance(part, ast.FormattedValue) and isinstance(part.value, ast.Name) \
                                            and part.value.id == var and part.conversion == -1 and part.format_spec is None:
                                        tgt += attr
                                    else:
                                        bail(b, "setattr name")
                            else:
                                bail(b, "setattr name")
                            if not (isinstance(val, ast.IfExp) and isinstance(val.body, ast.Constant) and val.body.value is None
                                    and isinstance(val.test, ast.Compare) and ast.unparse(val.test) in
                                    [f"{k} is None" for k in local]):
                                bail(b, "setattr value is not `None if x is None else <expr>`")
                            x = ast.unparse(val.test).split()[0]
                            e = val.orelse
                            es = ast.unparse(e)
                            if es in (f"{x}.copy()", f"np.array({x}, dtype=float)"):
                                term = "x"        # a (float) copy: the model has no dtype
                            elif local[x] == "m" and es == f"{x}[:, {idx_name}][{idx_name}, :]":
                                term = "msel_rows idxs (msel_cols idxs x)"
                            elif local[x] == "m" and es == f"{x}[{idx_name}, :][:, {idx_name}]":
                                term = "msel_cols idxs (msel_rows idxs x)"
                            elif local[x] == "v" and es == f"{x}[{idx_name}]":
                                term = "vsel idxs x"
                            else:
                                bail(b, f"_apply_subspace: reduction `{es}` of a {local[x]}")
                            result[tgt] = term
                            continue
                        bail(b, f"_apply_subspace: loop statement `{bs[:60]}`")
                continue
            bail(st, f"_apply_subspace: statement `{src[:60]}`")
        want = {"_h_init": "x", "_h_inv_init": "x"}
        for k, v in want.items():
            if result.get(k) != v:
                raise Untranslatable(f"_apply_subspace: self.{k} is not a copy of the input ({result.get(k)})")
        for k in ("h", "h_inv", "s", "y"):
            if k not in result:
                raise Untranslatable(f"_apply_subspace: self.{k} is not reduced")
        if result["h"] != result["h_inv"] or result["s"] != result["y"]:
            raise Untranslatable("_apply_subspace: h/h_inv or s/y reduced differently")
        self.out.append(f"(* HessianUpdater._apply_subspace, {SRC_REL}:{f.lineno}-{f.end_lineno}: self.h, self.h_inv := sub_m idxs . ;"
                        " self.s, self.y := sub_v idxs . ; self._h_init, self._h_inv_init := copies of the inputs *)")
        self.out.append(f"Definition sub_m (idxs : list nat) (x : Mat E) : Mat E := {result['h']}.")
        self.out.append(f"Definition sub_v (idxs : list nat) (x : Vec E) : Vec E := {result['s']}.\n")

    def pin_control_flow(self, base_src):
        """The hand-modelled control flow (Model.full_update / first_applicable) must keep its text."""
        hu = self.classes["HessianUpdater"]
        init = ast.unparse(self.method("HessianUpdater", "__init__"))
        for needle in ("self.h = kwargs.get('h', None)", "self.h_inv = kwargs.get('h_inv', None)",
                       "self._h_init, self._h_inv_init = (None, None)", "self.s = kwargs.get('s', None)",
                       "self.y = kwargs.get('y', None)", "self.subspace_idxs = kwargs.get('subspace_idxs', None)",
                       "self._apply_subspace()"):
            if needle not in init:
                raise Untranslatable(f"HessianUpdater.__init__ no longer contains `{needle}`")
        n_stmts = len([s for s in self.method("HessianUpdater", "__init__").body if not self.is_doc(s)])
        if n_stmts != 7:
            raise Untranslatable(f"HessianUpdater.__init__ has {n_stmts} statements, expected 7")

        def norm(stmts):
            """statement text with docstrings / logger calls removed and exception messages blanked
            (a reworded message does not change the control flow)"""
            class N(ast.NodeTransformer):
                def visit_Raise(s, node):
                    if isinstance(node.exc, ast.Call):
                        node.exc.args = [ast.Constant(value="...") if isinstance(a, (ast.Constant, ast.JoinedStr)) else a
                                         for a in node.exc.args]
                    return node

                def generic_visit(s, node):
                    super().generic_visit(node)
                    for fld in ("body", "orelse"):
                        b = getattr(node, fld, None)
                        if isinstance(b, list) and b and isinstance(b[0], ast.stmt):
                            nb = [x for x in b if not self.is_doc(x) and not self.is_logger(x)]
                            setattr(node, fld, nb or ([ast.Pass()] if fld == "body" else []))
                    return node
            import copy
            mod = N().visit(ast.Module(body=copy.deepcopy(list(stmts)), type_ignores=[]))
            return "\n".join(ast.unparse(ast.fix_missing_locations(s)) for s in mod.body)

        def strip(fn):
            return norm(fn.body)
        uh = strip(self.method("HessianUpdater", "updated_h"))
        want_h = ("if self.h is None:\n    raise RuntimeError('...')\n"
                  "if self._h_init is None:\n    return self._updated_h\n"
                  "return self._matrix_in_full_space(self._h_init, self._updated_h)")
        if uh != want_h:
            raise Untranslatable("HessianUpdater.updated_h control flow changed")
        uhi = strip(self.method("HessianUpdater", "updated_h_inv"))
        want_hi = ("if self.h_inv is None:\n    raise RuntimeError('...')\n"
                   "if self._h_inv_init is None:\n    return self._updated_h_inv\n"
                   "return self._matrix_in_full_space(self._h_inv_init, self._updated_h_inv)")
        if uhi != want_hi:
            raise Untranslatable("HessianUpdater.updated_h_inv control flow changed")
        for c in EXPECTED_CLASSES:
            for st in self.classes[c].body:
                if isinstance(st, ast.FunctionDef) and st.name in ("updated_h", "updated_h_inv", "_apply_subspace",
                                                                   "_matrix_in_full_space"):
                    raise Untranslatable(f"{c} overrides {st.name}")
                if isinstance(st, ast.FunctionDef) and st.name not in METHODS + ["__repr__", "__init__"]:
                    raise Untranslatable(f"{c} defines an unexpected method {st.name}")
        # update_h_from_old_h: first applicable updater
        bt = ast.parse(base_src)
        fn = None
        for n in ast.walk(bt):
            if isinstance(n, ast.FunctionDef) and n.name == "update_h_from_old_h":
                fn = n
        if fn is None:
            raise Untranslatable(f"{BASE_REL}: update_h_from_old_h not found")
        got = norm([s for s in fn.body if not isinstance(s, ast.Assert)])
        want = ("idxs = self.active_mol_indexes\n"
                "for update_type in hessian_update_types:\n"
                "    updater = update_type(h=old_coords._h, s=np.array(self) - np.array(old_coords), "
                "y=self._g - old_coords._g, subspace_idxs=idxs)\n"
                "    if not updater.conditions_met:\n"
                "        continue\n"
                "    new_h = updater.updated_h\n"
                "    assert self.h_or_h_inv_has_correct_shape(new_h)\n"
                "    self._h = new_h\n"
                "    return None\n"
                "raise RuntimeError('...')")
        if got != want:
            raise Untranslatable(f"{BASE_REL}: update_h_from_old_h control flow changed")

    # ------------------------------------------------------------------ driver
    def run(self, base_src):
        if "HessianUpdater" not in self.classes:
            raise Untranslatable("class HessianUpdater not found")
        found = [c for c in self.classes if c != "HessianUpdater" and "HessianUpdater" in self.chain(c)]
        other = [c for c in self.classes if c != "HessianUpdater" and c not in found]
        if other:
            raise Untranslatable(f"classes outside the HessianUpdater hierarchy: {other}")
        if sorted(found) != sorted(EXPECTED_CLASSES):
            raise Untranslatable(f"updater classes {sorted(found)} differ from the ones the proofs cover "
                                 f"{sorted(EXPECTED_CLASSES)}")
        if set(self.funcs) != {"_ensure_hermitian"}:
            raise Untranslatable(f"module-level functions {sorted(self.funcs)}")
        self.pin_control_flow(base_src)
        self.ensure_hermitian()
        self.matrix_in_full_space()
        self.apply_subspace()
        for C in EXPECTED_CLASSES:
            for p, d in self.ctor_extras(C):
                nm = f"{C}_default_{p}"
                self.out.append(f"Definition {nm} : fF E := {lit(d)}.\n")
            for m in METHODS:
                self.emit_method(C, m)
        return found


def main():
    src = open(os.path.join(REPO, SRC_REL)).read()
    base_src = open(os.path.join(REPO, BASE_REL)).read()
    tr = Translator(src)
    tr.run(base_src)
    sha = hashlib.sha256(src.encode()).hexdigest()
    L = ["(* GENERATED by /verif/tr/translate_c09.py from " + SRC_REL + " — do not edit.",
         f"   source sha256 = {sha} *)",
         "From Coq Require Import ZArith List Bool.",
         "From AV.lib Require Import Sums.",
         "From AV.C09 Require Import Model.",
         "Import ListNotations.",
         "",
         "Section C09Gen.",
         "Variable E : fenv.",
         ""]
    L += tr.out
    L += ["End C09Gen.", ""]
    txt = "\n".join(L)
    os.makedirs(os.path.dirname(OUT), exist_ok=True)
    old = open(OUT).read() if os.path.exists(OUT) else None
    if old != txt:
        _tmp = OUT + ".tmp%d" % os.getpid()
        with open(_tmp, "w") as f:
            f.write(txt)
        os.replace(_tmp, OUT)  # atomic: a concurrent coqc never sees a partial file
    return {"classes": EXPECTED_CLASSES, "definitions": sum(1 for x in tr.out if x.startswith("Definition")),
            "locals": len(tr.locals_emitted), "sha256": sha}


if __name__ == "__main__":
    try:
        print("translated:", main())
    except Untranslatable as e:
        print("UNTRANSLATABLE:", e)
        sys.exit(3)
    except (SyntaxError, KeyError, OSError) as e:
        print("UNTRANSLATABLE:", type(e).__name__, e)
        sys.exit(3)
