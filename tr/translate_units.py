#!/usr/bin/env python3
"""Fail-closed translator: autode/constants.py, autode/units.py, autode/values.py (+hessians.py
implemented_units) -> coq/gen/C06_Gen.v

Only the Python `ast` is read; nothing from /repo is imported or executed.  Constant expressions
are folded here with Python float arithmetic (so each value is the exact double the code computes)
and emitted as exact rationals.  Anything outside the whitelisted vocabulary raises Untranslatable.
"""
import ast
import hashlib
import os
import sys
from fractions import Fraction

REPO = os.environ.get("VERIF_REPO", "/repo")
OUT = os.environ.get("C06_GEN_OUT", "/verif/coq/gen/C06_Gen.v")   # a drill writes a private copy
EXTRA_CLASS_FILES = ["autode/opt/coordinates/base.py", "autode/opt/coordinates/dimer.py", "autode/pes/pes_nd.py"]


class Untranslatable(Exception):
    pass


def q(x):
    f = Fraction(*float(x).as_integer_ratio()) if not isinstance(x, Fraction) else x
    return f"(qc ({f.numerator})%Z {f.denominator}%positive)"


def cstr(s):
    if '"' in s or "\n" in s or "\\" in s:
        raise Untranslatable(f"string {s!r}")
    return '"' + s + '"'


def fold(node, env):
    """Constant folding with Python float semantics over + - * / ** and names in env."""
    if isinstance(node, ast.Constant) and isinstance(node.value, (int, float)) and not isinstance(node.value, bool):
        return node.value
    if isinstance(node, ast.Name):
        if node.id in env:
            return env[node.id]
        raise Untranslatable(f"unknown name {node.id}")
    if isinstance(node, ast.Attribute) and isinstance(node.value, ast.Name) and node.value.id == "Constants":
        if node.attr in env:
            return env[node.attr]
        raise Untranslatable(f"unknown constant {node.attr}")
    if isinstance(node, ast.UnaryOp) and isinstance(node.op, ast.USub):
        return -fold(node.operand, env)
    if isinstance(node, ast.BinOp):
        a, b = fold(node.left, env), fold(node.right, env)
        if isinstance(node.op, ast.Add):
            return a + b
        if isinstance(node.op, ast.Sub):
            return a - b
        if isinstance(node.op, ast.Mult):
            return a * b
        if isinstance(node.op, ast.Div):
            return a / b
        if isinstance(node.op, ast.Pow):
            return a ** b
    raise Untranslatable(f"constant expression {ast.dump(node)[:120]}")


def parse_constants(src):
    tree = ast.parse(src)
    cls = [n for n in tree.body if isinstance(n, ast.ClassDef) and n.name == "Constants"]
    if len(cls) != 1:
        raise Untranslatable("class Constants not found")
    env, order = {}, []
    for st in cls[0].body:
        if isinstance(st, ast.Expr) and isinstance(st.value, ast.Constant) and isinstance(st.value.value, str):
            continue  # docstring
        if not isinstance(st, ast.Assign):
            raise Untranslatable(f"constants.py: statement {type(st).__name__}")
        val = fold(st.value, env)
        for t in st.targets:
            if not isinstance(t, ast.Name):
                raise Untranslatable("constants.py: assignment target")
            env[t.id] = val
            order.append(t.id)
    return env, order


def str_list(node):
    if isinstance(node, ast.Constant) and node.value is None:
        return []
    if isinstance(node, (ast.List, ast.Tuple, ast.Set)):
        out = []
        for e in node.elts:
            if not (isinstance(e, ast.Constant) and isinstance(e.value, str)):
                raise Untranslatable("alias is not a string literal")
            out.append(e.value)
        return out
    raise Untranslatable("aliases expression")


def decl_of(node):
    """How a `times`/`add` argument is declared: ('const', name) | ('lit', float) | ('expr', None)"""
    if isinstance(node, ast.Attribute) and isinstance(node.value, ast.Name) and node.value.id == "Constants":
        return ("const", node.attr)
    if isinstance(node, ast.Constant):
        return ("lit", node.value)
    return ("expr", None)


def parse_units(src, cenv):
    tree = ast.parse(src)
    units = {}   # python variable name -> dict
    order = []
    for st in tree.body:
        if not isinstance(st, ast.Assign) or not isinstance(st.value, ast.Call):
            continue
        f = st.value.func
        if not (isinstance(f, ast.Name) and f.id in ("Unit", "BaseUnit", "CompositeUnit")):
            continue
        call = st.value
        kw = {k.arg: k.value for k in call.keywords}
        if None in kw:
            raise Untranslatable("**kwargs in unit definition")
        u = {"kind": f.id, "add": 0.0, "times": 1.0, "aliases": [], "decl": ("base", None)}
        if f.id == "Unit":
            if call.args:
                raise Untranslatable("positional args in Unit()")
            allowed = {"name", "times", "add", "aliases", "plot_name"}
            if set(kw) - allowed:
                raise Untranslatable(f"Unit() keyword {set(kw) - allowed}")
            name = kw["name"]
            if "times" in kw:
                u["times"] = float(fold(kw["times"], cenv))
                u["decl"] = decl_of(kw["times"])
            else:
                u["decl"] = ("lit", 1.0)
            if "add" in kw:
                u["add"] = float(fold(kw["add"], cenv))
            u["add_decl"] = decl_of(kw["add"]) if "add" in kw else ("lit", 0.0)
        elif f.id == "BaseUnit":
            if call.args or set(kw) - {"name", "aliases", "plot_name"}:
                raise Untranslatable("BaseUnit() arguments")
            name = kw["name"]
            u["add_decl"] = ("lit", 0.0)
        else:  # CompositeUnit: conversion = 1.0; *= each top; /= each per  (float arithmetic, in order)
            if set(kw) - {"per", "name", "aliases"}:
                raise Untranslatable("CompositeUnit() keywords")
            tops = []
            for a in call.args:
                if not (isinstance(a, ast.Name) and a.id in units):
                    raise Untranslatable("CompositeUnit numerator")
                tops.append(a.id)
            pers = []
            if "per" in kw:
                if not isinstance(kw["per"], (ast.List, ast.Tuple)):
                    raise Untranslatable("CompositeUnit per")
                for a in kw["per"].elts:
                    if not (isinstance(a, ast.Name) and a.id in units):
                        raise Untranslatable("CompositeUnit denominator")
                    pers.append(a.id)
            conv = 1.0
            for t in tops:
                conv *= units[t]["times"]
            for p in pers:
                conv /= units[p]["times"]
            u["times"] = conv
            u["decl"] = ("composite", (tops, pers))
            u["add_decl"] = ("lit", 0.0)
            name = kw.get("name")
            if name is None:
                top_names = " ".join(units[t]["name"] for t in tops)
                per_names = " ".join(units[p]["name"] for p in pers)
                name = ast.Constant(value=f"{top_names}({per_names})^-1")
        if not (isinstance(name, ast.Constant) and isinstance(name.value, str)):
            raise Untranslatable("unit name is not a literal")
        u["name"] = name.value
        u["aliases"] = [name.value.lower()] + [a.lower() for a in str_list(kw.get("aliases", ast.Constant(value=None)))]
        for t in st.targets:
            if not isinstance(t, ast.Name):
                raise Untranslatable("unit assignment target")
            units[t.id] = u
            order.append(t.id)
    # the Unit class itself must keep the (name, times, add, aliases) semantics the model assumes
    ucls = [n for n in tree.body if isinstance(n, ast.ClassDef) and n.name == "Unit"][0]
    init = [n for n in ucls.body if isinstance(n, ast.FunctionDef) and n.name == "__init__"][0]
    init_src = ast.unparse(init)
    for needle in ("self.times = times", "self.add = add", "self.aliases = [name.lower()]",
                   "self.aliases += [alias.lower() for alias in aliases]"):
        if needle not in init_src:
            raise Untranslatable(f"Unit.__init__ no longer contains `{needle}`")
    eq = [n for n in ucls.body if isinstance(n, ast.FunctionDef) and n.name == "__eq__"][0]
    if "return other.lower() in self.aliases" not in ast.unparse(eq):
        raise Untranslatable("Unit.__eq__ changed")
    comp = [n for n in tree.body if isinstance(n, ast.ClassDef) and n.name == "CompositeUnit"][0]
    csrc = ast.unparse(comp)
    for needle in ("conversion: float = 1.0", "conversion *= unit.times", "conversion /= unit.times",
                   "super().__init__(name=name, times=conversion, aliases=aliases)"):
        if needle not in csrc:
            raise Untranslatable(f"CompositeUnit.__init__ no longer contains `{needle}`")
    return units, order


def parse_classes(src, units, extra_src=None):
    """implemented_units of every class in values.py (+ Hessian in hessians.py)."""
    classes = []
    for s in [src] + ([extra_src] if extra_src else []):
        for n in ast.parse(s).body:
            if not isinstance(n, ast.ClassDef):
                continue
            for st in n.body:
                tgt = None
                if isinstance(st, ast.Assign) and len(st.targets) == 1 and isinstance(st.targets[0], ast.Name):
                    tgt, val = st.targets[0].id, st.value
                elif isinstance(st, ast.AnnAssign) and isinstance(st.target, ast.Name) and st.value is not None:
                    tgt, val = st.target.id, st.value
                if tgt != "implemented_units":
                    continue
                if not isinstance(val, (ast.List, ast.Tuple)):
                    raise Untranslatable(f"{n.name}.implemented_units is not a list literal")
                us = []
                for e in val.elts:
                    if not (isinstance(e, ast.Name) and e.id in units):
                        raise Untranslatable(f"{n.name}.implemented_units element")
                    us.append(e.id)
                bases = [b.id for b in n.bases if isinstance(b, ast.Name)]
                classes.append((n.name, us, bases))
    return classes


ARITH = {ast.Add: "+", ast.Sub: "-", ast.Mult: "*", ast.Div: "/"}


def tr_expr(node, names):
    if isinstance(node, ast.BinOp) and type(node.op) in ARITH:
        return f"({tr_expr(node.left, names)} {ARITH[type(node.op)]} {tr_expr(node.right, names)})"
    src = ast.unparse(node)
    if src in names:
        return names[src]
    raise Untranslatable(f"_to: expression `{src}`")


def parse_to(src):
    """The arithmetic of values._to: the sequence of augmented assignments applied to new_value."""
    fn = [n for n in ast.parse(src).body if isinstance(n, ast.FunctionDef) and n.name == "_to"]
    if len(fn) != 1:
        raise Untranslatable("_to not found")
    names = {"units.times": "utimes v", "value.units.times": "utimes u",
             "units.add": "uadd v", "value.units.add": "uadd u"}
    expr = "x"
    seen_copy = False
    steps = []
    for st in ast.walk(fn[0]):
        if isinstance(st, ast.Assign) and ast.unparse(st.targets[0]) == "new_value":
            if ast.unparse(st.value) != "value if inplace else value.copy()":
                raise Untranslatable("_to: new_value initialisation changed")
            seen_copy = True
    for st in fn[0].body:
        if isinstance(st, ast.AugAssign) and ast.unparse(st.target) == "new_value":
            if type(st.op) not in ARITH:
                raise Untranslatable("_to: augmented operator")
            expr = f"({expr} {ARITH[type(st.op)]} {tr_expr(st.value, names)})"
            steps.append(ast.unparse(st))
        elif isinstance(st, ast.Assign) and ast.unparse(st.targets[0]) == "new_value.units":
            if ast.unparse(st.value) != "units":
                raise Untranslatable("_to: new units assignment changed")
    if not seen_copy or not steps:
        raise Untranslatable("_to: structure not recognised")
    # every statement that touches new_value must be one of the TOP-LEVEL statements translated
    # above: an augmented assignment hidden in a branch (`if value.size > 9: new_value *= ...`)
    # would otherwise be invisible to the model
    top_aug = [st for st in fn[0].body if isinstance(st, ast.AugAssign)]
    all_aug = [st for st in ast.walk(fn[0]) if isinstance(st, ast.AugAssign)]
    if len(top_aug) != len(all_aug) or len(top_aug) != len(steps):
        raise Untranslatable("_to: augmented assignment outside the straight-line part")
    n_assign = sum(1 for st in ast.walk(fn[0]) if isinstance(st, (ast.Assign, ast.AnnAssign))
                   and any("new_value" in ast.unparse(t) for t in (st.targets if isinstance(st, ast.Assign) else [st.target])))
    if n_assign != 2:
        raise Untranslatable("_to: new_value is assigned somewhere else")

    # the whole statement skeleton of _to (guards, lookup, error kinds, order) -- fail closed on any
    # other top-level statement or a changed order; messages of the raised errors are ignored
    class _Norm(ast.NodeTransformer):
        def visit_Raise(self, n):
            exc = n.exc.func if isinstance(n.exc, ast.Call) else n.exc
            return ast.Raise(exc=exc, cause=None)
    skel = []
    for st in fn[0].body:
        if isinstance(st, ast.Expr) and isinstance(st.value, ast.Constant) and isinstance(st.value.value, str):
            continue
        if isinstance(st, ast.AugAssign):
            skel.append("AUG")
            continue
        skel.append(ast.unparse(ast.fix_missing_locations(_Norm().visit(st))))
    want = ["if value.units == units:\n    return value",
            "if value.units is None:\n    raise RuntimeError",
            "try:\n    units = next((imp_unit for imp_unit in value.implemented_units if units.lower() in imp_unit.aliases))\n"
            "except StopIteration:\n    raise TypeError",
            "if not (isinstance(value, Value) or isinstance(value, ValueArray)):\n    raise ValueError",
            "if isinstance(value, Value) and inplace:\n    raise ValueError",
            "new_value = value if inplace else value.copy()",
            "AUG", "AUG",
            "new_value.units = units",
            "return None if inplace else new_value"]
    if skel != want:
        for i, (a, b) in enumerate(zip(skel + ["<end>"] * len(want), want + ["<end>"] * len(skel))):
            if a != b:
                raise Untranslatable(f"_to: statement {i} changed: `{a[:80]}` (expected `{b[:60]}`)")
    return expr, steps


def main():
    csrc = open(os.path.join(REPO, "autode/constants.py")).read()
    usrc = open(os.path.join(REPO, "autode/units.py")).read()
    vsrc = open(os.path.join(REPO, "autode/values.py")).read()
    hsrc = open(os.path.join(REPO, "autode/hessians.py")).read()
    cenv, corder = parse_constants(csrc)
    units, uorder = parse_units(usrc, cenv)
    classes = parse_classes(vsrc, units, hsrc)
    # ValueArray subclasses declared elsewhere (appended after the values.py/hessians.py classes so
    # that existing entries keep their position): optimiser coordinates, dimer coordinates, PES axes
    for rel in EXTRA_CLASS_FILES:
        path = os.path.join(REPO, rel)
        if not os.path.exists(path):
            continue
        esrc = open(path).read()
        for n in ast.walk(ast.parse(esrc)):
            if isinstance(n, ast.ImportFrom) and n.module == "autode.units" and any(a.asname for a in n.names):
                raise Untranslatable(f"{rel}: unit imported under another name")
        have = {c[0] for c in classes}
        for c in parse_classes(esrc, units):
            if c[0] in have:
                raise Untranslatable(f"{rel}: class {c[0]} declared twice")
            classes.append(c)
    conv_expr, steps = parse_to(vsrc)
    sha = hashlib.sha256((csrc + usrc + vsrc).encode()).hexdigest()

    L = []
    L.append("(* GENERATED by /verif/tr/translate_units.py from autode/constants.py, units.py, values.py,")
    L.append(f"   hessians.py — do not edit.  source sha256 = {sha} *)")
    L.append("From Coq Require Import ZArith QArith Qcanon List String.")
    L.append("From AV.lib Require Import QcInst.")
    L.append("From AV.C06 Require Import Base.")
    L.append("Import ListNotations.\nOpen Scope string_scope.\n")
    seen = set()
    L.append("Definition constants : list (string * Qc) := [")
    rows = []
    for k in corder:
        if k in seen:
            continue
        seen.add(k)
        rows.append(f"  ({cstr(k)}, {q(float(cenv[k]))})")
    L.append(";\n".join(rows) + "\n].\n")
    done = {}
    for var in uorder:
        u = units[var]
        if id(u) in done:
            L.append(f"Definition u_{var} : unit := u_{done[id(u)]}.")
            continue
        done[id(u)] = var
        al = "; ".join(cstr(a) for a in u["aliases"])
        L.append(f"Definition u_{var} : unit := mkUnit {cstr(u['name'])} [{al}] {q(u['times'])} {q(u['add'])}.")
    L.append("")

    def decl_term(d):
        k, v = d
        if k == "base":
            return "DBase"
        if k == "const":
            return f"DConst {cstr(v)}"
        if k == "lit":
            return f"DLit {q(float(v))}"
        if k == "composite":
            return "DComposite [" + "; ".join(f"u_{t}" for t in v[0]) + "] [" + "; ".join(f"u_{p}" for p in v[1]) + "]"
        return "DExpr"
    L.append("Definition declared : list (unit * decl * decl) := [")
    rows = []
    for var in uorder:
        if done[id(units[var])] != var:
            continue
        rows.append(f"  (u_{var}, {decl_term(units[var]['decl'])}, {decl_term(units[var]['add_decl'])})")
    L.append(";\n".join(rows) + "\n].\n")
    L.append("Definition classes : list (string * list unit) := [")
    rows = []
    for name, us, _ in classes:
        rows.append(f"  ({cstr(name)}, [" + "; ".join(f"u_{v}" for v in us) + "])")
    L.append(";\n".join(rows) + "\n].\n")
    L.append("(* values._to:  " + " ; ".join(steps) + " *)")
    L.append(f"Definition conv (x : Qc) (u v : unit) : Qc := ({conv_expr})%Qc.\n")
    os.makedirs(os.path.dirname(OUT), exist_ok=True)
    txt = "\n".join(L) + "\n"
    old = open(OUT).read() if os.path.exists(OUT) else None
    if old != txt:
        _tmp = OUT + ".tmp%d" % os.getpid()
        with open(_tmp, "w") as f:
            f.write(txt)
        os.replace(_tmp, OUT)  # atomic: a concurrent coqc never sees a partial file
    return {"constants": len(seen), "units": len(done), "classes": len(classes), "sha256": sha,
            "conv": conv_expr, "class_names": [c[0] for c in classes]}


if __name__ == "__main__":
    try:
        info = main()
        print("translated:", info)
    except Untranslatable as e:
        print("UNTRANSLATABLE:", e)
        sys.exit(3)
