#!/usr/bin/env python3
"""Fail-closed translator for C11: autode/hessians.py (+ constants.py) -> coq/gen/C11_Gen.v

Only the Python `ast` is read; nothing from the repository is imported or executed.  What is
translated are the FORMULAS and INDEX EXPRESSIONS of

  Hessian.n_tr, n_v, _mass_weighted, _freq_scale_factor, _eigenvalues_to_freqs, frequencies_proj
  NumericalHessianCalculator.hessian (symmetrisation), _n_rows, _idxs_to_calculate (row -> atom,
  component), calculate / _calculate_in_serial (row a result is stored at), _diff_row, _cdiff_row,
  _new_species / _shift_vector (displacement), HybridHessianCalculator._remove_h_method_rows

as Gallina definitions over the vocabulary of coq/C11/Base.v and coq/lib/Sums.v.  The control flow
around them (generator with side effect, two passes, process pool) is the hand model of
coq/C11/Model.v, tied by the correspondence check of harness/c11.py; the statement SHAPES the hand
model relies on are verified here and any deviation raises Untranslatable (exit status 3).
"""
import ast
import hashlib
import os
import sys

sys.path.insert(0, os.path.dirname(os.path.abspath(__file__)))
from translate_units import Untranslatable, fold, parse_constants, q  # noqa: E402

REPO = os.environ.get("VERIF_REPO", "/repo")
OUT = "/verif/coq/gen/C11_Gen.v"


def un(node):
    return ast.unparse(node)


def strip(body):
    """Drop docstrings and logger.* calls (no effect on the modelled state)."""
    out = []
    for st in body:
        if isinstance(st, ast.Expr) and isinstance(st.value, ast.Constant) and isinstance(st.value.value, str):
            continue
        if isinstance(st, ast.Expr) and isinstance(st.value, ast.Call) and un(st.value.func).startswith("logger."):
            continue
        out.append(st)
    return out


def find_class(tree, name):
    cs = [n for n in tree.body if isinstance(n, ast.ClassDef) and n.name == name]
    if len(cs) != 1:
        raise Untranslatable(f"class {name} not found exactly once")
    return cs[0]


def find_method(cls, name, getter=True):
    """The FunctionDef `name` of the class; for properties with a setter the getter is returned."""
    fs = [n for n in cls.body if isinstance(n, ast.FunctionDef) and n.name == name]
    fs = [f for f in fs if not any(un(d).endswith(".setter") for d in f.decorator_list)]
    if len(fs) != 1:
        raise Untranslatable(f"{cls.name}.{name} not found exactly once")
    return fs[0]


def where(cls, f):
    return f"{cls.name}.{f.name}, autode/hessians.py:{f.lineno}-{f.end_lineno}"


# --------------------------------------------------------------------------- expression translators
def nat_expr(node, names, what):
    """Index arithmetic over nat: int literals, the given names, * + // %  (and - only in Z mode)."""
    if isinstance(node, ast.Constant) and isinstance(node.value, int) and not isinstance(node.value, bool) and node.value >= 0:
        return str(node.value)
    s = un(node)
    if s in names:
        return names[s]
    if isinstance(node, ast.BinOp):
        a, b = nat_expr(node.left, names, what), nat_expr(node.right, names, what)
        if isinstance(node.op, ast.Mult):
            return f"({a} * {b})"
        if isinstance(node.op, ast.Add):
            return f"({a} + {b})"
        if isinstance(node.op, ast.FloorDiv):
            return f"({a} / {b})"
        if isinstance(node.op, ast.Mod):
            return f"({a} mod {b})"
        if isinstance(node.op, ast.Sub) and names.get("__Z__"):
            return f"({a} - {b})"
    raise Untranslatable(f"{what}: index expression `{s}`")


class FEnv:
    """Scalar field expressions: literals (exact rational of the double), np.pi, Constants.<c>, names."""

    def __init__(self, cenv, names):
        self.cenv, self.names = cenv, names

    def lit(self, x):
        from fractions import Fraction
        f = Fraction(*float(x).as_integer_ratio())
        return f"(Cst ({f.numerator})%Z {f.denominator}%positive)"

    def tr(self, node, what):
        s = un(node)
        if s in self.names:
            return self.names[s]
        if isinstance(node, ast.Constant) and isinstance(node.value, (int, float)) and not isinstance(node.value, bool):
            return self.lit(node.value)
        if s in ("np.pi", "numpy.pi", "math.pi"):
            return "pi"
        if isinstance(node, ast.Attribute) and isinstance(node.value, ast.Name) and node.value.id == "Constants":
            if node.attr not in self.cenv:
                raise Untranslatable(f"{what}: unknown constant {node.attr}")
            return self.lit(self.cenv[node.attr])
        if isinstance(node, ast.Call) and un(node.func) == "float" and len(node.args) == 1 and not node.keywords:
            return self.tr(node.args[0], what)
        if isinstance(node, ast.UnaryOp) and isinstance(node.op, ast.USub):
            return f"(Fopp {self.tr(node.operand, what)})"
        if isinstance(node, ast.BinOp):
            ops = {ast.Add: "Fadd", ast.Sub: "Fsub", ast.Mult: "Fmul", ast.Div: "Fdiv"}
            if type(node.op) in ops:
                return f"({ops[type(node.op)]} {self.tr(node.left, what)} {self.tr(node.right, what)})"
        raise Untranslatable(f"{what}: scalar expression `{s}`")


def is_scalar(node, fenv):
    try:
        fenv.tr(node, "")
        return True
    except Untranslatable:
        return False


# --------------------------------------------------------------------------- Hessian
def tr_cached(cls):
    """Which methods of Hessian are functools.cached_property (evaluated once per object) / plain properties."""
    cached, plain = [], []
    for n in cls.body:
        if isinstance(n, ast.FunctionDef):
            decs = [un(d) for d in n.decorator_list]
            if "cached_property" in decs or "functools.cached_property" in decs:
                cached.append(n.name)
            elif "property" in decs:
                plain.append(n.name)
    lst = "; ".join('"%s"%%string' % c for c in cached)
    return ["(* methods of Hessian decorated with @cached_property: evaluated once per object, later accesses return the stored value *)",
            f"Definition gen_cached_properties : list string := [{lst}]."]


def tr_n_tr(cls):
    f = find_method(cls, "n_tr")
    body = strip(f.body)
    ret = body[-1]
    for st in body[:-1]:
        if not (isinstance(st, ast.If) and all(isinstance(x, ast.Raise) for x in st.body) and not st.orelse):
            raise Untranslatable("n_tr: statement other than a raising guard before the return")
    if not (isinstance(ret, ast.Return) and isinstance(ret.value, ast.IfExp)):
        raise Untranslatable("n_tr: return is not `a if linear else b`")
    e = ret.value
    test, neg = e.test, False
    if isinstance(test, ast.UnaryOp) and isinstance(test.op, ast.Not):
        test, neg = test.operand, True
    if un(test) != "self.atoms.are_linear()":
        raise Untranslatable(f"n_tr: condition `{un(test)}`")
    a, b = e.body, e.orelse
    for x in (a, b):
        if not (isinstance(x, ast.Constant) and isinstance(x.value, int)):
            raise Untranslatable("n_tr: branches are not integer literals")
    lin, non = (b.value, a.value) if neg else (a.value, b.value)
    return [f"(* {where(cls, f)} *)",
            f"Definition gen_n_tr (are_linear : bool) : nat := if are_linear then {lin} else {non}."]


def tr_n_v(cls):
    f = find_method(cls, "n_v")
    body = strip(f.body)
    ret = body[-1]
    if not isinstance(ret, ast.Return):
        raise Untranslatable("n_v: no return")
    e = nat_expr(ret.value, {"len(self.atoms)": "(Z.of_nat n_atoms)", "self.n_tr": "(Z.of_nat n_tr)", "__Z__": "1"}, "n_v")
    return [f"(* {where(cls, f)} *)",
            f"Definition gen_n_v (n_atoms n_tr : nat) : Z := ({e})%Z."]


def tr_mass_weighted(cls):
    f = find_method(cls, "_mass_weighted")
    body = [st for st in strip(f.body) if not (isinstance(st, ast.If) and all(isinstance(x, ast.Raise) for x in st.body))]
    if len(body) != 3:
        raise Untranslatable("_mass_weighted: expected `H = self.to(..)`, `mass_array = ..`, `return ..`")
    s0, s1, s2 = body
    if not (isinstance(s0, ast.Assign) and isinstance(s0.value, ast.Call) and un(s0.value.func) == "self.to"
            and len(s0.value.args) == 1 and isinstance(s0.value.args[0], ast.Constant) and isinstance(s0.value.args[0].value, str)):
        raise Untranslatable("_mass_weighted: Hessian unit conversion")
    hname, hunit = un(s0.targets[0]), s0.value.args[0].value
    if not (isinstance(s1, ast.Assign) and isinstance(s1.value, ast.Call) and un(s1.value.func) == "np.repeat"):
        raise Untranslatable("_mass_weighted: mass array is not np.repeat(...)")
    mname = un(s1.targets[0])
    call = s1.value
    kw = {k.arg: k.value for k in call.keywords}
    if len(call.args) != 1 or set(kw) - {"repeats", "axis"} or "repeats" not in kw:
        raise Untranslatable("_mass_weighted: np.repeat arguments")
    if not (isinstance(kw["repeats"], ast.Constant) and isinstance(kw["repeats"].value, int)):
        raise Untranslatable("_mass_weighted: repeats")
    lc = call.args[0]
    if not (isinstance(lc, ast.ListComp) and len(lc.generators) == 1 and un(lc.generators[0].iter) == "self.atoms"
            and not lc.generators[0].ifs and isinstance(lc.elt, ast.Call) and len(lc.elt.args) == 1
            and isinstance(lc.elt.args[0], ast.Constant) and isinstance(lc.elt.args[0].value, str)
            and un(lc.elt.func) == f"{un(lc.generators[0].target)}.mass.to"):
        raise Untranslatable("_mass_weighted: mass list is not [atom.mass.to(<unit>) for atom in self.atoms]")
    munit = lc.elt.args[0].value
    if not isinstance(s2, ast.Return):
        raise Untranslatable("_mass_weighted: no return")

    def ent(node):
        s = un(node)
        if s == hname:
            return "h"
        if isinstance(node, ast.Call) and un(node.func) == "np.array" and len(node.args) == 1 and not node.keywords:
            return ent(node.args[0])
        if isinstance(node, ast.Call) and un(node.func) == "np.sqrt" and len(node.args) == 1:
            return f"(fsqrt {ent(node.args[0])})"
        if isinstance(node, ast.Call) and un(node.func) == "np.outer" and len(node.args) == 2:
            if un(node.args[0]) != mname or un(node.args[1]) != mname:
                raise Untranslatable("_mass_weighted: np.outer arguments")
            return "(Fmul mi mj)"
        if isinstance(node, ast.BinOp) and type(node.op) in (ast.Div, ast.Mult):
            op = "Fdiv" if isinstance(node.op, ast.Div) else "Fmul"
            return f"({op} {ent(node.left)} {ent(node.right)})"
        raise Untranslatable(f"_mass_weighted: expression `{s}`")
    e = ent(s2.value)
    for u in (hunit, munit):
        if '"' in u:
            raise Untranslatable("unit string")
    return [f"(* {where(cls, f)} *)",
            f'Definition gen_mw_hessian_unit : string := "{hunit.lower()}"%string.',
            f'Definition gen_mw_mass_unit : string := "{munit.lower()}"%string.',
            f"Definition gen_mw_repeats : nat := {kw['repeats'].value}.",
            f"Definition gen_mw_entry (h mi mj : F) : F := {e}."]


def tr_scale(cls):
    f = find_method(cls, "_freq_scale_factor")
    body = strip(f.body)
    want = ["if Config.freq_scale_factor is not None:\n    return Config.freq_scale_factor",
            "if self.functional is not None:\n    return self.functional.freq_scale_factor"]
    if len(body) != 3 or [un(b) for b in body[:2]] != want or not isinstance(body[2], ast.Return):
        raise Untranslatable("_freq_scale_factor: structure changed")
    fe = FEnv({}, {})
    d = fe.tr(body[2].value, "_freq_scale_factor")
    return [f"(* {where(cls, f)} *)",
            "Definition gen_scale (config functional : option F) : F :=",
            f"  match config with Some s => s | None => match functional with Some s => s | None => {d} end end."]


def tr_freqs(cls, cenv):
    f = find_method(cls, "_eigenvalues_to_freqs")
    if [a.arg for a in f.args.args] != ["self", "lambdas"]:
        raise Untranslatable("_eigenvalues_to_freqs: signature")
    fe = FEnv(cenv, {"self._freq_scale_factor": "scale"})
    env, masks, lines = {}, {}, []
    body = strip(f.body)
    w = "_eigenvalues_to_freqs"

    def ri(node):
        s = un(node)
        if isinstance(node, ast.Name) and s in env:
            return env[s]
        if s == "np.sqrt(np.complex128(lambdas))":
            return "(ri_sqrt lambda)"
        if isinstance(node, ast.BinOp) and isinstance(node.op, (ast.Div, ast.Mult)):
            op = "ri_div_real" if isinstance(node.op, ast.Div) else "ri_mul_real"
            if is_scalar(node.right, fe):
                return f"({op} {ri(node.left)} {fe.tr(node.right, w)})"
            if isinstance(node.op, ast.Mult) and is_scalar(node.left, fe):
                return f"(ri_mul_real {ri(node.right)} {fe.tr(node.left, w)})"
        raise Untranslatable(f"{w}: expression `{s}`")

    k = 0
    ret = None
    for st in body:
        if isinstance(st, ast.Assign) and len(st.targets) == 1 and isinstance(st.targets[0], ast.Name):
            t = st.targets[0].id
            if isinstance(st.value, ast.Call) and un(st.value.func) == "np.iscomplex" and len(st.value.args) == 1 \
                    and isinstance(st.value.args[0], ast.Name) and st.value.args[0].id in env:
                masks[t] = (st.value.args[0].id, env[st.value.args[0].id])
                continue
            k += 1
            lines.append(f"  let v{k} := {ri(st.value)} in")
            env[t] = f"v{k}"
        elif isinstance(st, ast.AugAssign) and isinstance(st.target, ast.Name) and st.target.id in env \
                and isinstance(st.op, (ast.Mult, ast.Div)):
            op = "ri_div_real" if isinstance(st.op, ast.Div) else "ri_mul_real"
            k += 1
            lines.append(f"  let v{k} := ({op} {env[st.target.id]} {fe.tr(st.value, w)}) in")
            env[st.target.id] = f"v{k}"
        elif isinstance(st, ast.Assign) and len(st.targets) == 1 and isinstance(st.targets[0], ast.Subscript):
            tg = st.targets[0]
            x, m = un(tg.value), un(tg.slice)
            if x not in env or m not in masks or masks[m] != (x, env[x]):
                raise Untranslatable(f"{w}: masked assignment `{un(st)}`")
            val, neg = st.value, False
            if isinstance(val, ast.UnaryOp) and isinstance(val.op, ast.USub):
                val, neg = val.operand, True
            if not (isinstance(val, ast.Call) and un(val.func) == "np.abs" and len(val.args) == 1 and un(val.args[0]) == un(tg)):
                raise Untranslatable(f"{w}: masked value `{un(st.value)}`")
            inner = f"(ri_abs {env[x]})"
            if neg:
                inner = f"(Fopp {inner})"
            k += 1
            lines.append(f"  let v{k} := (if ri_iscomplex {env[x]} then Re {inner} else {env[x]}) in")
            env[x] = f"v{k}"
        elif isinstance(st, ast.Return):
            ret = st
        else:
            raise Untranslatable(f"{w}: statement `{un(st)[:60]}`")
    if ret is None or not isinstance(ret.value, ast.ListComp) or len(ret.value.generators) != 1:
        raise Untranslatable(f"{w}: return is not a list comprehension")
    g = ret.value.generators[0]
    if g.ifs or un(g.iter) not in env:
        raise Untranslatable(f"{w}: returned comprehension iterates over `{un(g.iter)}`")
    if un(ret.value.elt) != f"Frequency(np.real({un(g.target)}), units=wavenumber)":
        raise Untranslatable(f"{w}: returned element `{un(ret.value.elt)}`")
    lines.append(f"  ri_real {env[un(g.iter)]}.")
    return [f"(* {where(cls, f)} *)", "Definition gen_freq (scale lambda : F) : F :="] + lines


def tr_freqs_proj(cls):
    """frequencies_proj: n_tr literal zeros followed by the converted eigenvalues of the [n_tr:, n_tr:] block."""
    f = find_method(cls, "frequencies_proj")
    body = [st for st in strip(f.body) if not (isinstance(st, ast.If) and all(isinstance(x, ast.Raise) for x in st.body))]
    want = ["n_tr = self.n_tr",
            "lambdas = np.linalg.eigvalsh(self._proj_mass_weighted[n_tr:, n_tr:])",
            "trans_rot_freqs = [Frequency(0.0) for _ in range(n_tr)]",
            "vib_freqs = self._eigenvalues_to_freqs(lambdas)",
            "return trans_rot_freqs + vib_freqs"]
    if [un(b) for b in body] != want:
        raise Untranslatable("frequencies_proj: structure changed: " + " ; ".join(un(b) for b in body)[:200])
    return [f"(* {where(cls, f)}: [0.0]*n_tr ++ freqs(eigvalsh(block[n_tr:, n_tr:])) *)",
            "Definition gen_frequencies_proj (freq : F -> F) (n_tr : nat) (lambdas : list F) : list F :=",
            "  repeat (Cst 0%Z 1%positive) n_tr ++ map freq lambdas."]


# --------------------------------------------------------------------------- NumericalHessianCalculator
def tr_symmetrise(cls):
    f = find_method(cls, "hessian")
    body = strip(f.body)
    if len(body) != 3 or un(body[0]) != "arr = np.array(self._hessian, copy=True)" or un(body[2]) != "return self._hessian":
        raise Untranslatable("NumericalHessianCalculator.hessian: structure changed")
    st = body[1]
    if not (isinstance(st, ast.Assign) and un(st.targets[0]) == "self._hessian[:]"):
        raise Untranslatable("NumericalHessianCalculator.hessian: in-place assignment")
    fe = FEnv({}, {})

    def m(node):
        s = un(node)
        if s == "arr":
            return "arr"
        if s in ("arr.T", "arr.transpose()", "np.transpose(arr)"):
            return "(Transpose E arr)"
        if isinstance(node, ast.BinOp):
            if isinstance(node.op, ast.Add):
                return f"(Madd E {m(node.left)} {m(node.right)})"
            if isinstance(node.op, ast.Sub):
                return f"(Msub E {m(node.left)} {m(node.right)})"
            if isinstance(node.op, ast.Div) and is_scalar(node.right, fe):
                return f"(Mdivs E {m(node.left)} {fe.tr(node.right, 'hessian')})"
            if isinstance(node.op, ast.Mult) and is_scalar(node.left, fe):
                return f"(Mscal E {fe.tr(node.left, 'hessian')} {m(node.right)})"
            if isinstance(node.op, ast.Mult) and is_scalar(node.right, fe):
                return f"(Mscal E {fe.tr(node.right, 'hessian')} {m(node.left)})"
        raise Untranslatable(f"NumericalHessianCalculator.hessian: expression `{s}`")
    return [f"(* {where(cls, f)} *)",
            f"Definition gen_symmetrise (arr : Mat E) : Mat E := {m(st.value)}."]


def tr_n_rows(cls):
    f = find_method(cls, "_n_rows")
    body = strip(f.body)
    if len(body) != 1 or not isinstance(body[0], ast.Return):
        raise Untranslatable("_n_rows: structure")
    e = nat_expr(body[0].value, {"self._species.n_atoms": "n_atoms"}, "_n_rows")
    return [f"(* {where(cls, f)} *)", f"Definition gen_n_rows (n_atoms : nat) : nat := {e}."]


def tr_idxs(cls):
    f = find_method(cls, "_idxs_to_calculate")
    body = strip(f.body)
    if body and isinstance(body[-1], ast.Return) and body[-1].value is None:
        body = body[:-1]
    if len(body) != 1 or not isinstance(body[0], ast.For):
        raise Untranslatable("_idxs_to_calculate: not a single for loop")
    loop = body[0]
    r = un(loop.target)
    if un(loop.iter) != "range(self._n_rows)" or loop.orelse or len(loop.body) != 1 or not isinstance(loop.body[0], ast.If):
        raise Untranslatable("_idxs_to_calculate: loop header / guard")
    g = loop.body[0]
    if un(g.test) != f"{r} not in self._calculated_rows" or g.orelse:
        raise Untranslatable(f"_idxs_to_calculate: guard `{un(g.test)}`")
    inner = strip(g.body)
    if any("_calculated_rows" in un(st) for st in inner):
        raise Untranslatable("_idxs_to_calculate: the generator touches _calculated_rows (rows are to be marked by the caller, after they are stored)")
    names = {r: "row_idx"}
    local = {}
    y = None
    for st in inner:
        if isinstance(st, ast.Assign) and len(st.targets) == 1 and isinstance(st.targets[0], ast.Name):
            local[st.targets[0].id] = nat_expr(st.value, {**names, **local}, "_idxs_to_calculate")
        elif isinstance(st, ast.Expr) and isinstance(st.value, ast.Yield):
            y = st.value.value
        else:
            raise Untranslatable(f"_idxs_to_calculate: statement `{un(st)[:50]}`")
    if not (isinstance(y, ast.Tuple) and len(y.elts) == 2):
        raise Untranslatable("_idxs_to_calculate: yield is not a pair")
    a = nat_expr(y.elts[0], {**names, **local}, "_idxs_to_calculate")
    c = nat_expr(y.elts[1], {**names, **local}, "_idxs_to_calculate")
    return [f"(* {where(cls, f)}: for row_idx in range(_n_rows): if row_idx not in _calculated_rows: yield (atom_idx, component)  [no side effect] *)",
            f"Definition gen_atom_idx (row_idx : nat) : nat := {a}.",
            f"Definition gen_component (row_idx : nat) : nat := {c}."]


def tr_placement(cls):
    out = []
    # serial
    f = find_method(cls, "_calculate_in_serial")
    body = strip(f.body)
    if body and isinstance(body[-1], ast.Return) and un(body[-1]) == "return None":
        body = body[:-1]
    if len(body) != 1 or not isinstance(body[0], ast.For):
        raise Untranslatable("_calculate_in_serial: not a single for loop")
    loop = body[0]
    if un(loop.iter) != "self._idxs_to_calculate()" or not (isinstance(loop.target, ast.Tuple) and len(loop.target.elts) == 2
                                                            and all(isinstance(e, ast.Name) for e in loop.target.elts)):
        raise Untranslatable(f"_calculate_in_serial: loop is `for {un(loop.target)} in {un(loop.iter)}`, expected "
                             "`for i, k in self._idxs_to_calculate()`")
    i, k = (e.id for e in loop.target.elts)
    lb = strip(loop.body)
    want_row = f"row = self._cdiff_row({i}, {k}) if self._do_c_diff else self._diff_row({i}, {k})"
    if len(lb) != 3 or un(lb[0]) != want_row:
        raise Untranslatable("_calculate_in_serial: expected `row = ..`, `self._hessian[idx, :] = row`, `self._calculated_rows.append(idx)`")
    mk = lb[2]
    if not (isinstance(mk, ast.Expr) and isinstance(mk.value, ast.Call) and un(mk.value.func) == "self._calculated_rows.append"
            and len(mk.value.args) == 1):
        raise Untranslatable("_calculate_in_serial: the row is not marked as calculated right after it is stored")
    mark = nat_expr(mk.value.args[0], {i: "i", k: "k"}, "_calculate_in_serial")
    st = lb[1]
    if not (isinstance(st, ast.Assign) and isinstance(st.targets[0], ast.Subscript) and un(st.targets[0].value) == "self._hessian"
            and isinstance(st.targets[0].slice, ast.Tuple) and len(st.targets[0].slice.elts) == 2
            and un(st.targets[0].slice.elts[1]) == ":" and un(st.value) == "row"):
        raise Untranslatable("_calculate_in_serial: row store changed")
    e = nat_expr(st.targets[0].slice.elts[0], {i: "i", k: "k"}, "_calculate_in_serial")
    out += [f"(* {where(cls, f)}: self._hessian[<idx>, :] = row ; self._calculated_rows.append(<mark>) *)",
            f"Definition gen_row_serial (i k : nat) : nat := {e}.",
            f"Definition gen_mark_serial (i k : nat) : nat := {mark}."]
    # parallel
    f = find_method(cls, "calculate")
    body = strip(f.body)
    withs = [st for st in body if isinstance(st, ast.With)]
    if len(withs) != 1 or "ProcessPool(max_workers=self._n_total_cores)" not in un(withs[0].items[0]):
        raise Untranslatable("calculate: process pool block")
    want_pre = ["if not self._do_c_diff:\n    self._init_gradient = self._gradient(species=self._species)",
                "if mp.parent_process() is not None:\n    return self._calculate_in_serial()",
                "return None"]
    # logger calls inside `if` bodies are stripped for the comparison
    def norm_if(st):
        if isinstance(st, ast.If):
            st = ast.If(test=st.test, body=strip(st.body), orelse=st.orelse)
            ast.fix_missing_locations(st)
        return un(st)
    pre_n = [norm_if(st) for st in body if not isinstance(st, ast.With)]
    if pre_n != want_pre:
        raise Untranslatable("calculate: statements around the pool changed: " + " | ".join(pre_n)[:300])
    wb = strip(withs[0].body)
    if len(wb) != 3 or un(wb[0]) != "func_name = '_cdiff_row' if self._do_c_diff else '_diff_row'":
        raise Untranslatable("calculate: func_name selection changed")
    jobs = wb[1]
    if not (isinstance(jobs, ast.Assign) and un(jobs.targets[0]) == "jobs" and isinstance(jobs.value, ast.ListComp)
            and len(jobs.value.generators) == 1):
        raise Untranslatable("calculate: jobs list")
    g = jobs.value.generators[0]
    if un(g.iter) != "self._idxs_to_calculate()" or g.ifs or not (isinstance(g.target, ast.Tuple) and len(g.target.elts) == 2):
        raise Untranslatable("calculate: jobs generator")
    i, k = (un(e) for e in g.target.elts)
    elt = jobs.value.elt
    if not (isinstance(elt, ast.Tuple) and len(elt.elts) == 2):
        raise Untranslatable("calculate: a job does not carry the row index it is computed for (expected `(idx, pool.submit(..))`)")
    if un(elt.elts[1]) != f"pool.submit(hashable(func_name, self), {i}, {k})":
        raise Untranslatable("calculate: submitted call changed")
    e = nat_expr(elt.elts[0], {i: "i", k: "k"}, "calculate")
    coll = wb[2]
    if not (isinstance(coll, ast.For) and un(coll.iter) == "jobs" and isinstance(coll.target, ast.Tuple) and len(coll.target.elts) == 2):
        raise Untranslatable("calculate: collection loop")
    ri, rw = (un(x) for x in coll.target.elts)
    cb = strip(coll.body)
    if len(cb) != 2 or un(cb[0]) != f"self._hessian[{ri}, :] = {rw}.result()" or un(cb[1]) != f"self._calculated_rows.append({ri})":
        raise Untranslatable("calculate: expected `self._hessian[idx, :] = row.result()` followed by `self._calculated_rows.append(idx)`")
    out += [f"(* {where(cls, f)}: jobs = [(<idx>, submit(i, k)) ...]; self._hessian[idx, :] = result ; _calculated_rows.append(idx) *)",
            f"Definition gen_row_parallel (i k : nat) : nat := {e}."]
    return out


def tr_rows(cls):
    out = []
    fe_names = {"self._shift": "shift"}
    fe = FEnv({}, fe_names)

    def parse_row(name):
        f = find_method(cls, name)
        if [a.arg for a in f.args.args] != ["self", "atom_idx", "component"]:
            raise Untranslatable(f"{name}: signature")
        body = strip(f.body)
        sp = {}
        row = None
        for st in body:
            if isinstance(st, ast.Assign) and isinstance(st.value, ast.Call) and un(st.value.func) == "self._new_species":
                c = st.value
                kw = {x.arg: x.value for x in c.keywords}
                if [un(a) for a in c.args] != ["atom_idx", "component"] or set(kw) != {"direction"} \
                        or not isinstance(kw["direction"], ast.Constant) or kw["direction"].value not in ("+", "-"):
                    raise Untranslatable(f"{name}: _new_species call `{un(c)}`")
                sp[un(st.targets[0])] = "g_plus" if kw["direction"].value == "+" else "g_minus"
            elif isinstance(st, ast.Assign) and un(st.targets[0]) == "row":
                row = st.value
            elif isinstance(st, ast.Return) and un(st.value) == "row":
                pass
            else:
                raise Untranslatable(f"{name}: statement `{un(st)[:60]}`")
        if row is None:
            raise Untranslatable(f"{name}: no row")
        used = set()

        def v(node):
            s = un(node)
            if isinstance(node, ast.Call) and un(node.func) == "self._gradient" and len(node.args) == 1 and not node.keywords \
                    and un(node.args[0]) in sp:
                used.add(sp[un(node.args[0])])
                return sp[un(node.args[0])]
            if s == "self._init_gradient":
                used.add("g_init")
                return "g_init"
            if isinstance(node, ast.BinOp):
                if isinstance(node.op, ast.Sub):
                    return f"(Vsub E {v(node.left)} {v(node.right)})"
                if isinstance(node.op, ast.Add):
                    return f"(Vadd E {v(node.left)} {v(node.right)})"
                if isinstance(node.op, ast.Div) and is_scalar(node.right, fe):
                    return f"(Vdivs E {v(node.left)} {fe.tr(node.right, name)})"
                if isinstance(node.op, ast.Mult) and is_scalar(node.left, fe):
                    return f"(Vscal E {fe.tr(node.left, name)} {v(node.right)})"
            raise Untranslatable(f"{name}: expression `{s}`")
        return f, v(row), used
    f, e, used = parse_row("_diff_row")
    if used != {"g_plus", "g_init"}:
        raise Untranslatable("_diff_row: does not use exactly the + displaced and the initial gradient")
    out += [f"(* {where(cls, f)} *)",
            f"Definition gen_diff_row (g_plus g_init : Vec E) (shift : F) : Vec E := {e}."]
    f, e, used = parse_row("_cdiff_row")
    if used != {"g_plus", "g_minus"}:
        raise Untranslatable("_cdiff_row: does not use exactly the + and - displaced gradients")
    out += [f"(* {where(cls, f)} *)",
            f"Definition gen_cdiff_row (g_plus g_minus : Vec E) (shift : F) : Vec E := {e}."]
    # displacement
    f = find_method(cls, "_new_species")
    src = un(f)
    f2 = find_method(cls, "_shift_vector")
    b2 = [un(s) for s in strip(f2.body)]
    if b2 != ["vec = np.zeros(shape=(3,))", "vec[component] += float(self._shift)", "return vec"]:
        raise Untranslatable("_shift_vector: structure changed")
    need = ["species = self._species.new_species()", "vec = self._shift_vector(component=component)"]
    for nd in need:
        if nd not in src:
            raise Untranslatable(f"_new_species: missing `{nd}`")
    tr = [st for st in ast.walk(f) if isinstance(st, ast.Call) and un(st.func) == "species.atoms[atom_idx].translate"]
    if len(tr) != 1 or len(tr[0].args) != 1 or not isinstance(tr[0].args[0], ast.IfExp):
        raise Untranslatable("_new_species: translate call")
    ie = tr[0].args[0]
    if un(ie.test) != "direction == '+'":
        raise Untranslatable("_new_species: direction test")
    m = {"vec": "shift", "-vec": "(Fopp shift)"}
    if un(ie.body) not in m or un(ie.orelse) not in m:
        raise Untranslatable("_new_species: displacement vectors")
    out += [f"(* {where(cls, f)} with {where(cls, f2)}: component `component` of atom `atom_idx` is moved by *)",
            f"Definition gen_displacement (plus : bool) (shift : F) : F := if plus then {m[un(ie.body)]} else {m[un(ie.orelse)]}."]
    # the gradient is evaluated with the CURRENT self._method / self._keywords
    g = find_method(cls, "_gradient")
    gs = un(g)
    for nd in ("method=self._method", "keywords=self._keywords", "molecule=species", "calc.run()", "return species.gradient.flatten()"):
        if nd not in gs:
            raise Untranslatable(f"_gradient: missing `{nd}`")
    return out


def tr_hybrid(cls):
    f = find_method(cls, "_remove_h_method_rows")
    body = strip(f.body)
    if body and un(body[-1]) == "return None":
        body = body[:-1]
    if len(body) != 1 or not isinstance(body[0], ast.For) or un(body[0].iter) != "self._hmethod_atom_idxs":
        raise Untranslatable("_remove_h_method_rows: outer loop")
    a = un(body[0].target)
    ib = strip(body[0].body)
    if len(ib) != 1 or not isinstance(ib[0], ast.For):
        raise Untranslatable("_remove_h_method_rows: inner loop")
    inner = ib[0]
    it = inner.iter
    if not (isinstance(it, ast.Call) and un(it.func) == "enumerate" and len(it.args) == 1 and isinstance(it.args[0], (ast.Tuple, ast.List))
            and isinstance(inner.target, ast.Tuple) and len(inner.target.elts) == 2):
        if isinstance(it, ast.Call) and un(it.func) == "range" and len(it.args) == 1 and isinstance(it.args[0], ast.Constant):
            ncomp, c = it.args[0].value, un(inner.target)
        else:
            raise Untranslatable("_remove_h_method_rows: inner iterator")
    else:
        ncomp, c = len(it.args[0].elts), un(inner.target.elts[0])
    st = strip(inner.body)
    if len(st) != 1 or not (isinstance(st[0], ast.Expr) and isinstance(st[0].value, ast.Call)
                             and un(st[0].value.func) == "self._calculated_rows.remove" and len(st[0].value.args) == 1):
        raise Untranslatable("_remove_h_method_rows: body")
    e = nat_expr(st[0].value.args[0], {a: "atom_idx", c: "c"}, "_remove_h_method_rows")
    out = [f"(* {where(cls, f)} *)",
           f"Definition gen_hrow (atom_idx c : nat) : nat := {e}.",
           f"Definition gen_hrow_components : nat := {ncomp}."]
    # two passes
    f = find_method(cls, "calculate")
    body = [un(s) for s in strip(f.body)]
    want = ["super().calculate()", "self._remove_h_method_rows()", "self._method = self._hmethod",
            "self._keywords = self._hmethod.keywords.grad", "super().calculate()", "return None"]
    if body != want:
        raise Untranslatable("HybridHessianCalculator.calculate: two-pass structure changed: " + " ; ".join(body)[:300])
    init = un(find_method(cls, "__init__"))
    for nd in ("method=lmethod", "do_c_diff=False", "if not set(idxs).issubset(set(range(species.n_atoms))):",
               "self._hmethod_atom_idxs = set(idxs)"):
        if nd not in init:
            raise Untranslatable(f"HybridHessianCalculator.__init__: missing `{nd}`")
    out.append(f"(* {where(cls, f)}: pass 1 (low level, all rows) ; remove rows ; switch method ; pass 2 — shape verified *)")
    return out


def main():
    hsrc = open(os.path.join(REPO, "autode/hessians.py")).read()
    csrc = open(os.path.join(REPO, "autode/constants.py")).read()
    cenv, _ = parse_constants(csrc)
    tree = ast.parse(hsrc)
    H = find_class(tree, "Hessian")
    N = find_class(tree, "NumericalHessianCalculator")
    Y = find_class(tree, "HybridHessianCalculator")
    if [un(b) for b in Y.bases] != ["NumericalHessianCalculator"]:
        raise Untranslatable("HybridHessianCalculator base class")
    sha = hashlib.sha256((hsrc + csrc).encode()).hexdigest()
    L = ["(* GENERATED by /verif/tr/translate_c11.py from autode/hessians.py, autode/constants.py — do not edit.",
         f"   source sha256 = {sha} *)",
         "From Coq Require Import ZArith List String Arith Bool.",
         "From AV.lib Require Import Sums.",
         "From AV.C11 Require Import Base.",
         "Import ListNotations.",
         "",
         "(* ---- index arithmetic (nat / Z only) ---- *)"]
    for part in (tr_cached(H), tr_n_tr(H), tr_n_v(H), tr_n_rows(N), tr_idxs(N), tr_placement(N), tr_hybrid(Y)):
        L += part + [""]
    L += ["(* ---- formulas over an arithmetic environment ---- *)",
          "Section C11Gen.",
          "Variable E : fenv.",
          "Notation F := (fF E).", "Notation F0 := (f0 E).", "Notation Fadd := (fadd E).", "Notation Fmul := (fmul E).",
          "Notation Fsub := (fsub E).", "Notation Fopp := (fopp E).", "Notation Fdiv := (fdiv E).",
          "Notation fsqrt := (fsqrt E).", "Notation pi := (fpi E).",
          "Notation Cst := (Base.cst E).",
          "Notation Re := (Base.Re E).", "Notation Im := (Base.Im E).",
          "Notation ri_sqrt := (Base.ri_sqrt E).", "Notation ri_div_real := (Base.ri_div_real E).",
          "Notation ri_mul_real := (Base.ri_mul_real E).", "Notation ri_iscomplex := (Base.ri_iscomplex E).",
          "Notation ri_abs := (Base.ri_abs E).", "Notation ri_real := (Base.ri_real E).", ""]
    for part in (tr_mass_weighted(H), tr_scale(H), tr_freqs(H, cenv), tr_freqs_proj(H), tr_symmetrise(N), tr_rows(N)):
        L += part + [""]
    L.append("End C11Gen.")
    txt = "\n".join(L) + "\n"
    os.makedirs(os.path.dirname(OUT), exist_ok=True)
    old = open(OUT).read() if os.path.exists(OUT) else None
    if old != txt:
        _tmp = OUT + ".tmp%d" % os.getpid()
        with open(_tmp, "w") as fh:
            fh.write(txt)
        os.replace(_tmp, OUT)  # atomic: a concurrent coqc never sees a partial file
    return {"sha256": sha, "definitions": txt.count("Definition ")}


if __name__ == "__main__":
    try:
        print("translated:", main())
    except Untranslatable as e:
        print("UNTRANSLATABLE:", e)
        sys.exit(3)
