#!/usr/bin/env python3
"""Fail-closed translator for property C15 (calculation identity / registry / reuse / clean-up):

    autode/calculations/executors.py :: CalculationExecutor.__str__            (fields that are hashed)
                                        _string_without_leading_hyphen, __init__ (name construction)
                                        _fix_unique                            (registry line format / parse rule)
                                        _execute_external                      (reuse decision)
                                        clean_up                               (file selection rule)
                                        CalculationExecutorO.__init__/run      (name unique before the trajectory lookup)
    autode/species/species.py        :: Species.__str__
    autode/constraints.py            :: Constraints.__str__, Constraints.cartesian
    autode/wrappers/*.py             :: input_filename_for / output_filename_for  (file names = name + extension)
                                                                   ->  coq/gen/C15_Gen.v

Only the Python `ast` is read; nothing of /repo is imported or executed.  The emitted model
parameters are

    id_fields    : list ifield     the request fields the identity string concatenates, in order
                                   (Species / Constraints expanded in place)
    reuse_rule   : bool -> bool -> bool   the skip condition of _execute_external over
                                   (output.exists, terminated_normally)
    match_rule   : mrule           how clean_up(everything=True) selects directory entries
    tokens_required : nat          the `len(line.split()) == N` test of the registry reader
    hyphen_rule  : bool            True when a leading '-' is replaced by '_-'
    ext_table    : list (string * string * string)   (method name, input ext, output ext)

Any f-string piece, statement or expression outside the whitelisted vocabulary raises
Untranslatable (exit status 3): the model is then not tied to the source and the property is not
shown.
"""
import ast
import glob
import hashlib
import os
import sys

REPO = os.environ.get("VERIF_REPO", "/repo")
OUT = "/verif/coq/gen/C15_Gen.v"


class Untranslatable(Exception):
    pass


def cstr(s):
    if '"' in s or "\n" in s or "\\" in s or any(ord(c) < 32 or ord(c) > 126 for c in s):
        raise Untranslatable(f"string {s!r}")
    return '"' + s + '"'


def norm(s):
    """whitespace-insensitive form used for the structural needles"""
    return " ".join(s.split())


def find_class(tree, name, where):
    cs = [n for n in tree.body if isinstance(n, ast.ClassDef) and n.name == name]
    if len(cs) != 1:
        raise Untranslatable(f"{where}: class {name} not found")
    return cs[0]


def find_func(body, name, where):
    fs = [n for n in body if isinstance(n, ast.FunctionDef) and n.name == name]
    if len(fs) != 1:
        raise Untranslatable(f"{where}: def {name} not found (or defined twice)")
    return fs[0]


def strip_doc(body):
    if body and isinstance(body[0], ast.Expr) and isinstance(body[0].value, ast.Constant) \
            and isinstance(body[0].value.value, str):
        return body[1:]
    return body


def fstring_pieces(node, where):
    """-> list of ('lit', text) | ('expr', source text, conversion)"""
    if not isinstance(node, ast.JoinedStr):
        raise Untranslatable(f"{where}: not an f-string: {ast.unparse(node)[:80]}")
    out = []
    for v in node.values:
        if isinstance(v, ast.Constant) and isinstance(v.value, str):
            out.append(("lit", v.value))
        elif isinstance(v, ast.FormattedValue):
            if v.format_spec is not None:
                raise Untranslatable(f"{where}: format spec in f-string")
            out.append(("expr", ast.unparse(v.value), v.conversion))
        else:
            raise Untranslatable(f"{where}: f-string piece {type(v).__name__}")
    return out


# ------------------------------------------------------------------------------------------------
def species_fields(ssrc):
    """Species.__str__ -> list of ifield terms"""
    cls = find_class(ast.parse(ssrc), "Species", "species.py")
    fn = find_func(cls.body, "__str__", "Species")
    body = strip_doc(fn.body)
    local = {}
    ret = None
    for st in body:
        if isinstance(st, ast.If):
            # if self.atoms is None: atoms_str = "" else: atoms_str = "".join([atom.label for atom in self.atoms[:N]])
            if ast.unparse(st.test) != "self.atoms is None":
                raise Untranslatable("Species.__str__: unexpected if-test " + ast.unparse(st.test))
            if len(st.body) != 1 or ast.unparse(st.body[0]) != "atoms_str = ''":
                raise Untranslatable("Species.__str__: atoms None branch changed")
            if len(st.orelse) != 1 or not isinstance(st.orelse[0], ast.Assign) \
                    or ast.unparse(st.orelse[0].targets[0]) != "atoms_str":
                raise Untranslatable("Species.__str__: atoms branch changed")
            val = st.orelse[0].value
            src = ast.unparse(val)
            ok = False
            if isinstance(val, ast.Call) and ast.unparse(val.func) == "''.join" and len(val.args) == 1 \
                    and isinstance(val.args[0], (ast.ListComp, ast.GeneratorExp)):
                comp = val.args[0]
                if ast.unparse(comp.elt) == "atom.label" and len(comp.generators) == 1 \
                        and ast.unparse(comp.generators[0].target) == "atom" and not comp.generators[0].ifs:
                    it = comp.generators[0].iter
                    if ast.unparse(it) == "self.atoms":
                        local["atoms_str"] = "IAtomsAll"
                        ok = True
                    elif isinstance(it, ast.Subscript) and ast.unparse(it.value) == "self.atoms" \
                            and isinstance(it.slice, ast.Slice) and it.slice.lower is None \
                            and it.slice.step is None and isinstance(it.slice.upper, ast.Constant) \
                            and isinstance(it.slice.upper.value, int) and it.slice.upper.value >= 0:
                        local["atoms_str"] = f"(IAtomsFirst {it.slice.upper.value})"
                        ok = True
            if not ok:
                raise Untranslatable("Species.__str__: atoms_str = " + src[:100])
        elif isinstance(st, ast.Assign) and len(st.targets) == 1 and isinstance(st.targets[0], ast.Name):
            tgt, src = st.targets[0].id, ast.unparse(st.value)
            if tgt == "solv_str" and src == "self.solvent.name if self.solvent is not None else 'none'":
                local["solv_str"] = "ISolvent"
            else:
                raise Untranslatable(f"Species.__str__: assignment {tgt} = {src[:80]}")
        elif isinstance(st, ast.Return):
            ret = st.value
        else:
            raise Untranslatable(f"Species.__str__: statement {type(st).__name__}")
    if ret is None:
        raise Untranslatable("Species.__str__: no return")
    direct = {"self.name": "ISpName", "self.charge": "ICharge", "self.mult": "IMult"}
    out = []
    for p in fstring_pieces(ret, "Species.__str__"):
        if p[0] == "lit":
            continue   # separators: the identity is modelled as the TUPLE of fields
        _, src, conv = p
        if conv != -1:
            raise Untranslatable("Species.__str__: conversion in f-string")
        if src in direct:
            out.append(direct[src])
        elif src in local:
            out.append(local[src])
        else:
            raise Untranslatable(f"Species.__str__: field `{src}`")
    return out


def distance_repr_decimals():
    """Distance.__repr__ (values.py) prints round(self, N): -> N"""
    vsrc = open(os.path.join(REPO, "autode/values.py")).read()
    cls = find_class(ast.parse(vsrc), "Distance", "values.py")
    rets = [n for n in ast.walk(find_func(cls.body, "__repr__", "Distance")) if isinstance(n, ast.Return)]
    if len(rets) == 1:
        for n in ast.walk(rets[0]):
            if isinstance(n, ast.Call) and ast.unparse(n.func) == "round" and len(n.args) == 2 \
                    and ast.unparse(n.args[0]) == "self" and isinstance(n.args[1], ast.Constant) \
                    and isinstance(n.args[1].value, int) and 0 <= n.args[1].value <= 12:
                return n.args[1].value
    raise Untranslatable("Distance.__repr__ is not f'...{round(self, N)}...'")


def point_charges_helper(tree):
    """_point_charges_str must print EVERY charge and coordinate exactly (python floats in a list)."""
    fns = [n for n in tree.body if isinstance(n, ast.FunctionDef) and n.name == "_point_charges_str"]
    if len(fns) != 1:
        raise Untranslatable("_point_charges_str not found")
    body = [norm(ast.unparse(st)) for st in strip_doc(fns[0].body)]
    want = [norm("if point_charges is None: return ''"),
            norm("return str([(pc.charge, *(float(x) for x in pc.coord)) for pc in point_charges])")]
    if body != want:
        raise Untranslatable("_point_charges_str: body is not the exact list of (charge, x, y, z) python floats")


def constraint_fields(csrc):
    cls = find_class(ast.parse(csrc), "Constraints", "constraints.py")
    fn = find_func(cls.body, "__str__", "Constraints")
    body = strip_doc(fn.body)
    out = []
    if not body or ast.unparse(body[0]) != "string = ''":
        raise Untranslatable("Constraints.__str__: initialisation changed")
    for st in body[1:]:
        if isinstance(st, ast.If):
            test = ast.unparse(st.test)
            if len(st.body) != 1 or st.orelse or not isinstance(st.body[0], ast.AugAssign) \
                    or not isinstance(st.body[0].op, ast.Add) or ast.unparse(st.body[0].target) != "string":
                raise Untranslatable("Constraints.__str__: if-body changed")
            val = st.body[0].value
            src = ast.unparse(val)
            if test == "self.cartesian is not None" and src == "str(self.cartesian)":
                out.append("ICart")
            elif test == "self.distance is not None":
                # str({key: round(val, D) for key, val in self.distance.items()})
                if src in ("str(dict(self.distance))", "str({key: val for (key, val) in self.distance.items()})"):
                    # the values are Distance objects: their repr is what gets printed
                    out.append(f"(IDistRound {distance_repr_decimals()})")
                elif src in ("str({key: float(val) for (key, val) in self.distance.items()})",
                             "str({key: repr(float(val)) for (key, val) in self.distance.items()})"):
                    out.append("IDistExact")
                elif isinstance(val, ast.Call) and ast.unparse(val.func) == "str" and len(val.args) == 1 \
                        and isinstance(val.args[0], ast.DictComp):
                    dc = val.args[0]
                    if ast.unparse(dc.key) == "key" and len(dc.generators) == 1 \
                            and ast.unparse(dc.generators[0].target) == "(key, val)" \
                            and ast.unparse(dc.generators[0].iter) == "self.distance.items()" \
                            and not dc.generators[0].ifs and isinstance(dc.value, ast.Call) \
                            and ast.unparse(dc.value.func) == "round" and len(dc.value.args) == 2 \
                            and ast.unparse(dc.value.args[0]) == "val" \
                            and isinstance(dc.value.args[1], ast.Constant) \
                            and isinstance(dc.value.args[1].value, int) and 0 <= dc.value.args[1].value <= 12:
                        out.append(f"(IDistRound {dc.value.args[1].value})")
                    else:
                        raise Untranslatable("Constraints.__str__: distance dict " + src[:100])
                else:
                    raise Untranslatable("Constraints.__str__: distance " + src[:100])
            else:
                raise Untranslatable(f"Constraints.__str__: if {test}: string += {src[:60]}")
        elif isinstance(st, ast.Return):
            ps = fstring_pieces(st.value, "Constraints.__str__")
            if [p for p in ps if p[0] == "expr"] != [("expr", "string", -1)]:
                raise Untranslatable("Constraints.__str__: return value changed")
        else:
            raise Untranslatable(f"Constraints.__str__: statement {type(st).__name__}")
    # the `cartesian` property must keep its set semantics (printed list = list(set(...)))
    props = [n for n in cls.body if isinstance(n, ast.FunctionDef) and n.name == "cartesian"
             and any(isinstance(d, ast.Name) and d.id == "property" for d in n.decorator_list)]
    if len(props) != 1 or "return None if len(self._cartesian) == 0 else list(set(self._cartesian))" \
            not in ast.unparse(props[0]):
        raise Untranslatable("Constraints.cartesian property changed")
    return out


def calc_fields(esrc, sp_fields, k_fields):
    tree = ast.parse(esrc)
    cls = find_class(tree, "CalculationExecutor", "executors.py")
    fn = find_func(cls.body, "__str__", "CalculationExecutor")
    body = strip_doc(fn.body)
    if len(body) != 3:
        raise Untranslatable("CalculationExecutor.__str__: expected 3 statements")
    if not (isinstance(body[0], ast.Assign) and ast.unparse(body[0].targets[0]) == "string"):
        raise Untranslatable("CalculationExecutor.__str__: first statement is not `string = f'...'`")
    if ast.unparse(body[1]) != "hasher = hashlib.sha1(string.encode()).digest()":
        raise Untranslatable("CalculationExecutor.__str__: hashing statement changed")
    if ast.unparse(body[2]) != "return base64.urlsafe_b64encode(hasher).decode()":
        raise Untranslatable("CalculationExecutor.__str__: encoding statement changed")
    out = []
    for p in fstring_pieces(body[0].value, "CalculationExecutor.__str__"):
        if p[0] == "lit":
            continue
        _, src, conv = p
        if src == "self.name" and conv == -1:
            out.append("IFinalName")
        elif src == "self.method.name" and conv == -1:
            out.append("IMethod")
        elif (src == "repr(self.input.keywords)" and conv == -1) or (src == "self.input.keywords" and conv == ord("r")):
            out.append("IKeywords")
        elif src == "self.molecule" and conv in (-1, ord("s")):
            out += sp_fields
        elif src == "self.method.implicit_solvation_type" and conv == -1:
            out.append("ISolvType")
        elif src == "self.molecule.constraints" and conv in (-1, ord("s"), ord("r")):
            out += k_fields
        elif src == "_point_charges_str(self.input.point_charges)" and conv == -1:
            point_charges_helper(tree)
            out.append("IPointCharges")
        else:
            raise Untranslatable(f"CalculationExecutor.__str__: hashed piece `{src}` (conversion {conv})")
    if "IFinalName" not in out:
        raise Untranslatable("CalculationExecutor.__str__: self.name is not part of the identity")
    return out, cls, tree


# ------------------------------------------------------------------------------------------------
def bool_expr(node, atoms, where):
    if isinstance(node, ast.BoolOp):
        op = "&&" if isinstance(node.op, ast.And) else "||"
        return "(" + f" {op} ".join(bool_expr(v, atoms, where) for v in node.values) + ")"
    if isinstance(node, ast.UnaryOp) and isinstance(node.op, ast.Not):
        return f"(negb {bool_expr(node.operand, atoms, where)})"
    if isinstance(node, ast.Constant) and isinstance(node.value, bool):
        return "true" if node.value else "false"
    src = ast.unparse(node)
    if src in atoms:
        return atoms[src]
    raise Untranslatable(f"{where}: condition atom `{src}`")


def reuse_rule(cls):
    """_execute_external: the `if <cond>: ... return None` that skips the external program."""
    fn = find_func(cls.body, "_execute_external", "CalculationExecutor")
    body = strip_doc(fn.body)
    src = [ast.unparse(s) for s in body]
    skips = [s for s in body if isinstance(s, ast.If) and "Skipping" in ast.unparse(s)]
    if len(skips) != 1 or skips[0].orelse or not isinstance(skips[0].body[-1], ast.Return):
        raise Untranslatable("_execute_external: skip branch not recognised")
    rule = bool_expr(skips[0].test, {"self.output.exists": "e", "self.terminated_normally": "n"},
                     "_execute_external")
    # what follows the skip must still clear the cached output and call the program
    idx = body.index(skips[0])
    tail = src[idx + 1:]
    if "self.output.clear()" not in tail or "self.method.execute(self)" not in tail:
        raise Untranslatable("_execute_external: execution tail changed")
    if tail.index("self.output.clear()") > tail.index("self.method.execute(self)"):
        raise Untranslatable("_execute_external: output cache cleared after execution")
    for s in body[:idx]:
        if "self.method.execute" in ast.unparse(s) or isinstance(s, ast.Return):
            raise Untranslatable("_execute_external: program may run / return before the skip test")
    return rule


def cleanup_rule(cls):
    fn = find_func(cls.body, "clean_up", "CalculationExecutor")
    src = norm(ast.unparse(fn))
    for needle in ("if not self.method.uses_external_io: return None",
                   "if Config.keep_input_files and (not force):",
                   "filenames = self.input.filenames",
                   "if everything: filenames.append(self.output.filename) filenames += [fn for fn in os.listdir() if",
                   "for filename in [fn for fn in set(filenames) if fn is not None]:",
                   "os.remove(filename)"):
        if norm(needle) not in src:
            raise Untranslatable(f"clean_up: structure changed (missing `{needle[:60]}`)")
    comps = [n for n in ast.walk(fn) if isinstance(n, ast.ListComp) and "os.listdir()" in ast.unparse(n)]
    if len(comps) != 1 or len(comps[0].generators) != 1 or len(comps[0].generators[0].ifs) != 1 \
            or ast.unparse(comps[0].elt) != "fn" or ast.unparse(comps[0].generators[0].iter) != "os.listdir()":
        raise Untranslatable("clean_up: directory selection not recognised")
    test = ast.unparse(comps[0].generators[0].ifs[0])
    rules = {"fn.startswith(self.name)": "MPrefix",
             "fn.startswith(f'{self.name}.')": "MPrefixDot",
             "fn.startswith(self.name + '.')": "MPrefixDot"}
    if test not in rules:
        raise Untranslatable(f"clean_up: selection test `{test}`")
    return rules[test]


def registry_rules(cls, tree):
    fn = find_func(cls.body, "_fix_unique", "CalculationExecutor")
    src = norm(ast.unparse(fn))
    toks = None
    for n in ast.walk(fn):
        if isinstance(n, ast.Compare) and ast.unparse(n.left) == "len(line.split())" and len(n.ops) == 1 \
                and isinstance(n.ops[0], ast.Eq) and isinstance(n.comparators[0], ast.Constant):
            toks = n.comparators[0].value
    if toks != 2:
        raise Untranslatable("_fix_unique: registry line test is not `len(line.split()) == 2`")
    for needle in ("print(self.name, str(self), file=register_file)",
                   "with open(register_name, 'a') as register_file:",
                   "return any((reg_name == self.name for reg_name in register.keys()))",
                   "return any((reg_id == str(self) for reg_id in register.values()))",
                   "if not os.path.exists(register_name):",
                   "if len(line.split()) == 2: calc_name, identifier = line.split() register[calc_name] = identifier",
                   "name, n = (self.name, 0) while True:",
                   "self.name = f'{name}{n}'",
                   "n += 1"):
        if norm(needle) not in src:
            raise Untranslatable(f"_fix_unique: structure changed (missing `{needle[:60]}`)")
    # statement order of the decision:  identical? -> return ; not exists? -> append, return ; loop
    body = strip_doc(fn.body)
    tops = [ast.unparse(s).split("\n")[0] for s in body]
    want = ["def append_register():", "def exists():", "def is_identical():", "if not os.path.exists(register_name):",
            "register = {}", "for line in open(register_name, 'r'):", "if is_identical():", "if not exists():"]
    pos = []
    for w in want:
        if w not in tops:
            raise Untranslatable(f"_fix_unique: statement `{w}` missing")
        pos.append(tops.index(w))
    if pos != sorted(pos):
        raise Untranslatable("_fix_unique: statement order changed")
    loops = [s for s in body if isinstance(s, ast.While)]
    if len(loops) != 1 or ast.unparse(loops[0].test) != "True":
        raise Untranslatable("_fix_unique: suffix loop not recognised")
    ltops = [ast.unparse(s).split("\n")[0] for s in loops[0].body if not
             (isinstance(s, ast.Expr) and "logger" in ast.unparse(s))]
    if ltops != ["self.name = f'{name}{n}'", "if is_identical():", "if not exists():", "n += 1"]:
        raise Untranslatable(f"_fix_unique: suffix loop body changed: {ltops}")
    # generate_input consults the registry unless AUTODE_FIXUNIQUE == 'False', before file names are fixed
    gi = ast.unparse(find_func(cls.body, "generate_input", "CalculationExecutor"))
    a = gi.find("self._fix_unique()")
    b = gi.find("self.input.filename = self.method.input_filename_for(self)")
    if a < 0 or b < 0 or a > b or "if os.getenv('AUTODE_FIXUNIQUE', True) != 'False':" not in gi:
        raise Untranslatable("generate_input: registry consultation changed")
    run = ast.unparse(find_func(cls.body, "run", "CalculationExecutor"))
    order = ["self.generate_input()", "self.output.filename = self.method.output_filename_for(self)",
             "self._execute_external()", "self.set_properties()", "self.clean_up()"]
    ps = [run.find(o) for o in order]
    if min(ps) < 0 or ps != sorted(ps):
        raise Untranslatable("CalculationExecutor.run: step order changed")
    # the external branch of run() is exactly these five unconditional steps (the output file name is
    # re-derived from the final name on EVERY run)
    runf = find_func(cls.body, "run", "CalculationExecutor")
    ext = [st for st in strip_doc(runf.body) if isinstance(st, ast.If) and ast.unparse(st.test) == "self.method.uses_external_io"]
    if len(ext) != 1 or [ast.unparse(x) for x in ext[0].body] != order:
        raise Untranslatable("CalculationExecutor.run: the external-io branch is no longer the five unconditional steps")
    # name construction
    init = ast.unparse(find_func(cls.body, "__init__", "CalculationExecutor"))
    if "self.name = f'{_string_without_leading_hyphen(name)}_{method.name}'" not in init:
        raise Untranslatable("CalculationExecutor.__init__: name construction changed")
    hy = [n for n in tree.body if isinstance(n, ast.FunctionDef) and n.name == "_string_without_leading_hyphen"]
    if len(hy) != 1:
        raise Untranslatable("_string_without_leading_hyphen missing")
    hsrc = ast.unparse(strip_doc(hy[0].body)[0])
    if hsrc == "return s if not s.startswith('-') else f'_{s}'":
        hyphen = "true"
    elif hsrc == "return s":
        hyphen = "false"
    else:
        raise Untranslatable("_string_without_leading_hyphen: " + hsrc)
    return toks, hyphen


def opt_executor_rules(tree):
    """CalculationExecutorO: the name is made unique when the executor is built, BEFORE run() looks
    for a saved trajectory under that name; -> the trajectory suffix."""
    cls = find_class(tree, "CalculationExecutorO", "executors.py")
    init = [ast.unparse(st) for st in strip_doc(find_func(cls.body, "__init__", "CalculationExecutorO").body)]
    if "self._fix_unique()" not in init or not init[0].startswith("super().__init__("):
        raise Untranslatable("CalculationExecutorO.__init__ no longer makes the name unique (self._fix_unique())")
    run = find_func(cls.body, "run", "CalculationExecutorO")
    rsrc = norm(ast.unparse(run))
    if "_fix_unique" in rsrc:
        raise Untranslatable("CalculationExecutorO.run: name changed inside run()")
    body = [st for st in strip_doc(run.body) if not isinstance(st, (ast.Import, ast.ImportFrom))]
    first = body[0]
    if not (isinstance(first, ast.If) and ast.unparse(first.test) == "self._opt_trajectory_exists"
            and norm(ast.unparse(first)).startswith(norm(
                "if self._opt_trajectory_exists: self.optimiser = CRFOptimiser.from_file(self._opt_trajectory_name) "
                "self._set_properties_from_optimiser() return None"))):
        raise Untranslatable("CalculationExecutorO.run: trajectory reload shortcut changed")
    if "name=self._opt_trajectory_name" not in rsrc:
        raise Untranslatable("CalculationExecutorO.run: the optimiser no longer saves to _opt_trajectory_name")
    tn = find_func(cls.body, "_opt_trajectory_name", "CalculationExecutorO")
    rets = [n for n in ast.walk(tn) if isinstance(n, ast.Return)]
    ps = fstring_pieces(rets[0].value, "_opt_trajectory_name") if len(rets) == 1 else []
    if len(ps) != 2 or ps[0] != ("expr", "self.name", -1) or ps[1][0] != "lit":
        raise Untranslatable("_opt_trajectory_name is not f'{self.name}<suffix>'")
    te = norm(ast.unparse(find_func(cls.body, "_opt_trajectory_exists", "CalculationExecutorO")))
    if "return os.path.exists(self._opt_trajectory_name)" not in te:
        raise Untranslatable("_opt_trajectory_exists changed")
    tnorm = norm(ast.unparse(find_func(cls.body, "terminated_normally", "CalculationExecutorO")))
    if "return self._opt_trajectory_exists or self.molecule.n_atoms == 1" not in tnorm:
        raise Untranslatable("CalculationExecutorO.terminated_normally changed")
    return ps[1][1]


def ext_table():
    rows, by_class = [], {}
    files = sorted(glob.glob(os.path.join(REPO, "autode/wrappers/*.py")))
    pending = []
    for path in files:
        tree = ast.parse(open(path).read())
        for cls in [n for n in tree.body if isinstance(n, ast.ClassDef)]:
            fns = {f.name: f for f in cls.body if isinstance(f, ast.FunctionDef)}
            exe = None
            for n in ast.walk(cls):
                if isinstance(n, ast.keyword) and n.arg == "executable_name" and isinstance(n.value, ast.Constant):
                    exe = n.value.value
                if isinstance(n, ast.arguments):
                    for a, d in zip(n.args[len(n.args) - len(n.defaults):], n.defaults):
                        if a.arg == "executable_name" and isinstance(d, ast.Constant):
                            exe = d.value
            if exe is None:
                continue   # abstract bases (Method, ExternalMethod): no executable, no file-name rule
            exts = {}
            for k in ("input_filename_for", "output_filename_for"):
                if k in fns:
                    rets = [s for s in ast.walk(fns[k]) if isinstance(s, ast.Return)]
                    if len(rets) != 1:
                        raise Untranslatable(f"{cls.name}.{k}: not a single return")
                    ps = fstring_pieces(rets[0].value, f"{cls.name}.{k}")
                    if len(ps) != 2 or ps[0] != ("expr", "calc.name", -1) or ps[1][0] != "lit":
                        raise Untranslatable(f"{cls.name}.{k}: not f'{{calc.name}}<ext>'")
                    exts[k] = ps[1][1]
            if len(exts) == 2 and exe is not None:
                by_class[cls.name] = (exts["input_filename_for"], exts["output_filename_for"])
                rows.append((exe, exts["input_filename_for"], exts["output_filename_for"]))
            elif len(exts) == 1:
                raise Untranslatable(f"{cls.name}: only one of input/output_filename_for defined")
            elif exe is not None and not exts:
                pending.append((cls, exe))
    for cls, exe in pending:   # e.g. G16(G09): inherits the file-name rules
        bases = [b.id for b in cls.bases if isinstance(b, ast.Name)]
        hit = [b for b in bases if b in by_class]
        if len(hit) == 1:
            rows.append((exe, by_class[hit[0]][0], by_class[hit[0]][1]))
        elif any(isinstance(b, ast.Attribute) and "ExternalMethod" in ast.unparse(b) for b in cls.bases):
            raise Untranslatable(f"{cls.name}: external method without file-name rules")
    if len(rows) < 2:
        raise Untranslatable("wrappers: fewer than two external methods with file-name rules")
    return rows


def main():
    esrc = open(os.path.join(REPO, "autode/calculations/executors.py")).read()
    ssrc = open(os.path.join(REPO, "autode/species/species.py")).read()
    csrc = open(os.path.join(REPO, "autode/constraints.py")).read()
    sp = species_fields(ssrc)
    kf = constraint_fields(csrc)
    fields, cls, tree = calc_fields(esrc, sp, kf)
    rule = reuse_rule(cls)
    mrule = cleanup_rule(cls)
    toks, hyphen = registry_rules(cls, tree)
    trj = opt_executor_rules(tree)
    exts = ext_table()
    sha = hashlib.sha256((esrc + ssrc + csrc).encode()).hexdigest()
    L = ["(* GENERATED by /verif/tr/translate_c15.py from autode/calculations/executors.py,",
         "   autode/species/species.py, autode/constraints.py, autode/wrappers/*.py — do not edit.",
         f"   source sha256 = {sha} *)",
         "From Coq Require Import List String Bool.",
         "From AV.C15 Require Import Base.",
         "Import ListNotations.\nOpen Scope string_scope.\n",
         "(* the request fields concatenated by CalculationExecutor.__str__ (Species.__str__ and",
         "   Constraints.__str__ expanded in place), in source order *)",
         "Definition id_fields : list ifield :=\n  [" + "; ".join(fields) + "].\n",
         "(* _execute_external: skip the external program when  reuse_rule output.exists terminated_normally *)",
         f"Definition reuse_rule (e n : bool) : bool := {rule}.\n",
         "(* clean_up(everything=True): which directory entries are selected besides the declared files *)",
         f"Definition match_rule : mrule := {mrule}.\n",
         "(* _fix_unique: a registry line is accepted when len(line.split()) equals *)",
         f"Definition tokens_required : nat := {toks}.\n",
         "(* _string_without_leading_hyphen: '-x' becomes '_-x' *)",
         f"Definition hyphen_rule : bool := {hyphen}.\n",
         "(* CalculationExecutorO._opt_trajectory_name = f'{self.name}' + *)",
         f"Definition trj_suffix : string := {cstr(trj)}.\n",
         "(* (method name, input extension, output extension) from input/output_filename_for *)",
         "Definition ext_table : list (string * string * string) :=\n  [" +
         ";\n   ".join(f"({cstr(a)}, {cstr(b)}, {cstr(c)})" for a, b, c in exts) + "].\n"]
    txt = "\n".join(L)
    os.makedirs(os.path.dirname(OUT), exist_ok=True)
    old = open(OUT).read() if os.path.exists(OUT) else None
    if old != txt:
        _tmp = OUT + ".tmp%d" % os.getpid()
        with open(_tmp, "w") as f:
            f.write(txt)
        os.replace(_tmp, OUT)  # atomic: a concurrent coqc never sees a partial file
    return {"id_fields": fields, "reuse_rule": rule, "match_rule": mrule, "tokens_required": toks,
            "hyphen_rule": hyphen, "trj_suffix": trj, "ext_table": exts, "sha256": sha}


if __name__ == "__main__":
    try:
        info = main()
        import json
        print("translated:", json.dumps(info))
    except Untranslatable as e:
        print("UNTRANSLATABLE:", e)
        sys.exit(3)
