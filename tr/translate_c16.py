#!/usr/bin/env python3
"""Fail-closed translator for C16: autode/utils.py (work_in, work_in_tmp_dir, run_in_tmp_environment,
temporary_config, check_sufficient_memory) and the `execute` closures of autode/wrappers/
{XTB,ORCA,G09,NWChem,MOPAC,QChem}.py  ->  coq/gen/C16_Gen.v

Only the Python `ast` is read; nothing from the repository is imported or executed.  Each statement of
a wrapped_function body is matched against a fixed vocabulary and becomes one constructor of the effect
language coq/C16/Effects.v; try/finally structure and statement order are preserved exactly (logging
calls and the POSIX no-op cleanup_after_timeout() are dropped).  Any statement, decorator, keyword or
expression outside the vocabulary raises Untranslatable (exit code 3): the property is then not shown.
"""
import ast
import hashlib
import os
import sys

REPO = os.environ.get("VERIF_REPO", "/repo")
OUT = "/verif/coq/gen/C16_Gen.v"


class Untranslatable(Exception):
    pass


def cstr(s):
    if '"' in s or "\n" in s or "\\" in s or not all(32 <= ord(c) < 127 for c in s):
        raise Untranslatable(f"string literal {s!r}")
    return '"' + s + '"'


def clist(items):
    return "[" + "; ".join(items) + "]"


def seq(terms):
    terms = [t for t in terms if t is not None]
    if not terms:
        return "Skip"
    out = terms[-1]
    for t in reversed(terms[:-1]):
        out = f"(Seq {t} {out})"
    return out


def src(node):
    return ast.unparse(node)


def is_docstring(st):
    return isinstance(st, ast.Expr) and isinstance(st.value, ast.Constant) and isinstance(st.value.value, str)


def inert(node):
    """an expression whose evaluation cannot raise or have an effect for the values that occur: constants, names,
    attribute reads, f-strings of those, and `"sep".join(name)`"""
    if isinstance(node, (ast.Constant, ast.Name)):
        return True
    if isinstance(node, ast.Attribute):
        return inert(node.value)
    if isinstance(node, ast.JoinedStr):
        return all(inert(v) for v in node.values)
    if isinstance(node, ast.FormattedValue):
        return inert(node.value) and (node.format_spec is None or inert(node.format_spec))
    if (isinstance(node, ast.Call) and isinstance(node.func, ast.Attribute) and node.func.attr == "join"
            and isinstance(node.func.value, ast.Constant) and isinstance(node.func.value.value, str)
            and len(node.args) == 1 and isinstance(node.args[0], ast.Name) and not node.keywords):
        return True
    return False


def is_logger_call(st):
    """a logging statement that may be dropped: logger.<level>(<inert arguments>) - a log call whose arguments
    compute something (and so can raise at that point of the wrapper) is NOT dropped and fails the translation"""
    return (isinstance(st, ast.Expr) and isinstance(st.value, ast.Call)
            and isinstance(st.value.func, ast.Attribute) and isinstance(st.value.func.value, ast.Name)
            and st.value.func.value.id == "logger"
            and st.value.func.attr in ("info", "warning", "error", "debug")
            and all(inert(a) for a in st.value.args) and not st.value.keywords)


def get_def(body, name, kind=ast.FunctionDef):
    found = [n for n in body if isinstance(n, kind) and n.name == name]
    if len(found) != 1:
        raise Untranslatable(f"expected exactly one definition of {name}, found {len(found)}")
    return found[0]


def deco_names(fn):
    return [src(d) for d in fn.decorator_list]


# --------------------------------------------------------------------------------- utils.py bodies
class BodyTranslator:
    """Translates the statements of one wrapped_function.  `leaf` maps the exact source of a simple
    statement to a term; compound statements are handled structurally."""

    def __init__(self, fname, leaf, call_src, cleanup_noop):
        self.fname = fname
        self.leaf = leaf
        self.call_src = call_src
        self.cleanup_noop = cleanup_noop

    def fail(self, st, why="statement outside the vocabulary"):
        raise Untranslatable(f"{self.fname}: {why}: `{src(st)[:160]}` (line {getattr(st, 'lineno', '?')})")

    def block(self, stmts, last_of_function=False):
        out = []
        for i, st in enumerate(stmts):
            is_last = last_of_function and i == len(stmts) - 1
            out.append(self.stmt(st, is_last))
        return seq(out)

    def only_logging(self, stmts):
        return all(is_logger_call(s) for s in stmts)

    def stmt(self, st, is_last):
        if is_logger_call(st):
            return None
        s = src(st)
        if s == "cleanup_after_timeout()":
            if not self.cleanup_noop:
                self.fail(st, "cleanup_after_timeout is not the POSIX no-op")
            return None
        if s in self.call_src:
            return "Call"
        if s in self.leaf:
            return self.leaf[s]
        if isinstance(st, ast.Return):
            if not is_last:
                self.fail(st, "return that is not the last statement")
            if s in ("return result", "return None"):
                return None
            if s in ("return func(*args, **kwargs)",):
                return "Call"
            self.fail(st)
        if isinstance(st, ast.Try):
            if st.handlers or st.orelse or not st.finalbody:
                return self.try_with_handlers(st)
            return f"(TryFinally {self.block(st.body)} {self.block(st.finalbody)})"
        if isinstance(st, ast.If):
            return self.if_(st)
        if isinstance(st, ast.For):
            return self.for_(st)
        self.fail(st)

    # -- compound statements ------------------------------------------------------------------
    def try_with_handlers(self, st):
        # check_sufficient_memory: the memory probe swallows its own (ValueError, OSError)
        if (self.fname == "check_sufficient_memory" and len(st.handlers) == 1 and not st.orelse and not st.finalbody
                and [src(x) for x in st.body] == ["physical_mem = Allocation(get_total_memory(), units='bytes')"]
                and src(st.handlers[0].type) == "(ValueError, OSError)" and st.handlers[0].name is None
                and self.only_logging(st.handlers[0].body)):
            return None
        self.fail(st, "try statement with except/else clauses")

    def if_(self, st):
        t = src(st.test)
        if t == "not os.path.isdir(dir_path)" and not st.orelse:
            return f"(IfNotIsdir VDir {self.block(st.body)})"
        if t == "len(os.listdir(dir_path)) == 0" and not st.orelse:
            return f"(IfEmpty VDir {self.block(st.body)})"
        if t == "base_dir is not None" and not st.orelse and [src(x) for x in st.body] == ["assert os.path.exists(base_dir)"]:
            return "AssertBase"
        if t == "len(filenames_to_copy) > 0" and not st.orelse and self.only_logging(st.body):
            return None
        if (self.fname == "check_sufficient_memory" and not st.orelse
                and t == "physical_mem is not None and physical_mem < required_mem"
                and len(st.body) == 1 and isinstance(st.body[0], ast.Raise)
                and isinstance(st.body[0].exc, ast.Call) and src(st.body[0].exc.func) == "RuntimeError"):
            return "MemoryCheck"
        self.fail(st, "if statement outside the vocabulary")

    def for_(self, st):
        if st.orelse:
            self.fail(st, "for/else")
        head = (src(st.target), src(st.iter))
        body = [b for b in st.body if not is_logger_call(b)]
        if head == ("filename", "filenames_to_copy"):
            ok = (len(body) == 1 and isinstance(body[0], ast.If)
                  and src(body[0].test) == "filename.endswith('_mol.in')"
                  and [src(x) for x in body[0].body if not is_logger_call(x)] ==
                  ["shutil.move(filename, os.path.join(tmpdir_path, 'mol.in'))"]
                  and [src(x) for x in body[0].orelse if not is_logger_call(x)] ==
                  ["shutil.copy(filename, tmpdir_path)"])
            if ok:
                return "(CopyIn filenames_to_copy)"
        if head == ("filename", "os.listdir(tmpdir_path)"):
            guard = "false"
            if (len(body) == 2 and isinstance(body[0], ast.If) and not body[0].orelse
                    and src(body[0].test) == "not os.path.isfile(os.path.join(tmpdir_path, filename))"
                    and [src(x) for x in body[0].body] == ["continue"]):
                guard, body = "true", body[1:]
            if (len(body) == 1 and isinstance(body[0], ast.If) and not body[0].orelse
                    and src(body[0].test) == "any([filename.endswith(ext) for ext in kept_file_exts])"):
                inner = [src(x) for x in body[0].body if not is_logger_call(x)]
                if inner == ["shutil.copy(filename, here)"]:
                    return f"(CopyBack false {guard} kept_file_exts)"
                if inner == ["shutil.copy(os.path.join(tmpdir_path, filename), here)"]:
                    return f"(CopyBack true {guard} kept_file_exts)"
        if head == ("env_var", "env_vars"):
            if [src(x) for x in body] == ["os.environ[env_var.name] = env_var.new_val"]:
                return "(SetEnv env_vars)"
        if head == ("(env_var, prev_val)", "zip(env_vars, prev_vals)"):
            if (len(body) == 1 and isinstance(body[0], ast.If) and src(body[0].test) == "prev_val is None"
                    and [src(x) for x in body[0].orelse if not is_logger_call(x)] == ["os.environ[env_var.name] = prev_val"]):
                then = [src(x) for x in body[0].body if not is_logger_call(x)]
                if then == ["os.environ.pop(env_var.name, None)"]:
                    return "(RestoreEnv false env_vars)"
                if then == ["os.environ.pop(env_var.name)"]:
                    return "(RestoreEnv true env_vars)"
        self.fail(st, "for loop outside the vocabulary")


LEAF_COMMON = {}
LEAF = {
    "work_in": {
        "here = os.getcwd()": "SaveCwd",
        "dir_path = os.path.join(here, dir_ext)": "(Join dir_ext)",
        "os.mkdir(dir_path)": "(Mkdir VDir)",
        "os.chdir(dir_path)": "(Chdir VDir)",
        "os.chdir(here)": "(Chdir VHere)",
        "os.rmdir(dir_path)": "(Rmdir VDir)",
    },
    "work_in_tmp_dir": {
        "here = os.getcwd()": "SaveCwd",
        "base_dir = Config.ll_tmp_dir if use_ll_tmp else None": "(SetBase use_ll_tmp)",
        "tmpdir_path = mkdtemp(dir=base_dir)": "Mkdtemp",
        "os.chdir(tmpdir_path)": "(Chdir VTmp)",
        "os.chdir(here)": "(Chdir VHere)",
        "shutil.rmtree(tmpdir_path)": "(Rmtree VTmp)",
    },
    "run_in_tmp_environment": {
        "prev_vals = [os.getenv(env_var.name, None) for env_var in env_vars]": "(SaveEnv env_vars)",
    },
    "temporary_config": {
        "original_config_data = copy.deepcopy(Config.__dict__)": "SaveConfig",
        "Config.__dict__.update(original_config_data)": "RestoreConfig",
    },
    "check_sufficient_memory": {
        "physical_mem = None": None,
        "required_mem = int(Config.n_cores) * Config.max_core": None,
    },
}
CALLS = {
    "work_in": {"result = func(*args, **kwargs)"},
    "work_in_tmp_dir": {"result = func(*args, **kwargs)"},
    "run_in_tmp_environment": {"result = func(*args, **_kwargs)"},
    "temporary_config": {"yield"},
    "check_sufficient_memory": set(),
}


def expect_struct(fname, body, allowed_pre, inner_name):
    """A decorator factory body: docstring / allowed decoration-time statements / the inner def /
    `return <inner>`.  Returns the inner FunctionDef."""
    inner = None
    for i, st in enumerate(body):
        if is_docstring(st):
            continue
        s = src(st)
        if isinstance(st, ast.FunctionDef) and st.name == inner_name and inner is None:
            inner = st
            continue
        if isinstance(st, ast.Return) and s == f"return {inner_name}" and inner is not None and i == len(body) - 1:
            continue
        if s in allowed_pre:
            continue
        raise Untranslatable(f"{fname}: decoration-time statement outside the vocabulary: `{s[:160]}`")
    if inner is None:
        raise Untranslatable(f"{fname}: inner function {inner_name} not found")
    return inner


def wrapped_of(fname, fn, allowed_pre, via_func_decorator=True):
    if via_func_decorator:
        fd = expect_struct(fname, fn.body, allowed_pre, "func_decorator")
        if [a.arg for a in fd.args.args] != ["func"]:
            raise Untranslatable(f"{fname}: func_decorator signature")
        w = expect_struct(fname, fd.body, set(), "wrapped_function")
    else:
        w = expect_struct(fname, fn.body, allowed_pre, "wrapped_function")
    if deco_names(w) != ["wraps(func)"]:
        raise Untranslatable(f"{fname}: wrapped_function decorators {deco_names(w)}")
    if w.args.vararg is None or w.args.kwarg is None or w.args.args:
        raise Untranslatable(f"{fname}: wrapped_function signature")
    return w


def translate_utils(usrc):
    tree = ast.parse(usrc)
    top = tree.body
    # POSIX cleanup_after_timeout is `pass`, timeout = _timeout_default (module tail, else-branch)
    tail = [n for n in top if isinstance(n, ast.If) and src(n.test) == "platform.system() == 'Windows'"]
    if len(tail) != 1:
        raise Untranslatable("utils.py: platform switch at module end not found")
    posix = tail[0].orelse
    cl = [n for n in posix if isinstance(n, ast.FunctionDef) and n.name == "cleanup_after_timeout"]
    cleanup_noop = len(cl) == 1 and [src(x) for x in cl[0].body] == ["pass"]
    if "timeout = _timeout_default" not in [src(x) for x in posix]:
        raise Untranslatable("utils.py: POSIX timeout is no longer _timeout_default")
    if "ProcessPool = ProcessPoolExecutor" not in [src(x) for x in posix]:
        raise Untranslatable("utils.py: POSIX ProcessPool is no longer concurrent.futures.ProcessPoolExecutor")
    # the names the vocabulary relies on must be the standard ones
    imports = {src(n) for n in top if isinstance(n, (ast.Import, ast.ImportFrom))}
    for need in ("import os", "import shutil", "import copy", "import contextlib", "from tempfile import mkdtemp",
                 "from functools import wraps", "from autode.config import Config"):
        if need not in imports:
            raise Untranslatable(f"utils.py: missing `{need}`")
    for n in top:   # none of these names may be rebound at module level
        if isinstance(n, (ast.Assign, ast.AnnAssign)):
            tg = [src(t) for t in (n.targets if isinstance(n, ast.Assign) else [n.target])]
            if set(tg) & {"os", "shutil", "copy", "mkdtemp", "wraps", "Config", "contextlib"}:
                raise Untranslatable(f"utils.py: module-level rebinding of {tg}")

    res, spans = {}, []

    def do(fname, fn, w, params):
        bt = BodyTranslator(fname, LEAF[fname], CALLS[fname], cleanup_noop)
        term = bt.block(w.body, last_of_function=True)
        if term.count("Call") != 1:
            raise Untranslatable(f"{fname}: the wrapped function is not called exactly once in the body")
        res[fname] = (params, term)
        spans.append(ast.get_source_segment(usrc, fn) or "")

    fn = get_def(top, "work_in")
    if [a.arg for a in fn.args.args] != ["dir_ext"]:
        raise Untranslatable("work_in: signature")
    do("work_in", fn, wrapped_of("work_in", fn, set()), "(dir_ext : string)")

    fn = get_def(top, "work_in_tmp_dir")
    if [a.arg for a in fn.args.args] != ["filenames_to_copy", "kept_file_exts", "use_ll_tmp"]:
        raise Untranslatable("work_in_tmp_dir: signature")
    pre = {"from autode.config import Config",
           "if filenames_to_copy is None:\n    filenames_to_copy = []",
           "if kept_file_exts is None:\n    kept_file_exts = []"}
    do("work_in_tmp_dir", fn, wrapped_of("work_in_tmp_dir", fn, pre),
       "(filenames_to_copy kept_file_exts : list string) (use_ll_tmp : bool)")

    fn = get_def(top, "run_in_tmp_environment")
    if fn.args.args or fn.args.kwarg is None or fn.args.kwarg.arg != "kwargs":
        raise Untranslatable("run_in_tmp_environment: signature")
    envcls = get_def(fn.body, "EnvVar", ast.ClassDef)
    init = get_def(envcls.body, "__init__")
    isrc = [src(x) for x in init.body]
    for need in ("self.name = str(name)", "self.new_val = str(val)"):
        if need not in isrc:
            raise Untranslatable(f"run_in_tmp_environment: EnvVar.__init__ lacks `{need}`")
    pre = {src(envcls), "env_vars = [EnvVar(k, v) for k, v in kwargs.items()]"}
    do("run_in_tmp_environment", fn, wrapped_of("run_in_tmp_environment", fn, pre),
       "(env_vars : list (string * string))")

    fn = get_def(top, "temporary_config")
    if deco_names(fn) != ["contextlib.contextmanager"] or fn.args.args:
        raise Untranslatable("temporary_config: decorator/signature")
    body = [s for s in fn.body if not is_docstring(s)]
    bt = BodyTranslator("temporary_config", LEAF["temporary_config"], CALLS["temporary_config"], cleanup_noop)
    term = bt.block(body, last_of_function=True)
    if term.count("Call") != 1:
        raise Untranslatable("temporary_config: not exactly one yield")
    res["temporary_config"] = ("", term)
    spans.append(ast.get_source_segment(usrc, fn) or "")

    fn = get_def(top, "check_sufficient_memory")
    if [a.arg for a in fn.args.args] != ["func"]:
        raise Untranslatable("check_sufficient_memory: signature")
    do("check_sufficient_memory", fn, wrapped_of("check_sufficient_memory", fn, set(), via_func_decorator=False), "")

    externals = []
    for name in ("run_external", "run_external_monitored"):
        f = get_def(top, name)
        ds = deco_names(f)
        if ds == ["check_sufficient_memory"]:
            externals.append((name, ["DMem"]))
        elif ds == []:
            externals.append((name, []))
        else:
            raise Untranslatable(f"{name}: decorators {ds}")
        spans.append("\n".join(ds) + f.name)
    return res, externals, spans, cleanup_noop


# --------------------------------------------------------------------------------- wrappers/*.py
PROGRAMS = [("XTB", "XTB.py", "XTB", "execute_xtb"), ("ORCA", "ORCA.py", "ORCA", "execute_orca"),
            ("G09", "G09.py", "G09", "execute_g09"), ("NWChem", "NWChem.py", "NWChem", "execute_nwchem"),
            ("MOPAC", "MOPAC.py", "MOPAC", "execute_mopac"), ("QChem", "QChem.py", "QChem", "execute_qchem")]
PURE_NAMES = {"calc", "self", "flags", "params", "logger", "isinstance", "len", "list", "str",
              "OptKeywords", "GradientKeywords"}


def check_pure(st, where):
    """Statements of `execute` outside the closure (and `params = [...]` inside it) may only read the
    calculation / method objects: every Name must be whitelisted, no process-wide state is nameable."""
    for n in ast.walk(st):
        if isinstance(n, ast.Name) and n.id not in PURE_NAMES:
            raise Untranslatable(f"{where}: name `{n.id}` in `{src(st)[:120]}`")
        if isinstance(n, (ast.Import, ast.ImportFrom, ast.Global, ast.Nonlocal, ast.With, ast.Try, ast.Delete,
                          ast.FunctionDef, ast.Lambda, ast.Yield, ast.Await)):
            raise Untranslatable(f"{where}: {type(n).__name__} in `{src(st)[:120]}`")
        if isinstance(n, ast.Call):
            # no call into code this translator has not read: builtins on values, logging, list building only
            f = n.func
            ok = ((isinstance(f, ast.Name) and f.id in ("str", "isinstance", "len", "list"))
                  or (isinstance(f, ast.Attribute) and isinstance(f.value, ast.Name)
                      and (f.value.id, f.attr) in (("flags", "append"), ("logger", "info"), ("logger", "warning")))
                  or inert(n))
            if not ok:
                raise Untranslatable(f"{where}: call `{src(n)[:80]}` into code that is not translated")


def translate_program(name, wsrc, clsname, closure):
    tree = ast.parse(wsrc)
    cls = get_def(tree.body, clsname, ast.ClassDef)
    ex = get_def(cls.body, "execute")
    body = [s for s in ex.body if not is_docstring(s)]
    idx = [i for i, s in enumerate(body) if isinstance(s, ast.FunctionDef)]
    if len(idx) != 1 or body[idx[0]].name != closure:
        raise Untranslatable(f"{name}.execute: expected exactly the closure {closure}")
    i = idx[0]
    for st in body[:i]:
        check_pure(st, f"{name}.execute (before the closure)")
    if [src(s) for s in body[i + 1:]] != [f"{closure}()", "return None"]:
        raise Untranslatable(f"{name}.execute: tail is {[src(s) for s in body[i + 1:]]}")
    fn = body[i]
    if fn.args.args or fn.args.vararg or fn.args.kwarg:
        raise Untranslatable(f"{name}.{closure}: takes arguments")
    stack = []
    for d in fn.decorator_list:
        if not (isinstance(d, ast.Call) and isinstance(d.func, ast.Name)) or d.args:
            raise Untranslatable(f"{name}.{closure}: decorator `{src(d)[:120]}`")
        kw = {k.arg: k.value for k in d.keywords}
        if None in kw:
            raise Untranslatable(f"{name}.{closure}: **kwargs in decorator")
        if d.func.id == "work_in_tmp_dir":
            if set(kw) - {"filenames_to_copy", "kept_file_exts", "use_ll_tmp"}:
                raise Untranslatable(f"{name}.{closure}: work_in_tmp_dir keywords {set(kw)}")
            if "filenames_to_copy" not in kw or src(kw["filenames_to_copy"]) != "calc.input.filenames":
                raise Untranslatable(f"{name}.{closure}: filenames_to_copy is not calc.input.filenames")
            k = kw.get("kept_file_exts")
            if k is None:
                kept = "(Some [])"
            elif isinstance(k, (ast.Tuple, ast.List)) and all(
                    isinstance(e, ast.Constant) and isinstance(e.value, str) for e in k.elts):
                kept = "(Some " + clist([cstr(e.value) for e in k.elts]) + ")"
            elif src(k) == f"Config.{clsname}.copied_output_exts":
                kept = "None"
            else:
                raise Untranslatable(f"{name}.{closure}: kept_file_exts `{src(k)}`")
            ll = kw.get("use_ll_tmp", ast.Constant(value=False))
            if not (isinstance(ll, ast.Constant) and isinstance(ll.value, bool)):
                raise Untranslatable(f"{name}.{closure}: use_ll_tmp is not a literal")
            stack.append(f"DTmpDir {kept} {'true' if ll.value else 'false'}")
        elif d.func.id == "run_in_tmp_environment":
            for v in kw.values():
                check_pure(ast.Expr(value=v), f"{name}.{closure}: environment value")
            stack.append("DEnv " + clist([cstr(k) for k in kw]))
        else:
            raise Untranslatable(f"{name}.{closure}: decorator {d.func.id}")
    bst = []
    for st in fn.body:
        if is_docstring(st) or is_logger_call(st):
            continue
        s = src(st)
        if (isinstance(st, ast.Expr) and isinstance(st.value, ast.Call) and isinstance(st.value.func, ast.Name)
                and st.value.func.id in ("run_external", "run_external_monitored")):
            for a in list(st.value.args) + [k.value for k in st.value.keywords]:
                check_pure(ast.Expr(value=a), f"{name}.{closure}: argument of {st.value.func.id}")
            bst.append(f"BExternal {cstr(st.value.func.id)}")
        elif (isinstance(st, ast.Assign) and len(st.targets) == 1 and isinstance(st.targets[0], ast.Name)
              and st.targets[0].id == "params"):
            check_pure(st, f"{name}.{closure}")
        elif (isinstance(st, ast.Assign) and len(st.targets) == 1 and isinstance(st.targets[0], ast.Subscript)
              and src(st.targets[0].value) == "os.environ" and isinstance(st.targets[0].slice, ast.Constant)
              and isinstance(st.targets[0].slice.value, str)):
            check_pure(ast.Expr(value=st.value), f"{name}.{closure}: environment value")
            bst.append(f"BSetEnvRaw {cstr(st.targets[0].slice.value)}")
        elif s == "if os.path.exists('gradient'):\n    shutil.move('gradient', f'{calc.name}_OLD.grad')":
            bst.append('BMoveIfExists "gradient" "_OLD.grad"')
        elif s == "self._remove_xtbopt_xyz_file()":
            m = get_def(cls.body, "_remove_xtbopt_xyz_file")
            if [src(x) for x in m.body] != ["if os.path.exists('xtbopt.xyz'):\n    os.remove('xtbopt.xyz')", "return None"]:
                raise Untranslatable(f"{name}._remove_xtbopt_xyz_file changed")
            bst.append('BRemoveIfExists "xtbopt.xyz"')
        else:
            raise Untranslatable(f"{name}.{closure}: statement outside the vocabulary: `{s[:160]}`")
    imports = {src(n) for n in tree.body if isinstance(n, (ast.Import, ast.ImportFrom))}
    joined = " ".join(sorted(imports))
    for used in ("work_in_tmp_dir", "run_external"):
        if used not in joined:
            raise Untranslatable(f"{name}: {used} is not imported from autode.utils")
    for im in imports:   # the decorator / runner names must come from autode.utils
        for nm in ("work_in_tmp_dir", "run_in_tmp_environment", "run_external", "run_external_monitored"):
            if nm in im and not im.startswith("from autode.utils import"):
                raise Untranslatable(f"{name}: `{im}`")
    return f"mkProgram {cstr(name)} {clist(['(' + d + ')' for d in stack])} {clist(['(' + b + ')' for b in bst])}", \
        ast.get_source_segment(wsrc, ex) or ""


STATE_WRITERS = ("os.chdir", "os.putenv", "os.unsetenv", "os.environ.update", "os.environ.pop", "os.environ.clear",
                 "os.environ.setdefault", "os.environ.__setitem__", "Config.__dict__.update", "Config.__dict__.clear",
                 "mkdtemp", "tempfile.mkdtemp", "setattr")


def scan_state_writes(path_rel, source, allowed):
    """Every anchored file is scanned for statements that write process-wide state (cwd, os.environ, Config, a
    temporary directory) OUTSIDE the functions this translator turns into terms: such a statement aborts the
    translation (a sibling method of a wrapper class that sets a variable is as much a C16 matter as execute)."""
    tree = ast.parse(source)
    hits = []

    def visit(node, owner):
        for ch in ast.iter_child_nodes(node):
            own = owner
            if isinstance(ch, (ast.FunctionDef, ast.ClassDef)) and owner.count(".") < 1:
                own = (owner + "." if owner else "") + ch.name
            bad = None
            if isinstance(ch, ast.Call) and src(ch.func) in STATE_WRITERS:
                if not (src(ch.func) == "setattr" and not src(ch).startswith("setattr(Config")):
                    bad = src(ch)
            if isinstance(ch, (ast.Assign, ast.AugAssign, ast.AnnAssign, ast.Delete)):
                tg = ch.targets if isinstance(ch, (ast.Assign, ast.Delete)) else [ch.target]
                for tnode in tg:
                    s = src(tnode)
                    if s.startswith("os.environ") or s.startswith("Config.") or s == "Config":
                        bad = src(ch)
            if bad is not None and own.split(".")[0] not in allowed and own not in allowed:
                hits.append(f"{path_rel}:{ch.lineno} in {own or '<module>'}: `{bad[:80]}`")
            visit(ch, own)
    visit(tree, "")
    if hits:
        raise Untranslatable("process-wide state written outside the translated functions: " + "; ".join(hits[:4]))


def scan_pool_sites():
    """Every `with ProcessPool(...) as pool:` block of the package: the block must not assign Config (a pool's
    workers are forked at its first submission; a Config change between two submissions of one pool would not be
    seen by the second).  -> number of call sites."""
    n = 0
    for base, _, fs in os.walk(os.path.join(REPO, "autode")):
        for f in fs:
            if not f.endswith(".py"):
                continue
            path = os.path.join(base, f)
            s = open(path).read()
            if "ProcessPool" not in s:
                continue
            for node in ast.walk(ast.parse(s)):
                if isinstance(node, ast.With) and any(
                        isinstance(i.context_expr, ast.Call) and src(i.context_expr.func).endswith("ProcessPool")
                        for i in node.items):
                    n += 1
                    for ch in ast.walk(node):
                        tg = []
                        if isinstance(ch, (ast.Assign, ast.Delete)):
                            tg = ch.targets
                        elif isinstance(ch, (ast.AugAssign, ast.AnnAssign)):
                            tg = [ch.target]
                        if any(src(x).startswith("Config") for x in tg) or (
                                isinstance(ch, ast.Call) and src(ch).startswith("setattr(Config")):
                            raise Untranslatable(f"{os.path.relpath(path, REPO)}:{ch.lineno}: Config is assigned inside a "
                                                 f"`with ProcessPool` block: `{src(ch)[:80]}`")
    return n


def main():
    n_pool_sites = scan_pool_sites()
    usrc = open(os.path.join(REPO, "autode/utils.py")).read()
    scan_state_writes("autode/utils.py", usrc, {"work_in", "work_in_tmp_dir", "run_in_tmp_environment", "temporary_config",
                                                "_copy_into_current_config"})
    res, externals, spans, cleanup_noop = translate_utils(usrc)
    progs = []
    for name, fname, clsname, closure in PROGRAMS:
        wsrc = open(os.path.join(REPO, "autode/wrappers", fname)).read()
        scan_state_writes(f"autode/wrappers/{fname}", wsrc, {f"{clsname}.execute"})
        term, span = translate_program(name, wsrc, clsname, closure)
        progs.append(term)
        spans.append(span)
    sha = hashlib.sha256("\n".join(spans).encode()).hexdigest()
    L = ["(* GENERATED by /verif/tr/translate_c16.py from autode/utils.py and autode/wrappers/*.py — do not edit.",
         f"   sha256 of the translated source spans = {sha} *)",
         "From Coq Require Import List String Bool.", "From AV.C16 Require Import Effects.",
         "Import ListNotations.", "Open Scope string_scope.", "Open Scope list_scope.", ""]
    for fname in ("work_in", "work_in_tmp_dir", "run_in_tmp_environment", "temporary_config", "check_sufficient_memory"):
        params, term = res[fname]
        L.append(f"Definition {fname}_term {params} : stmt :=\n  {term}.\n")
    L.append("Definition externals : list (string * list deco) :=\n  " +
             clist([f"({cstr(n)}, {clist(ds)})" for n, ds in externals]) + ".\n")
    L.append("Definition programs : list program :=\n  [ " + ";\n    ".join(progs) + " ].\n")
    txt = "\n".join(L)
    os.makedirs(os.path.dirname(OUT), exist_ok=True)
    old = open(OUT).read() if os.path.exists(OUT) else None
    if old != txt:
        _tmp = OUT + ".tmp%d" % os.getpid()
        with open(_tmp, "w") as f:
            f.write(txt)
        os.replace(_tmp, OUT)  # atomic: a concurrent coqc never sees a partial file
    return {"sha256": sha, "terms": {k: v[1] for k, v in res.items()}, "externals": externals,
            "programs": [p.split('"')[1] for p in progs], "process_pool_sites_scanned": n_pool_sites}


if __name__ == "__main__":
    try:
        info = main()
        print("translated:", info)
    except Untranslatable as e:
        print("UNTRANSLATABLE:", e)
        sys.exit(3)
