#!/usr/bin/env python3
"""Fail-closed translator for C02:
   autode/smiles/smiles.py   (init_organic_smiles, init_smiles, calc_multiplicity, check_bonds)
   autode/species/molecule.py (Molecule._init_smiles)
   autode/mol_graphs.py       (make_graph: the bond_list branch)
   autode/smiles/builder.py   (_explicit_all_hydrogens, set_atoms_bonds, canonical_atoms*, max_ring_n, build)
   autode/species/species.py  (atoms setter, graph property)
   autode/smiles/base.py, parser.py (is_aromatic, has_stereochem, Parser.charge, Parser.mult)
   ->  coq/gen/C02_Gen.v

Only the Python `ast` is read; nothing from the repository is imported or executed.  Every statement of
init_organic_smiles / init_smiles is matched (by ast.dump, so independent of layout and of the Python
version's ast.unparse) against a fixed vocabulary and becomes one constructor of the operation language
of coq/C02/Model.v, IN SOURCE ORDER (logging calls, docstrings and the RDKit embedding calls, which
only produce coordinates, are dropped).  calc_multiplicity, the pi rule of init_smiles, the fallback
conditions and the dispatch of Molecule._init_smiles are translated structurally.  The helper functions
whose meaning is written by hand in Model.v (hydrogen expansion, make_graph, atoms setter, lazy graph,
check_bonds, canonical atoms, parser charge/mult) are compared statement by statement with the text the
hand model was written from.  Anything else raises Untranslatable (exit code 3): the property is
then not shown.
"""
import ast
import copy
import hashlib
import json
import os
import sys

REPO = os.environ.get("VERIF_REPO", "/repo")
OUT = "/verif/coq/gen/C02_Gen.v"


class Untranslatable(Exception):
    pass


U = ast.unparse


def S(text):
    """ast dump of one statement given as source text"""
    body = ast.parse(text).body
    assert len(body) == 1, text
    return ast.dump(body[0])


def is_stmt(st, text):
    return ast.dump(st) == S(text)


def stmts_are(stmts, texts):
    return len(stmts) == len(texts) and all(is_stmt(a, b) for a, b in zip(stmts, texts))


def is_expr(node, text):
    return ast.dump(node) == ast.dump(ast.parse(text, mode="eval").body)


def tgt_is(node, text):
    return ast.dump(node) == ast.dump(ast.parse(f"{text} = 0").body[0].targets[0])


def is_docstring(st):
    return isinstance(st, ast.Expr) and isinstance(st.value, ast.Constant) and isinstance(st.value.value, str)


def is_logger_call(st):
    return (isinstance(st, ast.Expr) and isinstance(st.value, ast.Call)
            and isinstance(st.value.func, ast.Attribute) and isinstance(st.value.func.value, ast.Name)
            and st.value.func.value.id == "logger"
            and st.value.func.attr in ("info", "warning", "error", "debug"))


def strip(body):
    return [s for s in body if not is_docstring(s) and not is_logger_call(s)]


class _Clean(ast.NodeTransformer):
    def generic_visit(self, node):
        super().generic_visit(node)
        for fld in ("body", "orelse", "finalbody"):
            if hasattr(node, fld) and isinstance(getattr(node, fld), list):
                new = strip(getattr(node, fld))
                if fld == "body" and not new:
                    new = [ast.Pass()]
                setattr(node, fld, new)
        return node


def cleaned_body(fn):
    """statements of a function without docstrings and logging calls (recursively)"""
    return _Clean().visit(copy.deepcopy(fn)).body


def expect_body(fn, expected_src, what):
    got = [ast.dump(s) for s in cleaned_body(fn)]
    want_nodes = _Clean().visit(ast.parse(expected_src)).body
    want = [ast.dump(s) for s in want_nodes]
    if got != want:
        gb = cleaned_body(fn)
        for i in range(max(len(got), len(want))):
            g = got[i] if i < len(got) else None
            w = want[i] if i < len(want) else None
            if g != w:
                gs = U(gb[i])[:160] if i < len(gb) else "<end>"
                ws = U(want_nodes[i])[:160] if i < len(want_nodes) else "<end>"
                raise Untranslatable(f"{what}: statement {i} is `{gs}` but the hand model was written from `{ws}`")
        raise Untranslatable(f"{what}: body changed")


def get_func(tree_body, name):
    fs = [n for n in tree_body if isinstance(n, ast.FunctionDef) and n.name == name]
    if len(fs) != 1:
        raise Untranslatable(f"function {name} not found exactly once")
    return fs[0]


def get_class(tree_body, name):
    cs = [n for n in tree_body if isinstance(n, ast.ClassDef) and n.name == name]
    if len(cs) != 1:
        raise Untranslatable(f"class {name} not found exactly once")
    return cs[0]


def get_method(cls, name, setter=False):
    out = []
    for n in cls.body:
        if isinstance(n, ast.FunctionDef) and n.name == name:
            is_setter = any(U(d).endswith(".setter") for d in n.decorator_list)
            if is_setter == setter:
                out.append(n)
    if len(out) != 1:
        raise Untranslatable(f"method {cls.name}.{name} (setter={setter}) not found exactly once")
    return out[0]


# ---------------------------------------------------------------------------------------------
# helpers modelled by hand in Model.v: their text must be what the model was written from
EXPLICIT_HS = '''
h_atoms = []
for idx, atom in enumerate(self.atoms):
    if not hasattr(atom, "n_hydrogens") or atom.n_hydrogens is None:
        atom.n_hydrogens = 0
    for _ in range(atom.n_hydrogens):
        h_atoms.append(SMILESAtom("H", n_hydrogens=0))
        h_idx = self.n_atoms + len(h_atoms) - 1
        self.bonds.append(SMILESBond(idx, h_idx, symbol="-"))
    atom.n_hydrogens = 0
self.atoms += h_atoms
return
'''
SET_ATOMS_BONDS_PREFIX = '''
if atoms is None or len(atoms) == 0:
    raise SMILESBuildFailed("Cannot build a structure with no atoms")
self.atoms, self.bonds = atoms, bonds
self.graph = MolecularGraph()
self.queued_atoms = []
self.queued_dihedrals = SDihedrals()
self._explicit_all_hydrogens()
'''
CANONICAL = '''
atoms = []
for atom in self.atoms:
    x, y, z = atom.coord
    atoms.append(Atom(atom.label, x=x, y=y, z=z, atom_class=atom.atom_class))
return atoms
'''
CANONICAL_ORIGIN = "return [Atom(atom.label) for atom in self.atoms]"
CANONICAL_ORIGIN_KEEPS = "return [Atom(atom.label, atom_class=atom.atom_class) for atom in self.atoms]"
MAX_RING_N = '''
if self.rings_idxs is None or len(self.rings_idxs) == 0:
    return 0
return max(len(idxs) for idxs in self.rings_idxs)
'''
CHECK_BONDS = '''
check_molecule = molecule.copy()
make_graph(check_molecule)
if len(bonds) != check_molecule.graph.number_of_edges():
    pass
return None
'''
ATOMS_SETTER = '''
if value is None:
    self._atoms = None
    self._clear_energies_gradient_hessian()
    return
if self.n_atoms == len(value) and all(a.label == v.label for a, v in zip(self.atoms, value)):
    self.coordinates = np.array([v.coord for v in value])
else:
    self._atoms = Atoms(value)
    self._clear_energies_gradient_hessian()
return
'''
GRAPH_GETTER = '''
if self.atoms is None:
    return None
if self._graph is None:
    make_graph(self)
return self._graph
'''
CHARGE_SETTER = "self._charge = int(value)"
MULT_SETTER = '''
try:
    assert int(value) > 0
except (ValueError, AssertionError, TypeError):
    raise ValueError(f"Failed to set the spin multiplicity to {value}. Must be a non-zero positive integer")
self._mult = int(value)
'''
COLLECTION_ATOMS_SETTER = "self._atoms = Atoms(value) if value is not None else None"
MODULE_LITERALS = {   # module-level tables the model / harness copy
    ("base", "aromatic_symbols"): ["b", "c", "n", "o", "s", "p"],
    ("base", "bond_order_symbols"): ["-", "=", "#", "$"],
}
# autode.atoms.metals as the path-selection oracle of harness/c02.py knows it (independent copy)
METALS = [
    "Li", "Be", "Na", "Mg", "Al", "K", "Ca", "Sc", "Ti", "V", "Cr", "Mn", "Fe", "Co", "Ni", "Cu", "Zn", "Ga",
    "Rb", "Sr", "Y", "Zr", "Nb", "Mo", "Tc", "Ru", "Rh", "Pd", "Ag", "Cd", "In", "Sn", "Cs", "Ba", "La",
    "Ce", "Pr", "Nd", "Pm", "Sm", "Eu", "Gd", "Tb", "Dy", "Ho", "Er", "Tm", "Yb", "Lu", "Hf", "Ta", "W",
    "Re", "Os", "Ir", "Pt", "Au", "Hg", "Tl", "Pb", "Bi", "Po", "Fr", "Ra", "Ac", "Th", "Pa", "U", "Np",
    "Pu", "Am", "Cm", "Bk", "Cf", "Es", "Fm", "Md", "No", "Lr", "Rf", "Db", "Sg", "Bh", "Hs", "Mt", "Ds",
    "Rg", "Cn", "Nh", "Fl", "Mc", "Lv",
]
IS_AROMATIC = "return self.smiles_label in aromatic_symbols"
HAS_STEREOCHEM = "return self.stereochem is not SMILESStereoChem.NONE"
PARSER_CHARGE = "return sum(atom.charge for atom in self.atoms)"
PARSER_MULT = '''
n_electrons = sum([at.atomic_number for at in self.atoms]) - self.charge
n_electrons += sum(at.n_hydrogens if at.n_hydrogens is not None else 0 for at in self.atoms)
return (n_electrons % 2) + 1
'''


def check_literal(tree_body, name, expected, what):
    for st in tree_body:
        if isinstance(st, ast.Assign) and len(st.targets) == 1 and isinstance(st.targets[0], ast.Name) and st.targets[0].id == name:
            try:
                val = ast.literal_eval(st.value)
            except Exception:  # noqa
                raise Untranslatable(f"{what}: {name} is not a literal")
            if list(val) != list(expected):
                diff = sorted(set(val) ^ set(expected)) or "order"
                raise Untranslatable(f"{what}: {name} differs from the table the model/harness was written from ({diff})")
            return
    raise Untranslatable(f"{what}: {name} not found")


def check_make_graph(fn):
    """make_graph: nodes for every atom with stereo=<literal> and the atom's class; with a bond list every
    bond becomes an edge with pi=<literal> and the graph is stored, nothing else.  -> the literals."""
    body = strip(fn.body)
    if len(body) < 4 or not stmts_are(body[:2], [
            'if species.n_atoms == 0:\n    raise ex.NoAtomsInMolecule("Could not build a molecular graph with no atoms")',
            "graph = MolecularGraph()"]):
        raise Untranslatable("make_graph: prologue changed")
    loop = body[2]
    if not (isinstance(loop, ast.For) and tgt_is(loop.target, "i, atom") and is_expr(loop.iter, "enumerate(species.atoms)")
            and not loop.orelse and len(loop.body) == 1 and isinstance(loop.body[0], ast.Expr)
            and isinstance(loop.body[0].value, ast.Call) and is_expr(loop.body[0].value.func, "graph.add_node")):
        raise Untranslatable("make_graph: node loop changed")
    call = loop.body[0].value
    if len(call.args) != 1 or not is_expr(call.args[0], "i"):
        raise Untranslatable("make_graph: add_node positional arguments")
    kw = {k.arg: k.value for k in call.keywords}
    if set(kw) != {"atom_label", "stereo", "atom_class"} or not is_expr(kw["atom_label"], "atom.label"):
        raise Untranslatable("make_graph: add_node keywords")
    if not (isinstance(kw["stereo"], ast.Constant) and isinstance(kw["stereo"].value, bool)):
        raise Untranslatable("make_graph: stereo default is not a literal")
    stereo_default = kw["stereo"].value
    if is_expr(kw["atom_class"], "atom.atom_class"):
        copies_class = True
    elif isinstance(kw["atom_class"], ast.Constant) and kw["atom_class"].value is None:
        copies_class = False
    else:
        raise Untranslatable("make_graph: atom_class expression")
    br = body[3]
    if not (isinstance(br, ast.If) and is_expr(br.test, "bond_list is not None") and not br.orelse):
        raise Untranslatable("make_graph: bond_list branch changed")
    bb = strip(br.body)
    if len(bb) != 3 or not is_stmt(bb[1], "species.graph = graph") or not is_stmt(bb[2], "return None"):
        raise Untranslatable("make_graph: bond_list branch statements changed")
    lp = bb[0]
    if not (isinstance(lp, ast.For) and tgt_is(lp.target, "i, j") and is_expr(lp.iter, "bond_list") and not lp.orelse
            and len(lp.body) == 1 and isinstance(lp.body[0], ast.Expr) and isinstance(lp.body[0].value, ast.Call)
            and is_expr(lp.body[0].value.func, "graph.add_edge")):
        raise Untranslatable("make_graph: edge loop changed")
    ecall = lp.body[0].value
    if len(ecall.args) != 2 or not is_expr(ecall.args[0], "i") or not is_expr(ecall.args[1], "j"):
        raise Untranslatable("make_graph: add_edge positional arguments")
    ekw = {k.arg: k.value for k in ecall.keywords}
    if set(ekw) != {"pi", "active"} or not all(isinstance(v, ast.Constant) and isinstance(v.value, bool) for v in ekw.values()):
        raise Untranslatable("make_graph: add_edge keywords")
    return stereo_default, ekw["pi"].value, copies_class


# ---------------------------------------------------------------------------------------------
def cbool(b):
    return "true" if b else "false"


def int_const(node, what):
    if isinstance(node, ast.Constant) and isinstance(node.value, int) and not isinstance(node.value, bool) and node.value >= 0:
        return node.value
    raise Untranslatable(f"{what}: expected a non-negative integer literal, got `{U(node)}`")


def tr_calc_multiplicity(fn):
    """if <and/or of comparisons>: return <int>  ...  return molecule.mult   ->  Gallina if-chain"""
    if [a.arg for a in fn.args.args] != ["molecule", "n_radical_electrons"]:
        raise Untranslatable("calc_multiplicity: signature")
    body = strip(fn.body)
    if not body or not is_stmt(body[-1], "return molecule.mult"):
        raise Untranslatable("calc_multiplicity: final statement is not `return molecule.mult`")

    def atom_cond(c):
        if not (isinstance(c, ast.Compare) and len(c.ops) == 1):
            raise Untranslatable(f"calc_multiplicity: condition `{U(c)}`")
        if is_expr(c.left, "n_radical_electrons % 2") and isinstance(c.ops[0], (ast.Eq, ast.NotEq)):
            k = int_const(c.comparators[0], "calc_multiplicity")
            if k not in (0, 1):
                raise Untranslatable(f"calc_multiplicity: parity compared with {k}")
            odd = (k == 1) == isinstance(c.ops[0], ast.Eq)
            return "(Nat.odd nrad)" if odd else "(Nat.even nrad)"
        if is_expr(c.left, "molecule.mult"):
            var = "mult"
        elif is_expr(c.left, "n_radical_electrons"):
            var = "nrad"
        else:
            raise Untranslatable(f"calc_multiplicity: unknown quantity `{U(c.left)}`")
        k = int_const(c.comparators[0], "calc_multiplicity")
        op = c.ops[0]
        if isinstance(op, ast.Eq):
            return f"({var} =? {k})"
        if isinstance(op, ast.Gt):
            return f"({k} <? {var})"
        if isinstance(op, ast.GtE):
            return f"({k} <=? {var})"
        if isinstance(op, ast.Lt):
            return f"({var} <? {k})"
        if isinstance(op, ast.LtE):
            return f"({var} <=? {k})"
        if isinstance(op, ast.NotEq):
            return f"(negb ({var} =? {k}))"
        raise Untranslatable(f"calc_multiplicity: comparison `{U(c)}`")

    def cond(t):
        if isinstance(t, ast.BoolOp):
            sym = "&&" if isinstance(t.op, ast.And) else "||"
            return "(" + f" {sym} ".join(cond(v) for v in t.values) + ")"
        return atom_cond(t)

    term = "mult"
    for st in reversed(body[:-1]):
        if not (isinstance(st, ast.If) and not st.orelse):
            raise Untranslatable(f"calc_multiplicity: statement `{U(st)[:80]}`")
        b = strip(st.body)
        if len(b) != 1 or not isinstance(b[0], ast.Return) or b[0].value is None:
            raise Untranslatable("calc_multiplicity: branch body")
        val = "mult" if is_expr(b[0].value, "molecule.mult") else str(int_const(b[0].value, "calc_multiplicity return"))
        term = f"if {cond(st.test)} then {val} else {term}"
    return term


def is_fallback_return(st):
    """return init_smiles(molecule, smiles) / init_smiles(molecule=molecule, smiles=smiles)"""
    if not (isinstance(st, ast.Return) and isinstance(st.value, ast.Call) and is_expr(st.value.func, "init_smiles")):
        return False
    call = st.value
    full = dict(zip(["molecule", "smiles"], [U(a) for a in call.args]))
    for k in call.keywords:
        if k.arg is None or k.arg in full:
            raise Untranslatable(f"fallback call arguments: `{U(st)}`")
        full[k.arg] = U(k.value)
    if full != {"molecule": "molecule", "smiles": "smiles"}:
        raise Untranslatable(f"fallback call with other arguments: `{U(st)}`")
    return True


def tr_guard_test(test):
    parts = test.values if isinstance(test, ast.BoolOp) and isinstance(test.op, ast.Or) else [test]
    out = []
    for p in parts:
        if not (isinstance(p, ast.Compare) and len(p.ops) == 1):
            raise Untranslatable(f"fallback condition `{U(p)}`")
        k = p.comparators[0]
        if is_expr(p.left, "builder.max_ring_n") and isinstance(p.ops[0], ast.GtE):
            out.append(f"GMaxRingGe {int_const(k, 'ring guard')}")
        elif is_expr(p.left, "builder.max_ring_n") and isinstance(p.ops[0], ast.Gt):
            out.append(f"GMaxRingGe {int_const(k, 'ring guard') + 1}")
        elif is_expr(p.left, "builder.n_atoms") and isinstance(p.ops[0], ast.Eq):
            out.append(f"GNAtomsEq {int_const(k, 'n_atoms guard')}")
        else:
            raise Untranslatable(f"fallback condition `{U(p)}`")
    return out


def tr_pirule(t):
    # `builder.atoms[idx_i].is_aromatic and builder.atoms[idx_j].is_aromatic` is one atom of the rule language
    if isinstance(t, ast.BoolOp) and isinstance(t.op, ast.And) and len(t.values) == 2 and (
            (is_expr(t.values[0], "builder.atoms[idx_i].is_aromatic") and is_expr(t.values[1], "builder.atoms[idx_j].is_aromatic")) or
            (is_expr(t.values[1], "builder.atoms[idx_i].is_aromatic") and is_expr(t.values[0], "builder.atoms[idx_j].is_aromatic"))):
        return "RBothArom"
    if isinstance(t, ast.BoolOp):
        c = "ROr" if isinstance(t.op, ast.Or) else "RAnd"
        terms = [tr_pirule(v) for v in t.values]
        out = terms[-1]
        for x in reversed(terms[:-1]):
            out = f"({c} {x} {out})"
        return out
    if isinstance(t, ast.Compare) and len(t.ops) == 1 and is_expr(t.left, "bond.order"):
        k = int_const(t.comparators[0], "pi rule")
        if isinstance(t.ops[0], ast.Gt):
            return f"(ROrderGt {k})"
        if isinstance(t.ops[0], ast.GtE) and k >= 1:
            return f"(ROrderGt {k - 1})"
    raise Untranslatable(f"pi rule: `{U(t)}`")


SET_PI_IJ = 'molecule.graph.edges[idx_i, idx_j]["pi"] = True'


def tr_for(st, env, fname):
    """loops that set graph attributes / atom classes -> list of ops"""
    body = strip(st.body)
    if st.orelse:
        raise Untranslatable(f"{fname}: for-else")
    # atom classes
    if tgt_is(st.target, "atom, smiles_atom") and is_expr(st.iter, "zip(molecule.atoms, parser.atoms)"):
        if not stmts_are(body, ["atom.atom_class = smiles_atom.atom_class"]):
            raise Untranslatable(f"{fname}: class-copy loop body")
        return ["CopyAtomClasses"]
    # RDKit chiral centres
    legacy = is_expr(st.iter, "Chem.FindMolChiralCenters(rdkit_mol)")
    if tgt_is(st.target, "atom, _") and (legacy or is_expr(st.iter, "Chem.FindMolChiralCenters(rdkit_mol, useLegacyImplementation=False)")):
        env["__chiral_legacy"] = legacy     # which RDKit perception supplies the oracle r_chiral (harness makes the same call)
        if not stmts_are(body, ['molecule.graph.nodes[atom]["stereo"] = True']):
            raise Untranslatable(f"{fname}: chiral-centre loop body")
        return ["MarkStereo StRdkitChiral"]
    # RDKit bonds: pi and double-bond stereo
    if tgt_is(st.target, "bond") and is_expr(st.iter, "rdkit_mol.GetBonds()"):
        if not body or not is_stmt(body[0], "idx_i, idx_j = bond.GetBeginAtomIdx(), bond.GetEndAtomIdx()"):
            raise Untranslatable(f"{fname}: rdkit bond loop header")
        ops = []
        for b in body[1:]:
            if not (isinstance(b, ast.If) and not b.orelse):
                raise Untranslatable(f"{fname}: rdkit bond loop statement `{U(b)[:80]}`")
            inner = strip(b.body)
            if is_expr(b.test, "bond.GetBondType() != Chem.rdchem.BondType.SINGLE") and stmts_are(inner, [SET_PI_IJ]):
                ops.append("MarkPi PiRdkitNonSingle")
            elif is_expr(b.test, "bond.GetStereo() != Chem.rdchem.BondStereo.STEREONONE") and (
                    stmts_are(inner, ['molecule.graph.nodes[idx_i]["stereo"] = True', 'molecule.graph.nodes[idx_j]["stereo"] = True'])
                    or stmts_are(inner, ['molecule.graph.nodes[idx_j]["stereo"] = True', 'molecule.graph.nodes[idx_i]["stereo"] = True'])):
                ops.append("MarkStereo StRdkitBondStereo")
            else:
                raise Untranslatable(f"{fname}: rdkit bond loop branch `{U(b.test)}`")
        # pi (edge attribute) and stereo (node attribute) are independent monotone flag sets: one loop
        # doing both per bond leaves the same store as the two loops in sequence
        return ops
    # parser stereo marks
    if tgt_is(st.target, "idx, atom") and is_expr(st.iter, "enumerate(builder.atoms)"):
        if len(body) == 1 and isinstance(body[0], ast.If) and not body[0].orelse and is_expr(body[0].test, "atom.has_stereochem") \
                and stmts_are(strip(body[0].body), ['molecule.graph.nodes[idx]["stereo"] = True']):
            return ["MarkStereo StParserMarks"]
        raise Untranslatable(f"{fname}: builder-atom loop body")
    # parser bonds -> pi
    if tgt_is(st.target, "bond") and is_expr(st.iter, "parser.bonds"):
        if stmts_are(body, ['molecule.graph.edges[tuple(bond)]["pi"] = True']):
            return ["MarkPi (PiParser RTrue)"]
        if len(body) == 2 and is_stmt(body[0], "idx_i, idx_j = bond"):
            b = body[1]
            if is_stmt(b, SET_PI_IJ):
                return ["MarkPi (PiParser RTrue)"]
            if isinstance(b, ast.If) and not b.orelse and stmts_are(strip(b.body), [SET_PI_IJ]):
                return [f"MarkPi (PiParser {tr_pirule(b.test)})"]
        raise Untranslatable(f"{fname}: parser-bond loop body")
    raise Untranslatable(f"{fname}: loop `for {U(st.target)} in {U(st.iter)}`")


def bonds_src(expr, env, fname):
    if is_expr(expr, "parser.bonds"):
        return "BoParser"
    if is_expr(expr, "rdkit_mol.GetBonds()"):
        return "BoRdkit"
    if isinstance(expr, ast.Name) and expr.id in env:
        return env[expr.id]
    raise Untranslatable(f"{fname}: bond list `{U(expr)}`")


SIMANL = "molecule.atoms = get_simanl_atoms(molecule, save_xyz=False)"


def tr_resim(st, fname):
    if not is_expr(st.test, "not molecule.has_reasonable_coordinates") or st.orelse:
        return None
    inner = strip(st.body)
    if stmts_are(inner, ["molecule.rdkit_conf_gen_is_fine = False", SIMANL]):
        return ["ResimIfUnreasonable true"]
    if stmts_are(inner, [SIMANL]):
        return ["ResimIfUnreasonable false"]
    raise Untranslatable(f"{fname}: unreasonable-coordinates branch `{[U(x) for x in inner]}`")


EMBED_DROPPED = [   # coordinates only (oracle): no effect on the attribute store
    "method = AllChem.ETKDGv2()",
    "method.randomSeed = 0xF00D",
    "AllChem.EmbedMultipleConfs(rdkit_mol, numConfs=1, params=method)",
]

SIMPLE = [
    ("builder.set_atoms_bonds(atoms=parser.atoms, bonds=parser.bonds)", ["BuilderSetAtomsBonds"]),
    ("molecule.charge = parser.charge", ["SetCharge ChParser"]),
    ("molecule.charge = Chem.GetFormalCharge(rdkit_mol)", ["SetCharge ChRdkit"]),
    ("molecule.mult = calc_multiplicity(molecule, NumRadicalElectrons(rdkit_mol))", ["SetMult MuCalcRdkit"]),
    ("if molecule.mult == 1:\n    molecule.mult = parser.mult", ["SetMult MuParserIfDefault"]),
    ("molecule.atoms = atoms_from_rdkit_mol(rdkit_mol, conf_id=0)", ["SetAtoms AtRdkit"]),
    ("molecule.atoms = builder.canonical_atoms", ["SetAtoms AtBuilderCanonical"]),
    ("molecule.atoms = builder.canonical_atoms_at_origin", ["SetAtoms AtBuilderOrigin"]),
    ("builder.build(atoms=parser.atoms, bonds=parser.bonds)", ["BuilderBuild"]),
    ("molecule.rdkit_mol_obj = rdkit_mol", ["StoreRdkitMol"]),
]


def tr_common(st, env, fname):
    """statements shared by both functions -> list of ops, or None if not in the vocabulary"""
    if is_stmt(st, "parser, builder = Parser(), Builder()"):
        env["__new"] = True
        return []
    if is_stmt(st, "parser.parse(smiles)"):
        if not env.pop("__new", False):
            raise Untranslatable(f"{fname}: parse without a fresh parser")
        return ["NewParserBuilder"]
    for text, ops in SIMPLE:
        if is_stmt(st, text):
            return list(ops)
    if isinstance(st, ast.Assign) and len(st.targets) == 1 and tgt_is(st.targets[0], "molecule.rdkit_conf_gen_is_fine") \
            and isinstance(st.value, ast.Constant) and isinstance(st.value.value, bool):
        return [f"SetFine {cbool(st.value.value)}"]
    if is_stmt(st, "bonds = [(bond.GetBeginAtomIdx(), bond.GetEndAtomIdx()) for bond in rdkit_mol.GetBonds()]"):
        env["bonds"] = "BoRdkit"
        return []
    if any(is_stmt(st, t) for t in EMBED_DROPPED):
        return []
    if is_stmt(st, "return None"):
        env["__returned"] = True
        return []
    if isinstance(st, ast.Expr) and isinstance(st.value, ast.Call) and isinstance(st.value.func, ast.Name) \
            and st.value.func.id in ("make_graph", "check_bonds"):
        call = st.value
        f = call.func.id
        names = ["species", "rel_tolerance", "bond_list", "allow_invalid_valancies"] if f == "make_graph" else ["molecule", "bonds"]
        full = dict(zip(names, call.args))
        for k in call.keywords:
            if k.arg is None or k.arg in full:
                raise Untranslatable(f"{fname}: {f} arguments")
            full[k.arg] = k.value
        first, lst = ("species", "bond_list") if f == "make_graph" else ("molecule", "bonds")
        if set(full) != {first, lst} or not is_expr(full[first], "molecule"):
            raise Untranslatable(f"{fname}: {f} called as `{U(st)}`")
        src = bonds_src(full[lst], env, fname)
        return [f"RebuildGraph {src}" if f == "make_graph" else f"CheckBonds {src}"]
    if isinstance(st, ast.For):
        return tr_for(st, env, fname)
    if isinstance(st, ast.If):
        r = tr_resim(st, fname)
        if r is not None:
            return r
    if isinstance(st, ast.Try):
        if stmts_are(strip(st.body), ["builder.build(atoms=parser.atoms, bonds=parser.bonds)",
                                      "molecule.atoms = builder.canonical_atoms"]) \
                and len(st.handlers) == 1 and not st.orelse and not st.finalbody and st.handlers[0].type is not None \
                and is_expr(st.handlers[0].type, "(SMILESBuildFailed, NotImplementedError)") \
                and stmts_are(strip(st.handlers[0].body), ["molecule.atoms = builder.canonical_atoms_at_origin"]):
            return ["BuilderBuild", "SetAtoms AtBuilderTry"]
    return None


def tr_init_smiles(fn):
    if [a.arg for a in fn.args.args] != ["molecule", "smiles"]:
        raise Untranslatable("init_smiles: signature")
    env, ops = {}, []
    for st in strip(fn.body):
        if env.get("__returned"):
            raise Untranslatable("init_smiles: statement after return")
        r = tr_common(st, env, "init_smiles")
        if r is None:
            raise Untranslatable(f"init_smiles: cannot classify `{U(st)[:120]}`")
        if any("Rdkit" in o for o in r):
            raise Untranslatable("init_smiles: uses an RDKit molecule")
        ops += r
    return ops


def tr_init_organic(fn):
    if [a.arg for a in fn.args.args] != ["molecule", "smiles"]:
        raise Untranslatable("init_organic_smiles: signature")
    env, pre, guards, body = {}, [], [], []
    seen_guard = False
    rdkit_parsed = False
    for st in strip(fn.body):
        if env.get("__returned"):
            raise Untranslatable("init_organic_smiles: statement after return")
        if isinstance(st, ast.If) and any(isinstance(x, ast.Return) for x in st.body):
            inner = strip(st.body)
            if st.orelse or len(inner) != 1 or not is_fallback_return(inner[0]):
                raise Untranslatable(f"init_organic_smiles: early return `{U(st)[:100]}`")
            if body:
                raise Untranslatable("init_organic_smiles: fallback after the molecule was modified")
            guards += tr_guard_test(st.test)
            seen_guard = True
            continue
        if isinstance(st, ast.Try) and st.body and is_stmt(st.body[0], "rdkit_mol = Chem.MolFromSmiles(smiles)"):
            tb = strip(st.body)
            ok = (len(tb) == 3 and is_stmt(tb[2], "rdkit_mol = Chem.AddHs(rdkit_mol)") and isinstance(tb[1], ast.If)
                  and is_expr(tb[1].test, "rdkit_mol is None") and not tb[1].orelse
                  and len(strip(tb[1].body)) == 1 and is_fallback_return(strip(tb[1].body)[0])
                  and len(st.handlers) == 1 and st.handlers[0].type is not None
                  and is_expr(st.handlers[0].type, "RuntimeError")
                  and stmts_are(strip(st.handlers[0].body), ["raise RDKitFailed"])
                  and not st.orelse and not st.finalbody)
            if not ok:
                raise Untranslatable("init_organic_smiles: RDKit parse block changed")
            if body:
                raise Untranslatable("init_organic_smiles: fallback after the molecule was modified")
            guards.append("GRdkitNone")
            seen_guard = True
            rdkit_parsed = True
            continue
        r = tr_common(st, env, "init_organic_smiles")
        if r is None:
            raise Untranslatable(f"init_organic_smiles: cannot classify `{U(st)[:120]}`")
        if (any("Rdkit" in o for o in r) or "bonds" in env) and not rdkit_parsed:
            raise Untranslatable("init_organic_smiles: RDKit molecule used before it is created")
        if not seen_guard:
            if any(o not in ("NewParserBuilder", "BuilderSetAtomsBonds") for o in r):
                raise Untranslatable("init_organic_smiles: molecule modified before the fallback decision")
            pre += r
        else:
            body += r
    tr_init_organic.chiral_legacy = env.get("__chiral_legacy", True)
    return pre, guards, body


def tr_top(fn):
    """Molecule._init_smiles -> (if_metal, otherwise, charge_check)"""
    body = strip(fn.body)
    if len(body) < 3 or not is_stmt(body[0], 'at_strings = re.findall(r"\\[.*?]", smiles)'):
        raise Untranslatable("_init_smiles: bracket regex changed")
    br = body[1]
    if not (isinstance(br, ast.If) and is_expr(br.test, "any(metal in string for metal in metals for string in at_strings)")):
        raise Untranslatable("_init_smiles: metal test changed")

    def which(stmts):
        t = strip(stmts)
        if stmts_are(t, ["init_smiles(self, smiles)"]):
            return "PBuiltin"
        if stmts_are(t, ["init_organic_smiles(self, smiles)"]):
            return "POrganic"
        raise Untranslatable(f"_init_smiles: branch `{[U(x) for x in t]}`")
    if_metal, otherwise = which(br.body), which(br.orelse)
    rest = body[2:]
    if stmts_are(rest, ["return None"]):
        cc = False
    elif len(rest) == 2 and is_stmt(rest[1], "return None") and isinstance(rest[0], ast.If) and not rest[0].orelse \
            and is_expr(rest[0].test, "charge is not None and charge != self._charge") \
            and len(rest[0].body) == 1 and isinstance(rest[0].body[0], ast.Raise) \
            and isinstance(rest[0].body[0].exc, ast.Call) and is_expr(rest[0].body[0].exc.func, "ValueError"):
        cc = True
    else:
        raise Untranslatable(f"_init_smiles: trailing statements changed: {[U(x)[:60] for x in rest]}")
    return if_metal, otherwise, cc


def main():
    files = {"smiles": "autode/smiles/smiles.py", "molecule": "autode/species/molecule.py", "atoms": "autode/atoms.py",
             "graphs": "autode/mol_graphs.py", "builder": "autode/smiles/builder.py",
             "species": "autode/species/species.py", "base": "autode/smiles/base.py",
             "parser": "autode/smiles/parser.py"}
    tree = {k: ast.parse(open(os.path.join(REPO, v)).read()).body for k, v in files.items()}

    organic = get_func(tree["smiles"], "init_organic_smiles")
    builtin = get_func(tree["smiles"], "init_smiles")
    pre, guards, body = tr_init_organic(organic)
    bops = tr_init_smiles(builtin)
    calc = tr_calc_multiplicity(get_func(tree["smiles"], "calc_multiplicity"))
    expect_body(get_func(tree["smiles"], "check_bonds"), CHECK_BONDS, "check_bonds")
    st_def, pi_def, copies = check_make_graph(get_func(tree["graphs"], "make_graph"))
    top = tr_top(get_method(get_class(tree["molecule"], "Molecule"), "_init_smiles"))

    B = get_class(tree["builder"], "Builder")
    expect_body(get_method(B, "_explicit_all_hydrogens"), EXPLICIT_HS, "Builder._explicit_all_hydrogens")
    sab = cleaned_body(get_method(B, "set_atoms_bonds"))
    want = _Clean().visit(ast.parse(SET_ATOMS_BONDS_PREFIX)).body
    if [ast.dump(s) for s in sab[:len(want)]] != [ast.dump(s) for s in want]:
        raise Untranslatable("Builder.set_atoms_bonds: prologue changed")
    for s in sab[len(want):]:
        for n in ast.walk(s):
            if isinstance(n, (ast.Assign, ast.AugAssign)):
                tg = n.targets if isinstance(n, ast.Assign) else [n.target]
                if any(tgt_is(t, "self.atoms") or tgt_is(t, "self.bonds") for t in tg):
                    raise Untranslatable("Builder.set_atoms_bonds: atoms/bonds reassigned after the hydrogen expansion")
    expect_body(get_method(B, "canonical_atoms"), CANONICAL, "Builder.canonical_atoms")
    try:
        expect_body(get_method(B, "canonical_atoms_at_origin"), CANONICAL_ORIGIN, "Builder.canonical_atoms_at_origin")
        keeps = False
    except Untranslatable:
        expect_body(get_method(B, "canonical_atoms_at_origin"), CANONICAL_ORIGIN_KEEPS, "Builder.canonical_atoms_at_origin")
        keeps = True

    def param(o):
        o = o.replace("SetMult MuCalcRdkit", "SetMult (MuCalcRdkit calc_mult_gen)")
        for nm in ("AtBuilderOrigin", "AtBuilderTry"):
            o = o.replace(f"SetAtoms {nm}", f"SetAtoms ({nm} origin_keeps_class)")
        return o
    pre, body, bops = [param(o) for o in pre], [param(o) for o in body], [param(o) for o in bops]
    expect_body(get_method(B, "max_ring_n"), MAX_RING_N, "Builder.max_ring_n")
    bb = cleaned_body(get_method(B, "build"))
    if not bb or not is_stmt(bb[0], "self.set_atoms_bonds(atoms, bonds)"):
        raise Untranslatable("Builder.build no longer starts with set_atoms_bonds(atoms, bonds)")
    Sp = get_class(tree["species"], "Species")
    expect_body(get_method(Sp, "atoms", setter=True), ATOMS_SETTER, "Species.atoms setter")
    expect_body(get_method(Sp, "graph"), GRAPH_GETTER, "Species.graph")
    expect_body(get_method(Sp, "charge", setter=True), CHARGE_SETTER, "Species.charge setter")
    expect_body(get_method(Sp, "mult", setter=True), MULT_SETTER, "Species.mult setter")
    expect_body(get_method(get_class(tree["atoms"], "AtomCollection"), "atoms", setter=True), COLLECTION_ATOMS_SETTER,
                "AtomCollection.atoms setter")
    for (mod, name), val in MODULE_LITERALS.items():
        check_literal(tree[mod], name, val, f"autode/smiles/{mod}.py")
    check_literal(tree["atoms"], "metals", METALS, "autode/atoms.py")
    SA = get_class(tree["base"], "SMILESAtom")
    expect_body(get_method(SA, "is_aromatic"), IS_AROMATIC, "SMILESAtom.is_aromatic")
    expect_body(get_method(SA, "has_stereochem"), HAS_STEREOCHEM, "SMILESAtom.has_stereochem")
    P = get_class(tree["parser"], "Parser")
    expect_body(get_method(P, "charge"), PARSER_CHARGE, "Parser.charge")
    expect_body(get_method(P, "mult"), PARSER_MULT, "Parser.mult")

    sha = hashlib.sha256((ast.dump(organic) + ast.dump(builtin)).encode()).hexdigest()

    def lst(xs, sep="; "):
        return "[" + sep.join(xs) + "]"
    L = []
    L.append("(* GENERATED by /verif/tr/translate_c02.py from autode/smiles/smiles.py, species/molecule.py,")
    L.append(f"   mol_graphs.py — do not edit.  sha256(ast of init_organic_smiles + init_smiles) = {sha} *)")
    L.append("From Coq Require Import List Bool Arith.")
    L.append("From AV.C02 Require Import Model.")
    L.append("Import ListNotations.\n")
    L.append("(* calc_multiplicity(molecule, n_radical_electrons) *)")
    L.append(f"Definition calc_mult_gen (mult nrad : nat) : nat :=\n  {calc}.\n")
    L.append("(* does Builder.canonical_atoms_at_origin pass atom_class on *)")
    L.append(f"Definition origin_keeps_class : bool := {cbool(keeps)}.\n")
    L.append("(* init_organic_smiles: statements before the fallback decision *)")
    L.append(f"Definition organic_pre : list op := {lst(pre)}.")
    L.append("(* conditions under which it returns init_smiles(molecule, smiles) instead *)")
    L.append(f"Definition organic_guards : list guard := {lst(guards)}.")
    L.append("(* the RDKit path proper, in source order *)")
    L.append("Definition organic_body : list op :=\n  " + lst(body, ";\n   ") + ".")
    L.append("(* init_smiles, in source order *)")
    L.append("Definition builtin_ops : list op :=\n  " + lst(bops, ";\n   ") + ".\n")
    L.append("(* Molecule._init_smiles *)")
    L.append(f"Definition top_if_metal : pathname := {top[0]}.")
    L.append(f"Definition top_otherwise : pathname := {top[1]}.")
    L.append(f"Definition top_charge_check : bool := {cbool(top[2])}.\n")
    L.append("(* make_graph(bond_list=...): attribute defaults of new nodes / edges *)")
    L.append(f"Definition mg_node_stereo_default : bool := {cbool(st_def)}.")
    L.append(f"Definition mg_edge_pi_default : bool := {cbool(pi_def)}.")
    L.append(f"Definition mg_copies_atom_class : bool := {cbool(copies)}.")
    txt = "\n".join(L) + "\n"
    os.makedirs(os.path.dirname(OUT), exist_ok=True)
    old = open(OUT).read() if os.path.exists(OUT) else None
    if old != txt:
        _tmp = OUT + ".tmp%d" % os.getpid()
        with open(_tmp, "w") as f:
            f.write(txt)
        os.replace(_tmp, OUT)  # atomic: a concurrent coqc never sees a partial file
    return {"sha256": sha, "organic_pre": pre, "organic_guards": guards, "organic_body": body,
            "builtin_ops": bops, "calc_multiplicity": calc, "top": list(top),
            "make_graph_defaults": [st_def, pi_def, copies], "origin_keeps_class": keeps,
            "chiral_legacy": getattr(tr_init_organic, "chiral_legacy", True)}


if __name__ == "__main__":
    try:
        print("translated:", json.dumps(main()))
    except Untranslatable as e:
        print("UNTRANSLATABLE:", e)
        sys.exit(3)
