#!/usr/bin/env python3
"""Fail-closed translator for C12:  autode/thermochemistry/igm.py (formula bodies and the H/G assembly),
Atoms.moi / Atoms.com / AtomCollection.weight (autode/atoms.py), the guard of Species.sn
(autode/species/species.py) and the re-centring statement of symmetry_number
(autode/thermochemistry/symmetry.py)  ->  coq/gen/C12_Gen.v

Only the Python `ast` is read; nothing from the repository is imported or executed.  Constants
(SIConstants.*, Constants.*) and unit factors are folded with Python float arithmetic (so each one is
the exact double the code computes) and emitted as exact rationals `ofQ O n d`.

Every function body is translated statement by statement into ONE Gallina definition over the
operation record `Ops F` of coq/C12/Base.v (+ - * /, integer powers `pown`, `** 1.5` -> opow15,
np.log/exp/sqrt -> oln/oexp/osqrt, np.pi -> opi, max -> omax, `for x in xs: acc += e` and
`sum(e for x in xs)` -> lsum, `.to("unit")` -> multiplication by the ratio of the unit factors of
autode/units.py, np.trace/np.prod/np.linalg.eigvalsh/np.diagonal on the 3x3 inertia tensor).
Any statement, expression, call, attribute, unit or shape outside this vocabulary aborts with
exit code 3 (UNTRANSLATABLE) and the property is then not shown.
"""
import ast
import hashlib
import os
import sys
from fractions import Fraction

sys.path.insert(0, os.path.dirname(os.path.abspath(__file__)))
import translate_units as TU  # noqa: E402   (parse_constants / parse_units / parse_classes / fold: pure ast)

REPO = os.environ.get("VERIF_REPO", "/repo")
OUT = "/verif/coq/gen/C12_Gen.v"
IGM = "autode/thermochemistry/igm.py"


class Untranslatable(Exception):
    pass


def bail(node, msg, rel=IGM):
    raise Untranslatable(f"{rel}:{getattr(node, 'lineno', '?')}: {msg}")


def lit(x):
    f = Fraction(*float(x).as_integer_ratio())
    return f"(ofQ O ({f.numerator})%Z {f.denominator}%positive)"


class Val:
    """translated expression.  sh: 's' scalar (t: str) | 'v' 3-vector (t: k -> str) | 'm' 3x3 matrix
    (t: (i,j) -> str) | 'n' nat (t: str).  unit: python variable name of the unit in units.py or None."""

    def __init__(self, t, sh="s", unit=None, tag=None):
        self.t, self.sh, self.unit, self.tag = t, sh, unit, tag
        self.full = None      # for a let-bound matrix: the same matrix written without local names


def full_of(v):
    return v.full or v.t


def bin_(op, a, b):
    return f"({op} O {a} {b})"


OPS = {ast.Add: "oadd", ast.Sub: "osub", ast.Mult: "omul", ast.Div: "odiv"}

# python function -> (coq name, [(python parameter, coq binder)])
FUNCS = {
    "_moi_about_com": ("moi_about_com", ["species"]),
    "_q_trans_igm": ("q_trans_igm", ["species", "ss", "temp"]),
    "_q_rot_igm": ("q_rot_igm", ["species", "temp", "sigma_r"]),
    "_s_trans_pib": ("s_trans_pib", ["species", "ss", "temp"]),
    "_s_rot_rr": ("s_rot_rr", ["species", "temp", "sigma_r"]),
    "_igm_s_vib": ("igm_s_vib", ["species", "temp"]),
    "_truhlar_s_vib": ("truhlar_s_vib", ["species", "temp", "shift_freq"]),
    "_grimme_w": ("grimme_w", ["omega_0", "freq", "alpha"]),
    "_grimme_s_vib": ("grimme_s_vib", ["species", "temp", "omega_0", "alpha"]),
    "_entropy": ("entropy", ["species", "params"]),
    "_zpe": ("zpe", ["species"]),
    "_internal_vib_energy": ("internal_vib_energy", ["species", "params"]),
    "_internal_energy": ("internal_energy", ["species", "params"]),
}
ORDER = ["_moi_about_com", "_q_trans_igm", "_q_rot_igm", "_s_trans_pib", "_s_rot_rr", "_igm_s_vib", "_truhlar_s_vib", "_grimme_w",
         "_grimme_s_vib", "_entropy", "_zpe", "_internal_vib_energy", "_internal_energy"]
PTYPE = {"species": ("sp", "Species F"), "params": ("p", "Params F"), "ss": ("ss", "sstate"),
         "alpha": ("alpha", "nat")}
# unit (python variable in units.py) of the frequency-like parameters: already in cm-1 (Model.freq_arg)
PUNIT = {"shift_freq": "wavenumber", "omega_0": "wavenumber", "freq": "wavenumber"}
SKIP_CALLS = ("logger.info", "logger.warning")
MATRIX_FUNCS = {"_moi_about_com": ("amu_ang_sq", "moi")}     # functions returning a 3x3 matrix: (unit, tag)


class Tr:
    def __init__(self, cenv, sienv, units, classes):
        self.cenv, self.sienv, self.units, self.classes = cenv, sienv, units, classes
        self.used_consts, self.used_si, self.used_units = [], [], []
        self.assumed = []          # skipped `assert` statements (documented preconditions)
        self.defs = []             # emitted text
        self.eig_arg = None        # the (closed) matrix expression handed to np.linalg.eigvalsh
        self.term_defs = []

    # ------------------------------------------------------------------ names
    def const(self, name):
        if name not in self.cenv:
            raise Untranslatable(f"unknown Constants.{name}")
        if name not in self.used_consts:
            self.used_consts.append(name)
        return Val(f"c_{name}")

    def si(self, name):
        if name not in self.sienv:
            raise Untranslatable(f"unknown SIConstants.{name}")
        if name not in self.used_si:
            self.used_si.append(name)
        return Val(f"si_{name}")

    def unit_term(self, var):
        if var not in self.used_units:
            self.used_units.append(var)
        return f"u_{var}"

    def convert(self, node, v, alias):
        """X.to(alias): multiplication by times(target)/times(source) (values._to with add = 0)."""
        if v.unit is None:
            bail(node, f"`.to({alias!r})` on a value whose unit is not known: {ast.unparse(node)}")
        cands = [c for c in self.classes if v.unit in c[1]]
        target = None
        for _, us, _b in cands:
            for u in us:
                if alias.lower() in self.units[u]["aliases"]:
                    if target is not None and self.units[target] is not self.units[u]:
                        bail(node, f"ambiguous unit alias {alias!r}")
                    target = u
        if target is None:
            bail(node, f"unit {alias!r} is not a unit of the class of {v.unit}")
        if self.units[target]["add"] != 0.0 or self.units[v.unit]["add"] != 0.0:
            bail(node, "affine unit in a formula")
        if self.units[target] is self.units[v.unit]:
            return Val(v.t, v.sh, target, v.tag)        # same unit: values._to returns the value itself
        f = f"(odiv O {self.unit_term(target)} {self.unit_term(v.unit)})"
        if v.sh == "s":
            return Val(f"(omul O {v.t} {f})", "s", target, v.tag)
        if v.sh == "v":
            return Val(lambda k, t=v.t: f"(omul O {t(k)} {f})", "v", target, v.tag)
        if v.sh == "m":
            nv = Val(lambda i, j, t=v.t: f"(omul O {t(i, j)} {f})", "m", target, v.tag)
            nv.full = lambda i, j, t=full_of(v): f"(omul O {t(i, j)} {f})"
            return nv
        bail(node, "unit conversion of this shape")

    # ------------------------------------------------------------------ expressions
    def expr(self, node, env):
        src = ast.unparse(node)
        if src in env:
            return env[src]
        if isinstance(node, ast.Constant) and isinstance(node.value, (int, float)) and not isinstance(node.value, bool):
            return Val(lit(node.value))
        if isinstance(node, ast.Attribute) and isinstance(node.value, ast.Name):
            if node.value.id == "SIConstants":
                return self.si(node.attr)
            if node.value.id == "Constants":
                return self.const(node.attr)
            if src == "np.pi":
                return Val("(opi O)")
        if isinstance(node, ast.Attribute) and node.attr == "real":
            v = self.expr(node.value, env)
            if v.tag != "freq":
                bail(node, "`.real` on something that is not a vibrational frequency")
            return v                      # model frequencies ARE the real (positive) parts, see ASSUMED
        if isinstance(node, ast.UnaryOp) and isinstance(node.op, ast.USub):
            v = self.expr(node.operand, env)
            if v.sh != "s":
                bail(node, "negation of non-scalar")
            return Val(f"(oopp O {v.t})", "s", v.unit)
        if isinstance(node, ast.BinOp):
            return self.binop(node, env)
        if isinstance(node, ast.IfExp):
            # float(A.to("cm-1")) if hasattr(A, "to") else A      (A already in cm-1)
            t, b, o = node.test, node.body, node.orelse
            if (isinstance(t, ast.Call) and ast.unparse(t.func) == "hasattr" and len(t.args) == 2
                    and ast.unparse(t.args[1]) in ("'to'", '"to"') and ast.unparse(t.args[0]) == ast.unparse(o)):
                vb, vo = self.expr(b, env), self.expr(o, env)
                if vb.t == vo.t:
                    return vo
            bail(node, f"conditional expression `{src}`")
        if isinstance(node, ast.Call):
            return self.call(node, env)
        bail(node, f"expression `{src}`")

    def binop(self, node, env):
        if isinstance(node.op, ast.Pow):
            # np.linalg.norm(V) ** 2  ->  V.V     ((sqrt s)^2 = s for s >= 0)
            if (isinstance(node.left, ast.Call) and ast.unparse(node.left.func) == "np.linalg.norm"
                    and isinstance(node.right, ast.Constant) and node.right.value == 2 and len(node.left.args) == 1
                    and not node.left.keywords):
                v = self.expr(node.left.args[0], env)
                if v.sh != "v":
                    bail(node, "norm of non-vector")
                c = [f"(omul O {v.t(k)} {v.t(k)})" for k in ("0%nat", "1%nat", "2%nat")]
                return Val(f"(oadd O (oadd O {c[0]} {c[1]}) {c[2]})")
            base = self.expr(node.left, env)
            if base.sh != "s":
                bail(node, "power of non-scalar")
            if isinstance(node.right, ast.Constant) and isinstance(node.right.value, int) and node.right.value >= 0:
                return Val(f"(pown O {base.t} {node.right.value}%nat)")
            if isinstance(node.right, ast.Constant) and node.right.value == 1.5:
                return Val(f"(opow15 O {base.t})")
            e = self.expr(node.right, env)
            if e.sh == "n":
                return Val(f"(pown O {base.t} {e.t})")
            bail(node, f"exponent `{ast.unparse(node.right)}`")
        if type(node.op) not in OPS:
            bail(node, f"operator {type(node.op).__name__}")
        op = OPS[type(node.op)]
        a, b = self.expr(node.left, env), self.expr(node.right, env)
        if a.sh == "s" and b.sh == "s":
            unit = a.unit if (a.unit == b.unit and op in ("oadd", "osub")) else None
            tag = a.tag if a.tag == b.tag and op in ("oadd", "osub") else None
            return Val(bin_(op, a.t, b.t), "s", unit, tag)
        if "v" in (a.sh, b.sh) and a.sh in "sv" and b.sh in "sv":
            fa = a.t if a.sh == "v" else (lambda k, t=a.t: t)
            fb = b.t if b.sh == "v" else (lambda k, t=b.t: t)
            unit = a.unit if (a.unit == b.unit and op in ("oadd", "osub")) else None
            return Val(lambda k: bin_(op, fa(k), fb(k)), "v", unit)
        if "m" in (a.sh, b.sh) and a.sh in "sm" and b.sh in "sm":
            if a.sh == "m" and b.sh == "m" and op not in ("oadd", "osub"):
                bail(node, "elementwise product of matrices")
            if op == "odiv" and b.sh == "m":
                bail(node, "division by a matrix")
            fa = a.t if a.sh == "m" else (lambda i, j, t=a.t: t)
            fb = b.t if b.sh == "m" else (lambda i, j, t=b.t: t)
            unit = a.unit if (a.unit == b.unit and op in ("oadd", "osub")) else None
            tag = a.tag if (a.sh == "m" and b.sh == "m" and op in ("oadd", "osub")) else None
            return Val(lambda i, j: bin_(op, fa(i, j), fb(i, j)), "m", unit, tag)
        bail(node, f"shapes {a.sh} {op} {b.sh}")

    def call(self, node, env):
        f = ast.unparse(node.func)
        src = ast.unparse(node)
        kw = {k.arg: k.value for k in node.keywords}
        if None in kw:
            bail(node, "**kwargs in a formula call")
        if f == "float" and len(node.args) == 1 and not kw:
            return self.expr(node.args[0], env)
        if isinstance(node.func, ast.Attribute) and node.func.attr == "to" and len(node.args) == 1 and not kw:
            a = node.args[0]
            if not (isinstance(a, ast.Constant) and isinstance(a.value, str)):
                bail(node, "unit is not a string literal")
            return self.convert(node, self.expr(node.func.value, env), a.value)
        if isinstance(node.func, ast.Attribute) and node.func.attr == "copy" and not node.args and not kw:
            v = self.expr(node.func.value, env)
            if v.sh != "m":
                bail(node, "copy of non-matrix")
            return v
        if f == "np.array" and len(node.args) == 1 and set(kw) <= {"dtype"}:
            if "dtype" in kw and ast.unparse(kw["dtype"]) != "float":
                bail(node, "np.array dtype")
            v = self.expr(node.args[0], env)
            if v.sh != "v":
                bail(node, "np.array of non-vector")
            return v
        if f == "np.dot" and len(node.args) == 2 and not kw:
            a, b = self.expr(node.args[0], env), self.expr(node.args[1], env)
            if a.sh != "v" or b.sh != "v":
                bail(node, "np.dot of non-vectors")
            c = [f"(omul O {a.t(k)} {b.t(k)})" for k in ("0%nat", "1%nat", "2%nat")]
            return Val(f"(oadd O (oadd O {c[0]} {c[1]}) {c[2]})")
        if f == "np.eye" and len(node.args) == 1 and not kw and ast.unparse(node.args[0]) == "3":
            return Val(lambda i, j: f"(if Nat.eqb {i} {j} then o1 O else o0 O)", "m")
        if f == "np.outer" and len(node.args) == 2 and not kw:
            a, b = self.expr(node.args[0], env), self.expr(node.args[1], env)
            if a.sh != "v" or b.sh != "v":
                bail(node, "np.outer of non-vectors")
            return Val(lambda i, j: f"(omul O {a.t(i)} {b.t(j)})", "m")
        if f in MATRIX_FUNCS and len(node.args) == 1 and not kw and ast.unparse(node.args[0]) == "species":
            unit, tag = MATRIX_FUNCS[f]
            return Val(lambda i, j, n=FUNCS[f][0]: f"({n} sp {i} {j})", "m", unit, tag)
        if f in ("np.log", "np.exp", "np.sqrt") and len(node.args) == 1 and not kw:
            v = self.expr(node.args[0], env)
            if v.sh != "s":
                bail(node, f"{f} of non-scalar")
            return Val(f"({ {'np.log': 'oln', 'np.exp': 'oexp', 'np.sqrt': 'osqrt'}[f]} O {v.t})")
        if f == "max" and len(node.args) == 2 and not kw:
            a, b = self.expr(node.args[0], env), self.expr(node.args[1], env)
            if a.sh != "s" or b.sh != "s":
                bail(node, "max of non-scalars")
            return Val(f"(omax O {a.t} {b.t})", "s", a.unit if a.unit == b.unit else None, "freq")
        if f == "np.trace" and len(node.args) == 1 and not kw:
            m = self.expr(node.args[0], env)
            if m.sh != "m":
                bail(node, "trace of non-matrix")
            return Val(f"(trace3 O (fun i j : nat => {m.t('i', 'j')}))")
        if f == "np.prod" and len(node.args) == 1 and not kw:
            v = self.expr(node.args[0], env)
            if v.sh != "v":
                bail(node, "prod of non-vector")
            return Val(f"(prod3 O (fun k : nat => {v.t('k')}))")
        if f == "np.linalg.eigvalsh" and len(node.args) == 1 and not kw:
            m = self.expr(node.args[0], env)
            if m.sh != "m" or m.tag != "moi" or m.unit != "kg_m_sq":
                bail(node, "eigvalsh of something that is not the inertia tensor in kg m^2")
            closed = full_of(m)("i", "j")
            if "l_" in closed or self.eig_arg not in (None, closed):
                bail(node, "argument of eigvalsh is not a closed expression of the species")
            self.eig_arg = closed
            return Val(lambda k: f"(sp_eig sp {k})", "v", None, "eig")      # ORACLE
        if f == "np.diagonal" and len(node.args) == 1 and not kw:
            m = self.expr(node.args[0], env)
            if m.sh != "m":
                bail(node, "diagonal of non-matrix")
            return Val(lambda k, t=m.t: t(k, k), "v", m.unit)
        if f in ("EnthalpyCont", "FreeEnergyCont") and len(node.args) == 1 and set(kw) == {"units"}:
            u = kw["units"]
            if not (isinstance(u, ast.Constant) and u.value == "J"):
                bail(node, "energy constructed in a unit other than J")
            v = self.expr(node.args[0], env)
            return Val(v.t, "s", "J")
        if f == "sum" and len(node.args) == 1 and not kw and isinstance(node.args[0], ast.GeneratorExp):
            g = node.args[0]
            if len(g.generators) != 1 or g.generators[0].ifs or ast.unparse(g.generators[0].iter) != "species.atoms" \
                    or ast.unparse(g.generators[0].target) != "atom":
                bail(node, f"generator `{src}`")
            e2 = dict(env)
            e2.update(atom_env())
            body = self.expr(g.elt, e2)
            if body.sh != "s":
                bail(node, "sum of non-scalars")
            return Val(f"(lsum O (fun atom : atomT => {body.t}) (sp_atoms sp))")
        if f in FUNCS:
            name, params = FUNCS[f]
            args = {}
            for p, a in zip(params, node.args):
                args[p] = a
            for k, a in kw.items():
                if k not in params or k in args:
                    bail(node, f"argument {k} of {f}")
                args[k] = a
            if set(args) != set(params):
                bail(node, f"arguments of {f}")
            ts = []
            for p in params:
                if p in ("species", "params"):
                    if ast.unparse(args[p]) != p:
                        bail(node, f"{f} is not called on the same {p}")
                    ts.append(PTYPE[p][0])
                else:
                    v = self.expr(args[p], env)
                    if v.sh not in ("s", "n") and p != "ss":
                        bail(node, f"argument {p} of {f}")
                    ts.append(v.t)
            return Val(f"({name} {' '.join(ts)})")
        bail(node, f"call `{src}`")

    # ------------------------------------------------------------------ conditions
    def cond(self, node, env):
        src = ast.unparse(node)
        if isinstance(node, ast.BoolOp) and isinstance(node.op, ast.Or):
            return "(" + " || ".join(self.cond(v, env) for v in node.values) + ")"
        if src == "species.is_linear()":
            return "(sp_linear sp)"
        if isinstance(node, ast.Compare) and len(node.ops) == 1:
            l, r = ast.unparse(node.left), node.comparators[0]
            if l == "species.n_atoms" and isinstance(r, ast.Constant) and isinstance(r.value, int):
                n = "(length (sp_atoms sp))"
                if isinstance(node.ops[0], ast.Eq):
                    return f"(Nat.eqb {n} {r.value})"
                if isinstance(node.ops[0], ast.Lt):
                    return f"(Nat.ltb {n} {r.value})"
            if l == "ss.lower()" and isinstance(node.ops[0], ast.Eq) and isinstance(r, ast.Constant):
                if r.value == "1atm":
                    return "(is_1atm ss)"
                if r.value == "1m":
                    return "(is_1m ss)"
            if l == "params.method" and isinstance(node.ops[0], ast.Eq):
                rs = ast.unparse(r)
                if rs in ("LFMethod.igm", "LFMethod.truhlar", "LFMethod.grimme", "LFMethod.minenkov"):
                    return f"(lfm_eqb (p_method p) LF_{rs.split('.')[1]})"
        bail(node, f"condition `{src}`")

    # ------------------------------------------------------------------ statements
    def block(self, stmts, env, fname):
        """continuation-style translation of a statement list ending in `return e` (or raise)."""
        if not stmts:
            raise Untranslatable(f"{fname}: control reaches the end of the function without return")
        st, rest = stmts[0], stmts[1:]
        if isinstance(st, ast.Expr) and isinstance(st.value, ast.Constant) and isinstance(st.value.value, str):
            return self.block(rest, env, fname)
        if isinstance(st, ast.Expr) and isinstance(st.value, ast.Call) and ast.unparse(st.value.func) in SKIP_CALLS:
            return self.block(rest, env, fname)
        if isinstance(st, ast.Assert):
            self.assumed.append(f"{fname}: assert {ast.unparse(st.test)}")
            return self.block(rest, env, fname)
        if isinstance(st, ast.Return):
            if st.value is None:
                bail(st, "bare return in a formula")
            v = self.expr(st.value, env)
            if self.cur_ret == "m":
                if v.sh != "m" or (v.unit, v.tag) != MATRIX_FUNCS[fname]:
                    bail(st, "result is not the inertia tensor in amu Å^2")
                return f"(fun i j : nat => {v.t('i', 'j')})"
            if v.sh != "s":
                bail(st, "non-scalar result")
            return v.t
        if isinstance(st, ast.Raise):
            return "(o0 O) (* raise: unreachable for the enumerated standard states / methods *)"
        if isinstance(st, ast.Assign) and len(st.targets) == 1 and isinstance(st.targets[0], ast.Name):
            name = st.targets[0].id
            # accumulator loop:  acc = 0 ; for freq in species.vib_frequencies: ... acc += e
            if (isinstance(st.value, ast.Constant) and st.value.value in (0, 0.0) and not isinstance(st.value.value, bool)
                    and any(isinstance(s, ast.For) and self.loop_acc(s) == name for s in rest)):
                return self.accumulate(name, rest, env, fname)
            v = self.expr(st.value, env)
            ln = f"l_{name}"
            e2 = dict(env)
            if v.sh == "s":
                e2[name] = Val(ln, "s", v.unit, v.tag)
                return f"let {ln} := {v.t} in\n  {self.block(rest, e2, fname)}"
            if v.sh == "n":
                e2[name] = Val(ln, "n")
                return f"let {ln} := {v.t} in\n  {self.block(rest, e2, fname)}"
            if v.sh == "v":
                e2[name] = Val(lambda k: f"({ln} {k})", "v", v.unit, v.tag)
                return f"let {ln} := (fun k : nat => {v.t('k')}) in\n  {self.block(rest, e2, fname)}"
            if v.sh == "m":
                e2[name] = Val(lambda i, j: f"({ln} {i} {j})", "m", v.unit, v.tag)
                e2[name].full = full_of(v)
                return f"let {ln} := (fun i j : nat => {v.t('i', 'j')}) in\n  {self.block(rest, e2, fname)}"
        if (isinstance(st, ast.AugAssign) and isinstance(st.target, ast.Name) and isinstance(st.op, (ast.Add, ast.Sub))
                and st.target.id in env and env[st.target.id].sh == "m"):
            name = st.target.id
            old = env[name]
            v = self.expr(st.value, env)
            if v.sh != "m":
                bail(st, "matrix update by a non-matrix")
            op = "oadd" if isinstance(st.op, ast.Add) else "osub"
            ln = f"l_{name}"
            e2 = dict(env)
            e2[name] = Val(lambda i, j: f"({ln} {i} {j})", "m", old.unit, old.tag)
            return (f"let {ln} := (fun i j : nat => {bin_(op, old.t('i', 'j'), v.t('i', 'j'))}) in\n  "
                    f"{self.block(rest, e2, fname)}")
        if isinstance(st, ast.If):
            c = self.cond(st.test, env)
            terminates = isinstance(st.body[-1], (ast.Return, ast.Raise))
            a = self.block(st.body + ([] if terminates else rest), env, fname)
            b = self.block(st.orelse + rest, env, fname)
            return f"if {c} then ({a})\n  else ({b})"
        bail(st, f"{fname}: statement `{ast.unparse(st)[:80]}`")

    @staticmethod
    def loop_acc(loop):
        """name of the accumulator of a `for freq in species.vib_frequencies` loop (or None)"""
        if ast.unparse(loop.iter) != "species.vib_frequencies" or ast.unparse(loop.target) != "freq" or loop.orelse:
            return None
        accs = set()
        for s in ast.walk(loop):
            if isinstance(s, ast.AugAssign):
                if not isinstance(s.op, ast.Add) or not isinstance(s.target, ast.Name):
                    return None
                accs.add(s.target.id)
        return accs.pop() if len(accs) == 1 else None

    def accumulate(self, acc, rest, env, fname):
        # statements before the loop that are plain assignments stay `let`s around the lsum
        pre = []
        i = 0
        while not isinstance(rest[i], ast.For):
            pre.append(rest[i])
            i += 1
        loop, after = rest[i], rest[i + 1:]
        if self.loop_acc(loop) != acc:
            bail(loop, f"{fname}: loop does not accumulate into `{acc}`")

        def cont(env_after_pre):
            # per-mode term as its own definition: parameters = function parameters + locals in scope
            outer = [(k, v) for k, v in env_after_pre.items() if v.t is not None and isinstance(v.t, str)
                     and (v.t.startswith("l_") or k in self.cur_params) and k not in ("species", "params")]
            binders, args = [], []
            if self.cur_uses_sp:
                binders.append("(sp : Species F)")
                args.append("sp")
            if self.cur_uses_p:
                binders.append("(p : Params F)")
                args.append("p")
            for k, v in outer:
                ty = "nat" if v.sh == "n" else ("sstate" if k == "ss" else "F")
                binders.append(f"({v.t} : {ty})")
                args.append(v.t)
            e3 = dict(env_after_pre)
            e3["freq"] = Val("freq", "s", "wavenumber", "freq")
            body = self.loop_body(loop.body, e3, acc, fname)
            tname = f"{FUNCS[fname][0]}_term"
            self.term_defs.append(f"Definition {tname} {' '.join(binders)} (freq : F) : F :=\n  {body}.\n")
            total = f"(lsum O (fun freq : F => {tname} {' '.join(args)} freq) (sp_vib sp))"
            e4 = dict(env_after_pre)
            e4[acc] = Val(f"l_{acc}")
            return f"let l_{acc} := {total} in\n  {self.block(after, e4, fname)}"

        return self.block_pre(pre, env, fname, cont)

    def block_pre(self, pre, env, fname, cont):
        if not pre:
            return cont(env)
        st = pre[0]
        if isinstance(st, ast.Assign) and len(st.targets) == 1 and isinstance(st.targets[0], ast.Name):
            name = st.targets[0].id
            v = self.expr(st.value, env)
            if v.sh not in ("s", "n"):
                bail(st, "non-scalar local before an accumulator loop")
            e2 = dict(env)
            e2[name] = Val(f"l_{name}", v.sh, v.unit, v.tag)
            return f"let l_{name} := {v.t} in\n  {self.block_pre(pre[1:], e2, fname, cont)}"
        if isinstance(st, ast.Expr) and isinstance(st.value, ast.Constant):
            return self.block_pre(pre[1:], env, fname, cont)
        bail(st, f"{fname}: statement before the accumulator loop")

    def loop_body(self, stmts, env, acc, fname):
        if not stmts:
            raise Untranslatable(f"{fname}: loop body ends without `{acc} += ...`")
        st, rest = stmts[0], stmts[1:]
        if isinstance(st, ast.Assign) and len(st.targets) == 1 and isinstance(st.targets[0], ast.Name):
            name = st.targets[0].id
            v = self.expr(st.value, env)
            if v.sh != "s":
                bail(st, "non-scalar local in a loop")
            e2 = dict(env)
            e2[name] = Val(f"l_{name}", "s", v.unit, v.tag)
            return f"let l_{name} := {v.t} in\n  {self.loop_body(rest, e2, acc, fname)}"
        if isinstance(st, ast.AugAssign) and not rest:
            v = self.expr(st.value, env)
            if v.sh != "s":
                bail(st, "non-scalar addend")
            return v.t
        if isinstance(st, ast.If) and not rest and st.orelse:
            c = self.cond(st.test, env)
            return f"if {c} then ({self.loop_body(st.body, env, acc, fname)})\n  else ({self.loop_body(st.orelse, env, acc, fname)})"
        bail(st, f"{fname}: loop statement `{ast.unparse(st)[:80]}`")

    # ------------------------------------------------------------------ one function
    def function(self, fn):
        pyname = fn.name
        name, params = FUNCS[pyname]
        got = [a.arg for a in fn.args.args]
        if got != params or fn.args.vararg or fn.args.kwarg or fn.args.kwonlyargs:
            bail(fn, f"signature of {pyname} changed: {got}")
        src = ast.unparse(fn)
        self.cur_params = params
        self.cur_uses_sp = "species" in params
        self.cur_uses_p = "params" in params
        self.cur_ret = "m" if pyname in MATRIX_FUNCS else "s"
        env = base_env()
        binders = []
        for p in params:
            cn, ty = PTYPE.get(p, (p, "F"))
            binders.append(f"({cn} : {ty})")
            if p == "alpha":
                env[p] = Val(cn, "n")
            elif p in ("species", "params"):
                env[p] = Val(None)
            elif p == "ss":
                env[p] = Val(cn, "ss")
            else:
                env[p] = Val(cn, "s", PUNIT.get(p), "freq" if p in PUNIT else None)
        if "params" in params:
            env.update(params_env())
        body = self.block(fn.body, env, pyname)
        self.defs.append(f"(* {IGM}:{fn.lineno}-{fn.end_lineno}  {pyname} *)\n" + "".join(self.term_defs) +
                         f"Definition {name} {' '.join(binders)} : {'matT' if self.cur_ret == 'm' else 'F'} :=\n  {body}.\n")
        self.term_defs = []
        return src


def base_env():
    return {
        "species.weight": Val("(weight (sp_atoms sp))", "s", "amu"),
        "species.com": Val(lambda k: f"(com (sp_atoms sp) {k})", "v", "ang"),
        "species.moi": Val(lambda i, j: f"(moi (sp_atoms sp) {i} {j})", "m", "amu_ang_sq", "moi"),
    }


def atom_env():
    return {
        "atom.mass": Val("(am atom)", "s", "amu"),
        "atom.coord": Val(lambda k: f"(coordk atom {k})", "v", "ang"),
    }


def params_env():
    return {
        "params.T": Val("(p_T p)"),
        "params.ss": Val("(p_ss p)", "ss"),
        "params.sigma_r": Val("(p_sigma p)"),
        "params.shift": Val("(p_shift p)", "s", "wavenumber", "freq"),
        "params.w0": Val("(p_w0 p)", "s", "wavenumber", "freq"),
        "params.alpha": Val("(p_alpha p)", "n"),
    }


# ------------------------------------------------------------------------------------------------
def strip_doc(fn):
    body = list(fn.body)
    if body and isinstance(body[0], ast.Expr) and isinstance(body[0].value, ast.Constant) and isinstance(body[0].value.value, str):
        body = body[1:]
    return body


def find_fn(tree_or_cls, name):
    fs = [n for n in tree_or_cls.body if isinstance(n, ast.FunctionDef) and n.name == name]
    if len(fs) != 1:
        raise Untranslatable(f"function {name} not found exactly once")
    return fs[0]


def find_cls(tree, name):
    cs = [n for n in tree.body if isinstance(n, ast.ClassDef) and n.name == name]
    if len(cs) != 1:
        raise Untranslatable(f"class {name} not found exactly once")
    return cs[0]


def translate_moi(tr, atoms_tree):
    rel = "autode/atoms.py"
    fn = find_fn(find_cls(atoms_tree, "Atoms"), "moi")
    body = strip_doc(fn)
    if len(body) != 3 or ast.unparse(body[0]) != "moi = MomentOfInertia(np.zeros(shape=(3, 3)), units='amu Å^2')" \
            or not isinstance(body[1], ast.For) or ast.unparse(body[2]) != "return moi":
        bail(fn, "Atoms.moi: structure changed", rel)
    loop = body[1]
    if ast.unparse(loop.iter) != "self" or ast.unparse(loop.target) != "atom" or loop.orelse:
        bail(loop, "Atoms.moi: loop header", rel)
    if ast.unparse(loop.body[0]) != "mass, (x, y, z) = (atom.mass, atom.coord)":
        bail(loop.body[0], f"Atoms.moi: unpacking `{ast.unparse(loop.body[0])}`", rel)
    env = {"mass": Val("l_mass"), "x": Val("l_x"), "y": Val("l_y"), "z": Val("l_z")}
    entries = {}
    for st in loop.body[1:]:
        if not (isinstance(st, ast.AugAssign) and isinstance(st.op, (ast.Add, ast.Sub))
                and isinstance(st.target, ast.Subscript) and ast.unparse(st.target.value) == "moi"):
            bail(st, f"Atoms.moi: statement `{ast.unparse(st)}`", rel)
        idx = st.target.slice
        if not (isinstance(idx, ast.Tuple) and len(idx.elts) == 2 and all(isinstance(e, ast.Constant) and e.value in (0, 1, 2) for e in idx.elts)):
            bail(st, "Atoms.moi: index", rel)
        i, j = idx.elts[0].value, idx.elts[1].value
        v = tr.expr(st.value, env)
        t = v.t if isinstance(st.op, ast.Add) else f"(oopp O {v.t})"
        entries[(i, j)] = t if (i, j) not in entries else f"(oadd O {entries[(i, j)]} {t})"
    rows = "\n".join(f"  | {i}%nat, {j}%nat => {t}" for (i, j), t in sorted(entries.items()))
    tr.defs.append(
        f"(* {rel}:{fn.lineno}-{fn.end_lineno}  Atoms.moi (amu Å^2, about the ORIGIN of the current coordinates) *)\n"
        "Definition moi_entry (i j : nat) (atom : atomT) : F :=\n"
        "  let l_mass := am atom in let l_x := ax atom in let l_y := ay atom in let l_z := az atom in\n"
        f"  match i, j with\n{rows}\n  | _, _ => o0 O\n  end.\n"
        "Definition moi (atoms : list atomT) : matT := fun i j => lsum O (moi_entry i j) atoms.\n")
    return ast.unparse(fn)


def translate_com_weight(tr, atoms_tree):
    rel = "autode/atoms.py"
    fn = find_fn(find_cls(atoms_tree, "Atoms"), "com")
    want = ["if len(self) == 0:\n    raise ValueError('Undefined centre of mass with no atoms')",
            "com = Coordinate(0.0, 0.0, 0.0)",
            "for atom in self:\n    com += atom.mass * atom.coord",
            "return Coordinate(com / sum((atom.mass for atom in self)))"]
    if [ast.unparse(s) for s in strip_doc(fn)] != want:
        bail(fn, "Atoms.com changed", rel)
    w = find_fn(find_cls(atoms_tree, "AtomCollection"), "weight")
    wantw = ["if self.n_atoms == 0:\n    return Mass(0.0)", "return sum((atom.mass for atom in self.atoms))"]
    if [ast.unparse(s) for s in strip_doc(w)] != wantw:
        bail(w, "AtomCollection.weight changed", rel)
    na = find_fn(find_cls(atoms_tree, "AtomCollection"), "n_atoms")
    if [ast.unparse(s) for s in strip_doc(na)] != ["return 0 if self.atoms is None else len(self.atoms)"]:
        bail(na, "AtomCollection.n_atoms changed", rel)
    tr.defs.append(
        f"(* {rel}:{fn.lineno}-{fn.end_lineno} Atoms.com ; {rel}:{w.lineno}-{w.end_lineno} AtomCollection.weight *)\n"
        "Definition coordk (a : atomT) (k : nat) : F := match k with 0%nat => ax a | 1%nat => ay a | _ => az a end.\n"
        "Definition weight (atoms : list atomT) : F := lsum O (fun atom : atomT => am atom) atoms.\n"
        "Definition com (atoms : list atomT) (k : nat) : F :=\n"
        "  odiv O (lsum O (fun atom : atomT => omul O (am atom) (coordk atom k)) atoms) (lsum O (fun atom : atomT => am atom) atoms).\n")
    return ast.unparse(fn) + ast.unparse(w)


def translate_assembly(tr, igm_tree):
    fn = find_fn(igm_tree, "calculate_thermo_cont")
    stmts = [ast.unparse(s) for s in strip_doc(fn)]
    need = ["S = _entropy(species, params)", "U = _internal_energy(species, params)",
            "species.energies.append(H)", "species.energies.append(G)"]
    for n in need:
        if n not in stmts:
            bail(fn, f"calculate_thermo_cont: statement `{n}` not found")
    p0 = stmts[0]
    if p0 not in [("params = _ThermoParams(default_sigma_r=species.sn, T=float(temp.to('K')) if isinstance(temp, Temperature) "
                   f"else {alt}, **kwargs)") for alt in ("temp", "float(temp)")]:     # float(x) is the identity of the model
        bail(fn, "calculate_thermo_cont: construction of params changed")
    allowed_prefix = ("params = ", "if species.n_atoms == 0:", "if species.frequencies is None and species.n_atoms > 1:",
                      "logger.", "S = ", "U = ", "H = ", "H.method_str = ", "species.energies.append(", "G = ",
                      "G.method_str = ", "return None")
    for s in stmts:
        if not s.startswith(allowed_prefix):
            bail(fn, f"calculate_thermo_cont: statement `{s[:70]}`")
    for st in strip_doc(fn):
        if isinstance(st, ast.If):
            test = ast.unparse(st.test)
            body = [b for b in st.body if not (isinstance(b, ast.Expr) and isinstance(b.value, ast.Call)
                                               and ast.unparse(b.value.func).startswith("logger."))]
            if test == "species.n_atoms == 0":
                ok = len(body) == 1 and isinstance(body[0], ast.Return) and body[0].value is None and not st.orelse
            elif test == "species.frequencies is None and species.n_atoms > 1":
                ok = len(body) == 1 and isinstance(body[0], ast.Raise) and ast.unparse(body[0].exc.func) == "ValueError" and not st.orelse
            else:
                ok = False
            if not ok:
                bail(st, f"calculate_thermo_cont: guard `if {test}` changed")
    for pre, rhs in (("H.method_str = ", "_thermo_method_str(species, **kwargs)"), ("G.method_str = ", "H.method_str")):
        if [s_ for s_ in stmts if s_.startswith(pre)] != [pre + rhs]:
            bail(fn, f"calculate_thermo_cont: `{pre}...` changed")
    order = [s.split(" ")[0] for s in stmts if s.startswith(("S = ", "U = ", "H = ", "G = "))]
    if order != ["S", "U", "H", "G"]:
        bail(fn, "calculate_thermo_cont: order of S, U, H, G")
    hs = [s for s in strip_doc(fn) if isinstance(s, ast.Assign) and ast.unparse(s.targets[0]) == "H"]
    gs = [s for s in strip_doc(fn) if isinstance(s, ast.Assign) and ast.unparse(s.targets[0]) == "G"]
    if len(hs) != 1 or len(gs) != 1:
        bail(fn, "calculate_thermo_cont: H / G assigned more than once")
    envh = {"U": Val("U"), "params.T": Val("T")}
    h = tr.expr(hs[0].value, envh)
    if h.unit != "ha":
        bail(hs[0], "H is not converted to Ha")
    envg = {"H": Val("H", "s", "ha"), "S": Val("S"), "params.T": Val("T")}
    g = tr.expr(gs[0].value, envg)
    if g.unit != "ha":
        bail(gs[0], "G is not converted to Ha")
    tr.defs.append(
        f"(* {IGM}:{fn.lineno}-{fn.end_lineno}  calculate_thermo_cont:  {ast.unparse(hs[0])} ;  {ast.unparse(gs[0])} *)\n"
        f"Definition h_assembly (U T : F) : F :=\n  {h.t}.\n"
        f"Definition g_assembly (H T S : F) : F :=\n  {g.t}.\n"
        "Definition h_cont (sp : Species F) (p : Params F) : F := h_assembly (internal_energy sp p) (p_T p).\n"
        "Definition g_cont (sp : Species F) (p : Params F) : F := g_assembly (h_cont sp p) (p_T p) (entropy sp p).\n")
    return ast.unparse(fn)


def check_params_class(igm_tree):
    cls = find_cls(igm_tree, "_ThermoParams")
    init = find_fn(cls, "__init__")
    src = ast.unparse(init)
    for needle in ("self.T: float = kwargs['T']", "self.ss = kwargs.get('ss', Config.standard_state)",
                   "self.shift = Frequency(kwargs.get('freq_shift', Config.vib_freq_shift))",
                   "self.w0 = Frequency(kwargs.get('w0', Config.grimme_w0))",
                   "self.alpha = int(kwargs.get('alpha', Config.grimme_alpha))",
                   "self.sigma_r = kwargs.get('sn', default_sigma_r)"):
        if needle not in src:
            raise Untranslatable(f"_ThermoParams.__init__ no longer contains `{needle}`")
    return src


def sn_guard(species_tree, symm_tree):
    sp = find_fn(find_cls(species_tree, "Species"), "sn")
    body = strip_doc(sp)
    srcs = [ast.unparse(s) for s in body]
    if len(body) != 3 or srcs[0] != "if self.n_atoms == 0:\n    return 1" or srcs[2] != "return symmetry_number(self)" \
            or not isinstance(body[1], ast.If):
        bail(sp, "Species.sn: structure changed", "autode/species/species.py")
    t = body[1].test
    if not (isinstance(t, ast.Compare) and ast.unparse(t.left) == "self.n_atoms" and isinstance(t.ops[0], ast.Gt)
            and isinstance(t.comparators[0], ast.Constant) and isinstance(t.comparators[0].value, int)
            and ast.unparse(body[1].body[-1]) == "return 1"):
        bail(sp, "Species.sn: large-molecule guard changed", "autode/species/species.py")
    cutoff = t.comparators[0].value
    sy = find_fn(symm_tree, "symmetry_number")
    first = strip_doc(sy)[0]
    if ast.unparse(first) != "species.translate(vec=-species.com)":
        bail(sy, "symmetry_number no longer starts by translating the species to its centre of mass",
             "autode/thermochemistry/symmetry.py")
    muts = [ast.unparse(s) for s in ast.walk(sy) if isinstance(s, ast.Call) and ast.unparse(s.func).startswith("species.")
            and ast.unparse(s.func) not in ("species.translate", "species.is_linear")]
    if muts:
        bail(sy, f"symmetry_number calls {muts}", "autode/thermochemistry/symmetry.py")
    for st in ast.walk(sy):
        tg = st.targets if isinstance(st, ast.Assign) else [st.target] if isinstance(st, (ast.AugAssign, ast.AnnAssign)) else \
            st.targets if isinstance(st, ast.Delete) else []
        for t in tg:
            for sub in ast.walk(t):
                if isinstance(sub, (ast.Attribute, ast.Subscript)):
                    bail(st, f"symmetry_number assigns to `{ast.unparse(t)}` (may change the structure)", "autode/thermochemistry/symmetry.py")
        if isinstance(st, ast.Call) and isinstance(st.func, ast.Attribute) and st.func.attr in ("translate", "rotate", "reorder_atoms") \
                and ast.unparse(st) != "species.translate(vec=-species.com)":
            bail(st, f"symmetry_number calls `{ast.unparse(st)[:60]}`", "autode/thermochemistry/symmetry.py")
    return cutoff, ast.unparse(sp) + ast.unparse(first)


def check_entry_points(species_tree):
    """Species.calc_thermo / calc_g_cont / calc_h_cont: how `temp` reaches calculate_thermo_cont (pinned text)."""
    rel = "autode/species/species.py"
    cls = find_cls(species_tree, "Species")
    ct = find_fn(cls, "calc_thermo")
    src = ast.unparse(ct)
    a = ct.args
    names = [x.arg for x in a.args]
    if names != ["self", "method", "calc", "temp", "keywords"] or a.kwarg is None or \
            ast.unparse(a.defaults[names.index("temp") - (len(names) - len(a.defaults))]) != "val.Temperature(298.15)":
        bail(ct, "Species.calc_thermo: signature / default temperature changed", rel)
    for needle in ("if isinstance(temp, float):\n        logger.warning('Temperature defined as a float. Assuming units of K')\n        temp = val.Temperature(temp)\n",
                   "calculate_thermo_cont(self, temp=temp, **kwargs)"):
        if needle not in src:
            bail(ct, f"Species.calc_thermo no longer contains `{needle[-60:]}`", rel)
    if src.count("temp =") != 1 or src.count("temp=") != 1:
        bail(ct, "Species.calc_thermo: `temp` is rebound / passed more than once", rel)
    for nm in ("calc_g_cont", "calc_h_cont"):
        f = find_fn(cls, nm)
        if [ast.unparse(x) for x in strip_doc(f)] != ["return self.calc_thermo(*args, **kwargs)"]:
            bail(f, f"Species.{nm} no longer delegates to calc_thermo", rel)
    return src


def si_constants(igm_tree):
    cls = find_cls(igm_tree, "SIConstants")
    env = {}
    for st in cls.body:
        if isinstance(st, ast.Expr) and isinstance(st.value, ast.Constant):
            continue
        if not (isinstance(st, ast.Assign) and len(st.targets) == 1 and isinstance(st.targets[0], ast.Name)):
            bail(st, "SIConstants: statement")
        try:
            env[st.targets[0].id] = TU.fold(st.value, env)
        except TU.Untranslatable as e:
            raise Untranslatable(str(e))
    return env


HEADER = """From Coq Require Import ZArith List Bool Arith.
From AV.C12 Require Import Base.
Import ListNotations.

Section C12Gen.
Context {F : Type} (O : Ops F).
Local Notation atomT := (@atom F).
Local Notation matT := (@mat F).
"""


def main():
    rd = lambda rel: open(os.path.join(REPO, rel)).read()   # noqa: E731
    igm_src, atoms_src = rd(IGM), rd("autode/atoms.py")
    species_src, symm_src = rd("autode/species/species.py"), rd("autode/thermochemistry/symmetry.py")
    csrc, usrc, vsrc, hsrc = rd("autode/constants.py"), rd("autode/units.py"), rd("autode/values.py"), rd("autode/hessians.py")
    try:
        cenv, _ = TU.parse_constants(csrc)
        units, _ = TU.parse_units(usrc, cenv)
        classes = TU.parse_classes(vsrc, units, hsrc)
    except TU.Untranslatable as e:
        raise Untranslatable(f"constants/units: {e}")
    igm_tree = ast.parse(igm_src)
    sienv = si_constants(igm_tree)
    tr = Tr(cenv, sienv, units, classes)
    spans = []
    atoms_tree = ast.parse(atoms_src)
    spans.append(translate_com_weight(tr, atoms_tree))
    spans.append(translate_moi(tr, atoms_tree))
    for name in ORDER:
        spans.append(tr.function(find_fn(igm_tree, name)))
    spans.append(translate_assembly(tr, igm_tree))
    spans.append(check_params_class(igm_tree))
    cutoff, s = sn_guard(ast.parse(species_src), ast.parse(symm_src))
    spans.append(s)
    spans.append(check_entry_points(ast.parse(species_src)))
    # every method of the enum
    lf = find_cls(igm_tree, "LFMethod")
    members = [ast.unparse(s) for s in lf.body if isinstance(s, ast.Assign)]
    if members != ["igm = 0", "truhlar = 1", "grimme = 2", "minenkov = 3"]:
        raise Untranslatable(f"LFMethod members changed: {members}")
    sha = hashlib.sha256("\n".join(spans).encode()).hexdigest()

    L = ["(* GENERATED by /verif/tr/translate_c12.py from autode/thermochemistry/igm.py, autode/atoms.py,",
         "   autode/species/species.py, autode/thermochemistry/symmetry.py, autode/constants.py, autode/units.py",
         f"   — do not edit.  sha256 of the translated spans = {sha} *)", HEADER]
    L.append("(* ---- constants: the exact doubles ---- *)")
    for k in tr.used_si:
        L.append(f"Definition si_{k} : F := {lit(sienv[k])}.   (* SIConstants.{k} = {float(sienv[k])!r} *)")
    for k in tr.used_consts:
        L.append(f"Definition c_{k} : F := {lit(cenv[k])}.   (* Constants.{k} = {float(cenv[k])!r} *)")
    for u in tr.used_units:
        L.append(f"Definition u_{u} : F := {lit(units[u]['times'])}.   (* units.{u}.times = {units[u]['times']!r}, add = 0 *)")
    L.append("")
    L += tr.defs
    L.append("(* the matrix whose eigenvalues the ORACLE sp_eig stands for (argument of np.linalg.eigvalsh in _q_rot_igm);\n"
             "   when the code does not call eigvalsh the oracle is unused and this is the zero matrix *)")
    L.append("Definition eig_arg (sp : Species F) : matT := fun i j : nat => "
             + (tr.eig_arg if tr.eig_arg is not None else "o0 O") + ".")
    L.append("End C12Gen.")
    txt = "\n".join(L) + "\n"
    os.makedirs(os.path.dirname(OUT), exist_ok=True)
    old = open(OUT).read() if os.path.exists(OUT) else None
    if old != txt:
        _tmp = OUT + ".tmp%d" % os.getpid()
        with open(_tmp, "w") as f:
            f.write(txt)
        os.replace(_tmp, OUT)  # atomic: a concurrent coqc never sees a partial file
    return {"sha256": sha, "functions": len(ORDER) + 4, "si": tr.used_si, "constants": tr.used_consts,
            "units": tr.used_units, "sn_cutoff": cutoff,
            "assumed_asserts": tr.assumed}


if __name__ == "__main__":
    try:
        print("translated:", main())
    except Untranslatable as e:
        print("UNTRANSLATABLE:", e)
        sys.exit(3)
