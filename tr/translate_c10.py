#!/usr/bin/env python3
"""Fail-closed translator: autode/opt/optimisers/base.py -> coq/gen/C10_Gen.v   (property C10)

Only the Python `ast` is read; nothing from the repository is imported or executed.

TRANSLATED (statement by statement, any node outside the small vocabulary aborts with rc 3):
  ConvergenceParams._num_attrs          -> num_attrs        (the ordered attribute list)
  ConvergenceParams.are_satisfied       -> sat_one          (the per-attribute loop body)
  ConvergenceParams.meets_criteria      -> meets_prog       (ordered guarded returns + every factor list,
                                                             each factor the exact rational of the double)
  ConvergenceParams.__post_init__       -> post_init_rejects (the sanity comparison)
  Optimiser.__init__                    -> maxiter_rejected (the `int(maxiter) <= 0` guard)
  Optimiser.iteration                   -> iteration_of
  Optimiser._exceeded_maximum_iteration -> exceeded
  NDOptimiser.converged                 -> converged_rule   (single-atom shortcut, constraint gate, and/or)
  Optimiser.run  (the while loop)       -> loop_body        (order of callback/step/update/log/limit test)
  ConstrainedPrimitive.is_satisfied     -> constraint_satisfied, constraint_tol  (opt/coordinates/primitives.py)
PINNED (the hand model in coq/C10/Model.v was written from exactly this text; any edit aborts):
  ConvergenceParams.__mul__, the rest of __post_init__, _to_base_units, OptimiserHistory.conv_params,
  __len__, Optimiser._coords getter/setter, the statements of run() before and after the loop,
  ConstrainedPrimitive.delta, InternalCoordinates.n_constraints / constrained_primitives /
  n_satisfied_constraints, PIC.n_constrained (opt/coordinates/internals.py).
"""
import ast
import hashlib
import os
import sys
from fractions import Fraction

REPO = os.environ.get("VERIF_REPO", "/repo")
SRC = "autode/opt/optimisers/base.py"
OUT = "/verif/coq/gen/C10_Gen.v"

ATTRS = {"abs_d_e": "A_abs_d_e", "rms_g": "A_rms_g", "max_g": "A_max_g", "rms_s": "A_rms_s", "max_s": "A_max_s"}


class Untranslatable(Exception):
    pass


def q(x):
    f = Fraction(x) if isinstance(x, int) else Fraction(*float(x).as_integer_ratio())
    return f"(qc ({f.numerator})%Z {f.denominator}%positive)"


def strip_doc(fn):
    b = fn.body
    if b and isinstance(b[0], ast.Expr) and isinstance(b[0].value, ast.Constant) and isinstance(b[0].value.value, str):
        fn.body = b[1:] or [ast.Pass()]
    return fn


def get_class(tree, name):
    c = [n for n in tree.body if isinstance(n, ast.ClassDef) and n.name == name]
    if len(c) != 1:
        raise Untranslatable(f"class {name} not found exactly once")
    return c[0]


def get_fn(cls, name, deco=None):
    out = []
    for n in cls.body:
        if isinstance(n, ast.FunctionDef) and n.name == name:
            decos = [ast.unparse(d) for d in n.decorator_list]
            if deco is None or deco in decos:
                out.append(n)
    if len(out) != 1:
        raise Untranslatable(f"{cls.name}.{name} ({deco}) not found exactly once")
    return strip_doc(out[0])


def is_logger_call(st):
    return (isinstance(st, ast.Expr) and isinstance(st.value, ast.Call)
            and isinstance(st.value.func, ast.Attribute) and isinstance(st.value.func.value, ast.Name)
            and st.value.func.value.id == "logger")


def bool_const(node):
    if isinstance(node, ast.Constant) and isinstance(node.value, bool):
        return node.value
    raise Untranslatable(f"expected a boolean literal, got `{ast.unparse(node)}`")


def num_const(node):
    if isinstance(node, ast.UnaryOp) and isinstance(node.op, ast.USub):
        return -num_const(node.operand)
    if isinstance(node, ast.Constant) and isinstance(node.value, (int, float)) and not isinstance(node.value, bool):
        v = node.value
        if isinstance(v, float) and (v != v or v in (float("inf"), float("-inf"))):
            raise Untranslatable("non-finite factor")
        return v
    raise Untranslatable(f"expected a numeric literal, got `{ast.unparse(node)}`")


# ------------------------------------------------------------------ _num_attrs
def tr_num_attrs(fn):
    if len(fn.body) != 1 or not isinstance(fn.body[0], ast.Return) or not isinstance(fn.body[0].value, ast.List):
        raise Untranslatable("_num_attrs is not `return [<string literals>]`")
    names = []
    for e in fn.body[0].value.elts:
        if not (isinstance(e, ast.Constant) and isinstance(e.value, str) and e.value in ATTRS):
            raise Untranslatable(f"_num_attrs element `{ast.unparse(e)}`")
        names.append(e.value)
    return names


# ------------------------------------------------------------------ are_satisfied
def tr_sat_expr(node):
    if isinstance(node, ast.Constant) and isinstance(node.value, bool):
        return f"Ok {str(node.value).lower()}"
    if isinstance(node, ast.Compare) and len(node.ops) == 1:
        def fl(n):
            if (isinstance(n, ast.Call) and isinstance(n.func, ast.Name) and n.func.id == "float" and len(n.args) == 1
                    and not n.keywords and isinstance(n.args[0], ast.Name) and n.args[0].id in ("c", "v")):
                return f"(pyfloat {n.args[0].id})"
            raise Untranslatable(f"are_satisfied operand `{ast.unparse(n)}`")
        a, b = fl(node.left), fl(node.comparators[0])   # Python evaluates left operand first
        op = type(node.ops[0])
        if op is ast.LtE:
            return f"le_r {a} {b}"
        if op is ast.Lt:
            return f"lt_r {a} {b}"
        if op is ast.GtE:
            return f"ge_r {a} {b}"
        if op is ast.Gt:
            return f"gt_r {a} {b}"
    raise Untranslatable(f"are_satisfied expression `{ast.unparse(node)}`")


def tr_none_test(node):
    if (isinstance(node, ast.Compare) and len(node.ops) == 1 and isinstance(node.left, ast.Name)
            and node.left.id in ("c", "v") and isinstance(node.comparators[0], ast.Constant)
            and node.comparators[0].value is None):
        if isinstance(node.ops[0], ast.Is):
            return f"is_none {node.left.id}"
        if isinstance(node.ops[0], ast.IsNot):
            return f"negb (is_none {node.left.id})"
    raise Untranslatable(f"are_satisfied test `{ast.unparse(node)}`")


def tr_are_satisfied(fn):
    b = fn.body
    if len(b) != 3 or ast.unparse(b[0]) != "are_satisfied = []" or ast.unparse(b[2]) != "return are_satisfied":
        raise Untranslatable("are_satisfied: outer structure changed")
    loop = b[1]
    if not (isinstance(loop, ast.For) and ast.unparse(loop.target) == "attr"
            and ast.unparse(loop.iter) == "self._num_attrs" and not loop.orelse):
        raise Untranslatable("are_satisfied: loop header changed")
    lb = loop.body
    if (len(lb) != 3 or ast.unparse(lb[0]) != "c = getattr(self, attr)"
            or ast.unparse(lb[1]) != "v = getattr(other, attr)" or not isinstance(lb[2], ast.If)):
        raise Untranslatable("are_satisfied: loop body changed")

    def branch(stmts):
        if len(stmts) == 1 and isinstance(stmts[0], ast.If):
            return tr_if(stmts[0])
        if (len(stmts) == 1 and isinstance(stmts[0], ast.Expr) and isinstance(stmts[0].value, ast.Call)
                and ast.unparse(stmts[0].value.func) == "are_satisfied.append" and len(stmts[0].value.args) == 1
                and not stmts[0].value.keywords):
            return tr_sat_expr(stmts[0].value.args[0])
        raise Untranslatable("are_satisfied: branch is not a single append")

    def tr_if(node):
        if not node.orelse:
            raise Untranslatable("are_satisfied: if without else (an attribute would be skipped)")
        return f"(if {tr_none_test(node.test)} then {branch(node.body)} else {branch(node.orelse)})"
    return tr_if(lb[2])


# ------------------------------------------------------------------ meets_criteria
FACTOR_LISTS = []


def tr_test(node):
    if isinstance(node, ast.Attribute) and ast.unparse(node) == "self.strict":
        return "TStrict"
    if (isinstance(node, ast.Call) and isinstance(node.func, ast.Name) and node.func.id == "all"
            and len(node.args) == 1 and not node.keywords):
        inner = node.args[0]
        if (isinstance(inner, ast.Call) and isinstance(inner.func, ast.Attribute) and inner.func.attr == "are_satisfied"
                and len(inner.args) == 1 and not inner.keywords and ast.unparse(inner.args[0]) == "other"):
            recv = inner.func.value
            if isinstance(recv, ast.Name) and recv.id == "self":
                return "TAllSat None"
            if (isinstance(recv, ast.BinOp) and isinstance(recv.op, ast.Mult) and isinstance(recv.left, ast.Name)
                    and recv.left.id == "self" and isinstance(recv.right, ast.List)):
                fs = [num_const(e) for e in recv.right.elts]
                FACTOR_LISTS.append([float(f) for f in fs])
                return "TAllSat (Some [" + "; ".join(q(f) for f in fs) + "])"
    raise Untranslatable(f"meets_criteria test `{ast.unparse(node)}`")


def tr_meets(fn):
    prog, notes = [], []

    def block(stmts):
        """-> True when the block certainly returns"""
        for k, st in enumerate(stmts):
            if is_logger_call(st):
                continue
            if isinstance(st, ast.Return):
                prog.append(f"SRet {str(bool_const(st.value)).lower()}")
                if any(not is_logger_call(s) for s in stmts[k + 1:]):
                    raise Untranslatable("meets_criteria: statements after return")
                return True
            if isinstance(st, ast.If):
                body = [s for s in st.body if not is_logger_call(s)]
                if len(body) != 1 or not isinstance(body[0], ast.Return):
                    raise Untranslatable("meets_criteria: an if-body is not `[logger…;] return <bool>`")
                prog.append(f"SIf ({tr_test(st.test)}) {str(bool_const(body[0].value)).lower()}")
                notes.append(ast.unparse(st.test))
                if st.orelse and block(st.orelse):
                    if any(not is_logger_call(s) for s in stmts[k + 1:]):
                        raise Untranslatable("meets_criteria: unreachable statements")
                    return True
                continue
            raise Untranslatable(f"meets_criteria statement `{ast.unparse(st)[:80]}`")
        return False
    if not block(fn.body):
        raise Untranslatable("meets_criteria can fall off the end without a return")
    return prog, notes


# ------------------------------------------------------------------ __post_init__
PIN_POST_INIT = """def __post_init__(self):
    self._to_base_units()
    self.strict = bool(self.strict)
    if self.rms_g is None:
        raise ValueError('At least the RMS gradient criteria has to be defined!')
    for attr in self._num_attrs:
        if getattr(self, attr) is None:
            continue
        if @TEST@:
            raise ValueError(f'Value of {attr} should be positive but set to {getattr(self, attr)}!')"""


def tr_post_init(fn):
    try:
        test = fn.body[3].body[1].test
    except Exception:
        raise Untranslatable("__post_init__: structure changed")
    text = ast.unparse(fn).replace(ast.unparse(test), "@TEST@", 1)
    if text != PIN_POST_INIT:
        raise Untranslatable("__post_init__: text other than the sanity comparison changed")
    neg = False
    if isinstance(test, ast.UnaryOp) and isinstance(test.op, ast.Not):
        neg, test = True, test.operand
    if not (isinstance(test, ast.Compare) and len(test.ops) == 1 and ast.unparse(test.left) == "getattr(self, attr)"
            and isinstance(test.comparators[0], ast.Constant) and test.comparators[0].value == 0
            and not isinstance(test.comparators[0].value, bool)):
        raise Untranslatable(f"__post_init__ sanity test `{ast.unparse(test)}`")
    op = type(test.ops[0])
    # Value.__lt__/__gt__ are strict float comparisons (values.py:190-206); <= / >= carry a 1e-8 tolerance
    # and are not in the vocabulary.
    if op is ast.Lt:
        e = "ext_ltb x (Fin (Q2Qc 0))"
    elif op is ast.Gt:
        e = "ext_ltb (Fin (Q2Qc 0)) x"
    else:
        raise Untranslatable(f"__post_init__ sanity operator `{ast.unparse(test)}`")
    return f"negb ({e})" if neg else e


# ------------------------------------------------------------------ Optimiser bits
def tr_maxiter_guard(fn):
    st = fn.body[0]
    if not (isinstance(st, ast.If) and len(st.body) == 1 and isinstance(st.body[0], ast.Raise) and not st.orelse
            and ast.unparse(st.body[0].exc).startswith("ValueError(")):
        raise Untranslatable("Optimiser.__init__: first statement is not the maxiter guard")
    t = st.test
    if not (isinstance(t, ast.Compare) and len(t.ops) == 1 and ast.unparse(t.left) == "int(maxiter)"
            and isinstance(t.comparators[0], ast.Constant) and isinstance(t.comparators[0].value, int)
            and not isinstance(t.comparators[0].value, bool)):
        raise Untranslatable(f"Optimiser.__init__ guard `{ast.unparse(t)}`")
    k = t.comparators[0].value
    op = type(t.ops[0])
    if "self._maxiter = int(maxiter)" not in [ast.unparse(s) for s in fn.body]:
        raise Untranslatable("Optimiser.__init__: `self._maxiter = int(maxiter)` missing")
    if op is ast.LtE:
        return f"Z.leb m ({k})%Z"
    if op is ast.Lt:
        return f"Z.ltb m ({k})%Z"
    raise Untranslatable(f"Optimiser.__init__ guard operator `{ast.unparse(t)}`")


def tr_iteration(fn):
    if len(fn.body) != 1 or not isinstance(fn.body[0], ast.Return):
        raise Untranslatable("iteration: not a single return")
    e = fn.body[0].value
    if ast.unparse(e) == "len(self._history)":
        return "hist_len"
    if (isinstance(e, ast.BinOp) and ast.unparse(e.left) == "len(self._history)" and isinstance(e.right, ast.Constant)
            and isinstance(e.right.value, int) and not isinstance(e.right.value, bool) and e.right.value >= 0):
        if isinstance(e.op, ast.Sub):
            return f"(hist_len - {e.right.value})%nat"     # history is non-empty inside the loop
        if isinstance(e.op, ast.Add):
            return f"(hist_len + {e.right.value})%nat"
    raise Untranslatable(f"iteration expression `{ast.unparse(e)}`")


def tr_limit_cmp(t):
    if not (isinstance(t, ast.Compare) and len(t.ops) == 1 and ast.unparse(t.left) == "self.iteration"
            and ast.unparse(t.comparators[0]) == "self._maxiter"):
        raise Untranslatable(f"_exceeded_maximum_iteration test `{ast.unparse(t)}`")
    op = type(t.ops[0])
    if op is ast.GtE:
        return "Nat.leb maxiter iteration"
    if op is ast.Gt:
        return "Nat.ltb maxiter iteration"
    if op is ast.Eq:
        return "Nat.eqb iteration maxiter"
    raise Untranslatable(f"_exceeded_maximum_iteration operator `{ast.unparse(t)}`")


def tr_exceeded(fn):
    body = [s for s in fn.body if not is_logger_call(s)]
    if len(body) == 1 and isinstance(body[0], ast.Return):
        return tr_limit_cmp(body[0].value)
    if len(body) == 1 and isinstance(body[0], ast.If):
        st = body[0]
        yes = [s for s in st.body if not is_logger_call(s)]
        no = [s for s in st.orelse if not is_logger_call(s)]
        if (len(yes) == 1 and isinstance(yes[0], ast.Return) and len(no) == 1 and isinstance(no[0], ast.Return)):
            a, b = bool_const(yes[0].value), bool_const(no[0].value)
            c = tr_limit_cmp(st.test)
            if a and not b:
                return c
            if b and not a:
                return f"negb ({c})"
            return "true" if a else "false"
    raise Untranslatable("_exceeded_maximum_iteration: structure changed")


def tr_converged(fn):
    b = fn.body
    if len(b) != 5:
        raise Untranslatable("NDOptimiser.converged: statement count changed")
    if ast.unparse(b[0]) != "if self._species is not None and self._species.n_atoms == 1:\n    return True":
        raise Untranslatable("NDOptimiser.converged: single-atom shortcut changed")
    if ast.unparse(b[1]) != "assert self._coords is not None, 'Must have coordinates!'":
        raise Untranslatable("NDOptimiser.converged: assert changed")
    if ast.unparse(b[2]) != "curr_params = self._history.conv_params()":
        raise Untranslatable("NDOptimiser.converged: conv_params call changed")
    st = b[3]
    if not (isinstance(st, ast.Assign) and ast.unparse(st.targets[0]) == "constrs_met"
            and isinstance(st.value, ast.Compare) and len(st.value.ops) == 1):
        raise Untranslatable("NDOptimiser.converged: constrs_met assignment changed")
    names = {"self._coords.n_constraints": "n_constraints", "self._coords.n_satisfied_constraints": "n_satisfied"}
    l, r = ast.unparse(st.value.left), ast.unparse(st.value.comparators[0])
    if l not in names or r not in names:
        raise Untranslatable(f"NDOptimiser.converged: constrs_met operands `{ast.unparse(st.value)}`")
    op = type(st.value.ops[0])
    cmpf = {ast.Eq: "Nat.eqb", ast.LtE: "Nat.leb", ast.Lt: "Nat.ltb"}
    if op in cmpf:
        cm = f"{cmpf[op]} {names[l]} {names[r]}"
    elif op is ast.GtE:
        cm = f"Nat.leb {names[r]} {names[l]}"
    elif op is ast.Gt:
        cm = f"Nat.ltb {names[r]} {names[l]}"
    elif op is ast.NotEq:
        cm = f"negb (Nat.eqb {names[l]} {names[r]})"
    else:
        raise Untranslatable("NDOptimiser.converged: constrs_met operator")
    ret = b[4]
    if not isinstance(ret, ast.Return):
        raise Untranslatable("NDOptimiser.converged: last statement is not a return")
    meets = "self.conv_tol.meets_criteria(curr_params)"

    def tr_b(e):
        s = ast.unparse(e)
        if s == meets:
            return "meets curr_params"
        if s == "constrs_met":
            return "Ok constrs_met"
        if isinstance(e, ast.Constant) and isinstance(e.value, bool):
            return f"Ok {str(e.value).lower()}"
        if isinstance(e, ast.BoolOp) and len(e.values) == 2:
            a, c = tr_b(e.values[0]), tr_b(e.values[1])
            if isinstance(e.op, ast.And):     # a and c : c is evaluated only when a is true
                return f"(bind ({a}) (fun a_ => if a_ then {c} else Ok false))"
            return f"(bind ({a}) (fun a_ => if a_ then Ok true else {c}))"
        raise Untranslatable(f"NDOptimiser.converged: return expression `{s}`")
    return cm, tr_b(ret.value)


PIN_RUN_PRE = ["self._n_cores = n_cores if n_cores is not None else Config.n_cores",
               "self._initialise_species_and_method(species, method)",
               "assert self._species is not None, 'Species must be set'",
               "if not self._space_has_degrees_of_freedom:\n    logger.info('Optimisation is in a 0D space – terminating')\n    return None",
               "if name is None:\n    name = f'{self._species.name}_opt_trj.zip'",
               "self._history.open(filename=name)",
               "self._history.save_opt_params(self.optimiser_params)",
               "self._initialise_run()"]
PIN_RUN_POST = ["self._history.close()", "return None"]
OPS = {"self._callback(self._coords)": "op_callback", "self._step()": "op_step",
       "self._update_gradient_and_energy()": "op_update", "self._log_convergence()": "op_log"}


def tr_run(fn):
    body = [s for s in fn.body if not is_logger_call(s)]
    whiles = [k for k, s in enumerate(body) if isinstance(s, ast.While)]
    if len(whiles) != 1:
        raise Untranslatable("run: expected exactly one while loop")
    k = whiles[0]
    if [ast.unparse(s) for s in body[:k]] != PIN_RUN_PRE:
        raise Untranslatable("run: statements before the loop changed")
    if [ast.unparse(s) for s in body[k + 1:]] != PIN_RUN_POST:
        raise Untranslatable("run: statements after the loop changed")
    w = body[k]
    if ast.unparse(w.test) != "not self.converged" or w.orelse:
        raise Untranslatable(f"run: loop guard `{ast.unparse(w.test)}`")
    lines, order = [], []
    for st in w.body:
        if is_logger_call(st):
            continue
        s = ast.unparse(st)
        if s in OPS:
            lines.append(f"  let h := {OPS[s]} h in")
            order.append(OPS[s])
        elif s == "if self._exceeded_maximum_iteration:\n    break":
            lines.append("  if exceeded_now h then (h, true) else")
            order.append("limit-test")
        else:
            raise Untranslatable(f"run: loop statement `{s[:80]}`")
    lines.append("  (h, false).")
    return lines, order


PIN_COORDS = {
    ("primitives.py", "ConstrainedPrimitive", "delta"):
        "def delta(self, x: 'CartesianCoordinates') -> float:\n    return self(x) - self._value",
    ("internals.py", "InternalCoordinates", "n_constraints"):
        "@property\ndef n_constraints(self) -> int:\n    return self.primitives.n_constrained",
    ("internals.py", "InternalCoordinates", "constrained_primitives"):
        "@property\ndef constrained_primitives(self) -> List['ConstrainedPrimitive']:\n"
        "    return [p for p in self.primitives if p.is_constrained]",
    ("internals.py", "InternalCoordinates", "n_satisfied_constraints"):
        "@property\ndef n_satisfied_constraints(self) -> int:\n    x = self.to('cartesian')\n"
        "    return sum((p.is_satisfied(x) for p in self.constrained_primitives))",
    ("internals.py", "PIC", "n_constrained"):
        "@property\ndef n_constrained(self) -> int:\n    return sum((p.is_constrained for p in self))",
}


def tr_is_satisfied(fn):
    """`return abs(self.delta(x)) <op> tol` with the default tolerance -> (Coq expression, default tol)"""
    args = [a.arg for a in fn.args.args]
    if args != ["self", "x", "tol"] or len(fn.args.defaults) != 1:
        raise Untranslatable("is_satisfied: signature changed")
    tol = num_const(fn.args.defaults[0])
    if len(fn.body) != 1 or not isinstance(fn.body[0], ast.Return):
        raise Untranslatable("is_satisfied: body is not a single return")
    e = fn.body[0].value
    if not (isinstance(e, ast.Compare) and len(e.ops) == 1 and ast.unparse(e.left) == "abs(self.delta(x))"
            and ast.unparse(e.comparators[0]) == "tol"):
        raise Untranslatable(f"is_satisfied: expression `{ast.unparse(e)}`")
    op = type(e.ops[0])
    if op is ast.Lt:
        return "Qcltb (Qcabs delta) tol", tol
    if op is ast.LtE:
        return "Qcleb (Qcabs delta) tol", tol
    raise Untranslatable(f"is_satisfied: operator `{ast.unparse(e)}`")


PINS = {
    ("ConvergenceParams", "__mul__", None): """def __mul__(self, factors: List[float]):
    assert len(factors) == len(self._num_attrs)
    kwargs = {}
    for idx, attr in enumerate(self._num_attrs):
        c = getattr(self, attr)
        if c is not None:
            kwargs[attr] = getattr(self, attr) * factors[idx]
        else:
            kwargs[attr] = None
    return ConvergenceParams(**kwargs, strict=self.strict)""",
    ("ConvergenceParams", "_to_base_units", None): """def _to_base_units(self) -> None:
    if self.abs_d_e is not None:
        self.abs_d_e = PotentialEnergy(self.abs_d_e).to('Ha')
    if self.rms_g is not None:
        self.rms_g = GradientRMS(self.rms_g).to('Ha/ang')
    if self.max_g is not None:
        self.max_g = GradientRMS(self.max_g).to('Ha/ang')
    if self.rms_s is not None:
        self.rms_s = Distance(self.rms_s).to('ang')
    if self.max_s is not None:
        self.max_s = Distance(self.max_s).to('ang')
    return None""",
    ("OptimiserHistory", "conv_params", None): """def conv_params(self, idx: int=-1) -> ConvergenceParams:
    coords_l = self[idx]
    assert coords_l is not None
    g_x = coords_l.cart_proj_g
    if g_x is not None:
        rms_g = np.sqrt(np.mean(np.square(g_x)))
        max_g = np.max(np.abs(g_x))
    else:
        rms_g = max_g = np.inf
    if len(self) > 1:
        coords_k = self[idx - 1]
        assert coords_k is not None
        assert coords_l.e is not None and coords_k.e is not None
        abs_d_e = PotentialEnergy(abs(coords_l.e - coords_k.e))
        delta_x = coords_l.to('cart') - coords_k.to('cart')
        rms_s = np.sqrt(np.mean(np.square(delta_x)))
        max_s = np.max(np.abs(delta_x))
    else:
        abs_d_e = rms_s = max_s = np.inf
    return ConvergenceParams(abs_d_e=abs_d_e, rms_g=rms_g, max_g=max_g, rms_s=rms_s, max_s=max_s)""",
    ("OptimiserHistory", "__len__", None): """def __len__(self):
    return self._len""",
    ("Optimiser", "_coords", "property"): """@property
def _coords(self) -> Optional[OptCoordinates]:
    if len(self._history) == 0:
        logger.warning('Optimiser had no history, thus no coordinates')
        return None
    return self._history.final""",
    ("Optimiser", "_coords", "_coords.setter"): """@_coords.setter
def _coords(self, value: Optional[OptCoordinates]) -> None:
    if value is None:
        return
    elif isinstance(value, OptCoordinates):
        self._history.add(value.copy())
    else:
        raise ValueError(f'Cannot set the optimiser coordinates with {value}')""",
}


def main():
    src = open(os.path.join(REPO, SRC)).read()
    tree = ast.parse(src)
    cp, op_, nd, oh = (get_class(tree, n) for n in ("ConvergenceParams", "Optimiser", "NDOptimiser", "OptimiserHistory"))
    classes = {"ConvergenceParams": cp, "Optimiser": op_, "NDOptimiser": nd, "OptimiserHistory": oh}
    for (c, f, d), text in PINS.items():
        got = ast.unparse(get_fn(classes[c], f, d))
        if got != text:
            raise Untranslatable(f"{c}.{f}: pinned source text changed (the hand model was written from it)")
    # the dataclass fields and their order/defaults
    fields = [ast.unparse(s) for s in cp.body if isinstance(s, ast.AnnAssign)]
    want = ["abs_d_e: Optional[PotentialEnergy] = None", "rms_g: Optional[GradientRMS] = None",
            "max_g: Optional[GradientRMS] = None", "rms_s: Optional[Distance] = None",
            "max_s: Optional[Distance] = None", "strict: bool = False"]
    if fields != want or [ast.unparse(d) for d in cp.decorator_list] != ["dataclass"]:
        raise Untranslatable("ConvergenceParams dataclass fields changed")
    if "add" not in [n.name for n in oh.body if isinstance(n, ast.FunctionDef)] or \
            "self._len += 1" not in ast.unparse(get_fn(oh, "add")):
        raise Untranslatable("OptimiserHistory.add no longer counts the added entry")

    attrs = tr_num_attrs(get_fn(cp, "_num_attrs", "property"))
    sat = tr_are_satisfied(get_fn(cp, "are_satisfied"))
    prog, tests = tr_meets(get_fn(cp, "meets_criteria"))
    rejects = tr_post_init(get_fn(cp, "__post_init__"))
    guard = tr_maxiter_guard(get_fn(op_, "__init__"))
    iteration = tr_iteration(get_fn(op_, "iteration", "property"))
    exceeded = tr_exceeded(get_fn(op_, "_exceeded_maximum_iteration", "property"))
    cm, conv_ret = tr_converged(get_fn(nd, "converged", "property"))
    loop_lines, loop_order = tr_run(get_fn(op_, "run"))
    cdir = os.path.join(REPO, "autode/opt/coordinates")
    ctrees = {f: ast.parse(open(os.path.join(cdir, f)).read()) for f in ("primitives.py", "internals.py")}
    for (f, c, name), text in PIN_COORDS.items():
        got = ast.unparse(get_fn(get_class(ctrees[f], c), name))
        if got != text:
            raise Untranslatable(f"{c}.{name}: pinned source text changed (the hand model was written from it)")
    cprim = get_class(ctrees["primitives.py"], "ConstrainedPrimitive")
    sat_expr, sat_tol = tr_is_satisfied(get_fn(cprim, "is_satisfied"))
    overriders = [n.name for n in ctrees["primitives.py"].body if isinstance(n, ast.ClassDef) and n.name != "ConstrainedPrimitive"
                  and any(isinstance(m, ast.FunctionDef) and m.name in ("is_satisfied", "delta") for m in n.body)]
    if overriders:
        raise Untranslatable(f"is_satisfied/delta overridden in {overriders}")
    sha = hashlib.sha256(src.encode()).hexdigest()

    L = [f"(* GENERATED by /verif/tr/translate_c10.py from {SRC} — do not edit.",
         f"   source sha256 = {sha} *)",
         "From Coq Require Import ZArith QArith Qcanon List Bool Arith.",
         "From AV.lib Require Import QcInst.",
         "From AV.C10 Require Import Base.",
         "Import ListNotations.", "",
         "(* ConvergenceParams._num_attrs *)",
         "Definition num_attrs : list attr := [" + "; ".join(ATTRS[a] for a in attrs) + "].", "",
         "(* ConvergenceParams.are_satisfied: body of `for attr in self._num_attrs` with c = getattr(self, attr),",
         "   v = getattr(other, attr); the value appended to the result list *)",
         f"Definition sat_one (c v : option ext) : result bool :=\n  {sat}.", "",
         "(* ConvergenceParams.meets_criteria: guarded returns in source order; tests:"]
    L += [f"     {t}" for t in tests]
    L += ["*)", "Definition meets_prog : list stmt := [\n  " + ";\n  ".join(prog) + "\n].", "",
          "(* ConvergenceParams.__post_init__: the sanity test that raises ValueError for a set attribute x *)",
          f"Definition post_init_rejects (x : ext) : bool := {rejects}.", "",
          "(* Optimiser.__init__: ValueError when this holds for int(maxiter) = m *)",
          f"Definition maxiter_rejected (m : Z) : bool := {guard}.", "",
          "(* Optimiser.iteration *)",
          f"Definition iteration_of (hist_len : nat) : nat := {iteration}.", "",
          "(* Optimiser._exceeded_maximum_iteration *)",
          f"Definition exceeded (iteration maxiter : nat) : bool := {exceeded}.", "",
          "(* NDOptimiser.converged: curr = self._history.conv_params() (may raise), meets = self.conv_tol.meets_criteria *)",
          "Definition converged_rule (single_atom : bool) (n_constraints n_satisfied : nat)",
          "    (curr : result params) (meets : params -> result bool) : result bool :=",
          "  if single_atom then Ok true else",
          "  bind curr (fun curr_params =>",
          f"  let constrs_met := {cm} in",
          f"  {conv_ret}).", "",
          "(* Optimiser.run: one pass through the body of `while not self.converged:`; the flag is True when the",
          "   pass ended with `break`.  order: " + ", ".join(loop_order) + " *)",
          "Definition loop_body {H : Type} (op_callback op_step op_update op_log : H -> H)",
          "    (exceeded_now : H -> bool) (h : H) : H * bool :="]
    L += loop_lines
    L += ["", "(* ConstrainedPrimitive.is_satisfied (opt/coordinates/primitives.py): delta = observed - required value *)",
          f"Definition constraint_tol : Qc := {q(sat_tol)}.",
          f"Definition constraint_satisfied (delta tol : Qc) : bool := {sat_expr}."]
    txt = "\n".join(L) + "\n"
    os.makedirs(os.path.dirname(OUT), exist_ok=True)
    old = open(OUT).read() if os.path.exists(OUT) else None
    if old != txt:
        _tmp = OUT + ".tmp%d" % os.getpid()
        with open(_tmp, "w") as f:
            f.write(txt)
        os.replace(_tmp, OUT)  # atomic: a concurrent coqc never sees a partial file
    return {"attrs": attrs, "prog": prog, "rejects": rejects, "exceeded": exceeded, "iteration": iteration,
            "constrs_met": cm, "converged": conv_ret, "loop": loop_order, "sha256": sha[:16],
            "factor_lists": FACTOR_LISTS,
            "constraint_satisfied": sat_expr, "constraint_tol": sat_tol}


if __name__ == "__main__":
    try:
        info = main()
        import json
        print("translated:", {k: v for k, v in info.items() if k != "prog"})
        print("JSON:", json.dumps(info))
    except Untranslatable as e:
        print("UNTRANSLATABLE:", e)
        sys.exit(3)
