#!/usr/bin/env python3
"""Fail-closed translator for property C13 (nudged elastic band):

    autode/neb/original.py :: Image._tau_xl_x_xr, Image.get_force, Images.increment (adaptive k)
    autode/neb/ci.py       :: CImage.get_force
                                                        ->  coq/gen/C13_Gen.v

Only the Python `ast` is read; nothing of /repo is imported or executed.  The emitted definitions
live in a Section over an arbitrary carrier F with the Python operations that are *not* field
algebra left as section variables:  ltb (float `<`), feqb (exact float `==`), eqe (Energy.__eq__,
a tolerance test), nrm (np.linalg.norm of a flat vector).  Vector vocabulary: coq/lib/Sums.v.
A `raise` inside the tangent selection becomes `None`; every function returns an `option`.
Any statement, call, attribute or shape outside the whitelisted vocabulary raises Untranslatable
(exit status 3).

The functions that coq/C13/Model.v models BY HAND (partition, _max_atom_distance_between_images,
_interpolated_species, derivative) are pinned structurally: see PINNED below.  A change to any of
them (e.g. an extra exit from partition's while loop) also ends in exit status 3, after the
generated file has been written.
"""
import ast
import hashlib
import os
import sys

REPO = os.environ.get("VERIF_REPO", "/repo")
OUT = "/verif/coq/gen/C13_Gen.v"


class Untranslatable(Exception):
    pass


# ------------------------------------------------------------------------------------------------
# typed expression translation.  Types: 'S' scalar (np.float64 / float), 'E' scalar that is an
# autode Value (energy / force constant: `==` is the tolerance test), 'V' flat vector.
ATTRS = {
    "im_l.energy": ("El", "E"), "self.energy": ("E", "E"), "im_r.energy": ("Er", "E"),
    "im_l.k": ("kl", "E"), "im_r.k": ("kr", "E"), "self.gradient": ("g", "V"),
    # the same force constants explicitly converted to the unit of the model (Ha / A^2; the model is unit-less)
    "im_l.k.to('Ha Å^-2')": ("kl", "E"), "im_r.k.to('Ha Å^-2')": ("kr", "E"),
}


def lit(v):
    """Numeric literal as a term over (F0, F1, Fadd, Fmul): non-negative integers up to 16 only."""
    if isinstance(v, bool) or not isinstance(v, (int, float)) or v != int(v) or not (0 <= v <= 16):
        raise Untranslatable(f"numeric literal {v!r}")
    v = int(v)
    if v == 0:
        return "0"
    if v == 1:
        return "1"
    half = lit(v // 2)
    t = "(1 + 1)" if v // 2 == 1 else f"((1 + 1) * {half})"
    return t if v % 2 == 0 else f"({t} + 1)"


class Tr:
    def __init__(self, env):
        self.env = dict(env)   # python source text / local name -> (coq term, type)

    def expr(self, node):
        src = ast.unparse(node)
        if src in self.env:
            return self.env[src]
        if isinstance(node, ast.Constant):
            return lit(node.value), "S"
        if isinstance(node, ast.UnaryOp) and isinstance(node.op, ast.USub):
            t, ty = self.expr(node.operand)
            return (f"(vneg {t})", "V") if ty == "V" else (f"(- {t})", "S" if ty == "S" else "E")
        if isinstance(node, ast.BinOp):
            a, ta = self.expr(node.left)
            b, tb = self.expr(node.right)
            op = type(node.op)
            sc = lambda x, y: "E" if (x == "E" and y == "E" and op in (ast.Add, ast.Sub)) else "S"  # noqa: E731
            if op in (ast.Add, ast.Sub):
                if ta == "V" and tb == "V":
                    return (f"({'vadd' if op is ast.Add else 'vsub'} {a} {b})", "V")
                if ta != "V" and tb != "V":
                    return (f"({a} {'+' if op is ast.Add else '-'} {b})", sc(ta, tb))
            if op is ast.Mult:
                if ta == "V" and tb != "V":
                    return f"(vscal {b} {a})", "V"
                if ta != "V" and tb == "V":
                    return f"(vscal {a} {b})", "V"
                if ta != "V" and tb != "V":
                    return f"({a} * {b})", "S"
            if op is ast.Div:
                if ta == "V" and tb != "V":
                    return f"(vdivs {a} {b})", "V"
                if ta != "V" and tb != "V":
                    return f"({a} / {b})", "S"
            raise Untranslatable(f"operator/shape in `{src}`")
        if isinstance(node, ast.Call):
            f = ast.unparse(node.func)
            if node.keywords:
                raise Untranslatable(f"keyword arguments in `{src}`")
            args = [self.expr(a) for a in node.args]
            tys = [t for _, t in args]
            if f == "np.abs" and len(args) == 1 and tys[0] != "V":
                return f"(pabs {args[0][0]})", "S"       # np.abs(Value) is an np.float64
            if f in ("max", "min") and len(args) == 2 and "V" not in tys:
                ty = "E" if tys == ["E", "E"] else "S"
                return f"(p{f} {args[0][0]} {args[1][0]})", ty
            if f == "max" and len(args) == 1 and tys[0] == "L":
                return f"(pmaxl {args[0][0]})", "E"
            if f == "np.linalg.norm" and tys == ["V"]:
                return f"(nrm n {args[0][0]})", "S"
            if f == "np.dot" and tys == ["V", "V"]:
                return f"(dot n {args[0][0]} {args[1][0]})", "S"
            if f == "float" and len(args) == 1 and tys[0] != "V":
                return args[0][0], "S"
            raise Untranslatable(f"call `{src}`")
        raise Untranslatable(f"expression `{src}`")

    def cond(self, node):
        """Boolean test: chains of `<` between scalars, `==` between scalars."""
        if isinstance(node, ast.Compare):
            terms = [self.expr(node.left)] + [self.expr(c) for c in node.comparators]
            if any(t == "V" or t == "L" for _, t in terms):
                raise Untranslatable(f"comparison of non-scalars `{ast.unparse(node)}`")
            parts = []
            for (a, ta), op, (b, tb) in zip(terms, node.ops, terms[1:]):
                if isinstance(op, ast.Lt):
                    parts.append(f"ltb {a} {b}")
                elif isinstance(op, ast.Eq):
                    # Value.__eq__ / Energy.__eq__ are tolerance tests; np.float64 == is exact
                    parts.append(f"eqe {a} {b}" if "E" in (ta, tb) else f"feqb {a} {b}")
                else:
                    raise Untranslatable(f"comparison operator in `{ast.unparse(node)}`")
            out = parts[0] if len(parts) == 1 else "(" + " && ".join(f"({p})" for p in parts) + ")"
            return out
        raise Untranslatable(f"condition `{ast.unparse(node)}`")


def is_docstring(st):
    return isinstance(st, ast.Expr) and isinstance(st.value, ast.Constant) and isinstance(st.value.value, str)


def is_log(st):
    return (isinstance(st, ast.Expr) and isinstance(st.value, ast.Call)
            and ast.unparse(st.value.func) in ("logger.info", "logger.warning", "logger.error", "logger.debug"))


def is_not_none_assert(st):
    return (isinstance(st, ast.Assert) and isinstance(st.test, ast.Compare) and len(st.test.ops) == 1
            and isinstance(st.test.ops[0], ast.IsNot) and ast.unparse(st.test.comparators[0]) == "None"
            and ast.unparse(st.test.left) in ("self.energy", "im_l.energy", "im_r.energy", "self.gradient"))


def if_chain(st):
    """Flatten if/elif/else into [(test|None, body)]; a missing final else is reported as absent."""
    out = []
    while True:
        out.append((st.test, st.body))
        if len(st.orelse) == 1 and isinstance(st.orelse[0], ast.If):
            st = st.orelse[0]
            continue
        if st.orelse:
            out.append((None, st.orelse))
        return out


def block(tr, stmts, final):
    """Translate a statement list into a Coq term of type `option T`.  `final(tr, return_node)`
    gives the term for the `return` statement.  Works backwards through nested lets."""
    if not stmts:
        raise Untranslatable("function body falls off its end (no return)")
    st, rest = stmts[0], stmts[1:]
    if is_docstring(st) or is_log(st) or is_not_none_assert(st):
        return block(tr, rest, final)
    if isinstance(st, ast.Return):
        if rest:
            raise Untranslatable("statements after return")
        return final(tr, st)
    if isinstance(st, ast.Assign) and len(st.targets) == 1:
        tgt = st.targets[0]
        src = ast.unparse(st)
        # x_l, x, x_r = [image.coordinates.flatten() for image in (im_l, self, im_r)]
        if src == "x_l, x, x_r = [image.coordinates.flatten() for image in (im_l, self, im_r)]":
            tr.env.update({"x_l": ("xl", "V"), "x": ("x", "V"), "x_r": ("xr", "V")})
            return block(tr, rest, final)
        # hat_tau, x_l, x, x_r = self._tau_xl_x_xr(im_l, im_r)
        if src == "hat_tau, x_l, x, x_r = self._tau_xl_x_xr(im_l, im_r)":
            tr.env.update({"x_l": ("xl", "V"), "x": ("x", "V"), "x_r": ("xr", "V"), "hat_tau": ("hat_tau", "V")})
            k = block(tr, rest, final)
            return (f"match tau_xl_x_xr n El E Er xl x xr with\n  | None => None\n  | Some hat_tau =>\n  {k}\n  end")
        if isinstance(tgt, ast.Name):
            t, ty = tr.expr(st.value)
            tr.env[tgt.id] = (tgt.id, ty)
            k = block(tr, rest, final)
            return f"let {tgt.id} := {t} in\n  {k}"
        raise Untranslatable(f"assignment `{src}`")
    if isinstance(st, ast.If):
        chain = if_chain(st)
        targets = set()
        leaves = []
        for test, body in chain:
            body = [b for b in body if not is_log(b) and not (isinstance(b, ast.Expr) and isinstance(b.value, ast.Constant))]
            if len(body) != 1:
                raise Untranslatable(f"branch with {len(body)} statements in the if-chain at line {st.lineno}")
            b = body[0]
            if isinstance(b, ast.Raise):
                leaves.append((test, None))
            elif isinstance(b, ast.Assign) and len(b.targets) == 1 and isinstance(b.targets[0], ast.Name):
                targets.add(b.targets[0].id)
                leaves.append((test, b.value))
            else:
                raise Untranslatable(f"branch statement `{ast.unparse(b)}`")
        if len(targets) != 1:
            raise Untranslatable(f"if-chain at line {st.lineno} assigns {sorted(targets)}")
        var = targets.pop()
        has_else = chain[-1][0] is None
        if not has_else:
            if var not in tr.env:
                raise Untranslatable(f"`{var}` may be unbound after the if at line {st.lineno}")
            leaves.append((None, "KEEP"))
        tys = set()
        term = ""
        closing = ""
        for test, val in leaves:
            if val is None:
                leaf = "None"
            elif isinstance(val, str):
                leaf = f"Some {tr.env[var][0]}"
                tys.add(tr.env[var][1])
            else:
                t, ty = tr.expr(val)
                tys.add(ty)
                leaf = f"Some {t}"
            if test is None:
                term += leaf
            else:
                term += f"if {tr.cond(test)} then {leaf}\n    else "
        if len(tys) != 1:
            raise Untranslatable(f"branches of the if at line {st.lineno} have different shapes")
        tr.env[var] = (var, tys.pop())
        k = block(tr, rest, final)
        return f"match ({term}{closing}) with\n  | None => None\n  | Some {var} =>\n  {k}\n  end"
    raise Untranslatable(f"statement `{ast.unparse(st)[:80]}` (line {st.lineno})")


def find_method(tree, cls, name):
    for c in tree.body:
        if isinstance(c, ast.ClassDef) and c.name == cls:
            for f in c.body:
                if isinstance(f, ast.FunctionDef) and f.name == name:
                    return c, f
    raise Untranslatable(f"{cls}.{name} not found")


def check_signature(f, want):
    got = [a.arg for a in f.args.args]
    if got != want or f.args.vararg or f.args.kwarg or f.args.kwonlyargs or f.args.defaults:
        raise Untranslatable(f"{f.name} signature {got}")
    if f.decorator_list:
        raise Untranslatable(f"{f.name} is decorated")


def span(src, node):
    return "\n".join(src.split("\n")[node.lineno - 1:node.end_lineno])


# ------------------------------------------------------------------------------------------------
def translate_tau(f):
    check_signature(f, ["self", "im_l", "im_r"])

    def ret_hat(tr, st):
        v = st.value
        if not (isinstance(v, ast.Tuple) and len(v.elts) == 4 and [ast.unparse(e) for e in v.elts[1:]] == ["x_l", "x", "x_r"]):
            raise Untranslatable("_tau_xl_x_xr must return (tau_hat, x_l, x, x_r)")
        for nm, c in (("x_l", "xl"), ("x", "x"), ("x_r", "xr")):
            if tr.env.get(nm) != (c, "V"):
                raise Untranslatable(f"_tau_xl_x_xr returns a rebound `{nm}`")
        t, ty = tr.expr(v.elts[0])
        if ty != "V":
            raise Untranslatable("_tau_xl_x_xr: first returned value is not a vector")
        return f"Some {t}"

    def ret_raw(tr, st):
        # the un-normalised tangent: the variable the returned expression is built from
        names = {n.id for n in ast.walk(st.value.elts[0]) if isinstance(n, ast.Name)} - {"np"}
        if names != {"tau"}:
            raise Untranslatable(f"_tau_xl_x_xr: returned tangent is built from {sorted(names)}, expected only `tau`")
        return "Some tau"

    hat = block(Tr(ATTRS), list(f.body), ret_hat)
    raw = block(Tr(ATTRS), list(f.body), ret_raw)
    # the normalisation applied to tau in the return statement, as a function of tau
    trn = Tr(dict(ATTRS, tau=("tau", "V")))
    ret = [s for s in f.body if isinstance(s, ast.Return)]
    if len(ret) != 1:
        raise Untranslatable("_tau_xl_x_xr: expected exactly one top-level return")
    norm_t, _ = trn.expr(ret[0].value.elts[0])
    return raw, hat, norm_t


def translate_force(f):
    check_signature(f, ["self", "im_l", "im_r"])

    def ret(tr, st):
        t, ty = tr.expr(st.value)
        if ty != "V":
            raise Untranslatable(f"{f.name} does not return a vector")
        return f"Some {t}"
    return block(Tr(ATTRS), list(f.body), ret)


def translate_increment(f):
    """Images.increment: the adaptive force-constant update.  The loop skeleton is matched
    statement by statement; the scalar formulas are translated."""
    check_signature(f, ["self"])
    body = [s for s in f.body if not is_docstring(s)]
    if len(body) != 3:
        raise Untranslatable(f"increment: {len(body)} top-level statements, expected 3")
    if ast.unparse(body[0]) != "for image in self:\n    image.iteration += 1":
        raise Untranslatable("increment: iteration loop changed")
    if ast.unparse(body[2]) != "return None":
        raise Untranslatable("increment: final return changed")
    guard = body[1]
    if not isinstance(guard, ast.If) or guard.orelse or \
            ast.unparse(guard.test) != "Config.adaptive_neb_k and all((im.energy is not None for im in self))":
        raise Untranslatable("increment: adaptive guard changed")
    env = {"self.max_k": ("max_k", "E"), "self.min_k": ("min_k", "E")}
    tr = Tr(env)
    lets = []
    stmts = [s for s in guard.body if not is_log(s)]
    skip_test = None
    formula = None
    for i, st in enumerate(stmts):
        src = ast.unparse(st)
        if isinstance(st, ast.Assign) and len(st.targets) == 1 and isinstance(st.targets[0], ast.Name):
            name = st.targets[0].id
            if src == "energies = [image.energy for image in self]":
                tr.env["energies"] = ("es", "L")
                tr.env["energies[0]"] = ("e_first", "E")
                tr.env["energies[-1]"] = ("e_last", "E")
                continue
            if formula is not None:
                raise Untranslatable("increment: assignment after the per-image loop")
            t, ty = tr.expr(st.value)
            if ty in ("V", "L"):
                raise Untranslatable(f"increment: `{src}` is not a scalar")
            tr.env[name] = (name, ty)
            lets.append((name, t))      # pure scalar lets: sharing them with the early-exit test is harmless
            continue
        if isinstance(st, ast.If) and not st.orelse and skip_test is None and formula is None:
            inner = [s for s in st.body if not is_log(s) and not isinstance(s, ast.Expr)]
            if len(inner) != 1 or not isinstance(inner[0], ast.Return) or \
                    (inner[0].value is not None and ast.unparse(inner[0].value) != "None"):
                raise Untranslatable("increment: the early-exit branch does more than return")
            skip_test = tr.cond(st.test)
            continue
        if isinstance(st, ast.For) and ast.unparse(st.target) == "image" and ast.unparse(st.iter) == "self" \
                and not st.orelse and i == len(stmts) - 1:
            if len(st.body) != 1 or not isinstance(st.body[0], ast.If):
                raise Untranslatable("increment: per-image loop body changed")
            tri = Tr(dict(tr.env, **{"image.energy": ("Ei", "E")}))
            chain = if_chain(st.body[0])
            if chain[-1][0] is not None:
                raise Untranslatable("increment: per-image if without else (k may stay unset)")
            term = ""
            for test, b in chain:
                if len(b) != 1 or not isinstance(b[0], ast.Assign) or ast.unparse(b[0].targets[0]) != "image.k":
                    raise Untranslatable("increment: per-image branch does not assign image.k")
                t, ty = tri.expr(b[0].value)
                if ty in ("V", "L"):
                    raise Untranslatable("increment: image.k is not a scalar")
                term += t if test is None else f"if {tri.cond(test)} then {t}\n      else "
            formula = term
            continue
        raise Untranslatable(f"increment: statement `{src[:70]}`")
    if skip_test is None or formula is None:
        raise Untranslatable("increment: early exit or per-image update not found")
    # every let before the early exit is shared; lets after it (none today) only feed the formula
    pre = "".join(f"let {n} := {t} in\n      " for n, t in lets)
    return pre, skip_test, formula, [n for n, _ in lets]


# ------------------------------------------------------------------------------------------------
# Hand-modelled functions (coq/C13/Model.v): their source is PINNED.  After removing docstrings and
# logger calls the function must unparse to exactly the text below; any other statement, exit from
# a loop (break / return / raise), changed condition, bound or argument aborts with exit status 3.
PINNED = {
    "partition": """def partition(self, max_delta: Distance, distance_idxs: Optional[Sequence[int]]=None) -> None:
    assert len(self.images) > 1
    _list = []
    for i, left_image in enumerate(self.images[:-1]):
        right_image = self.images[i + 1]
        n = 2
        sub_neb = NEB.from_end_points(left_image, right_image, num=n)
        while sub_neb._max_atom_distance_between_images(distance_idxs) > max_delta:
            try:
                sub_neb = NEB.from_end_points(left_image, right_image, num=n)
            except RuntimeError:
                pass
            n += 1
        for image in sub_neb.images[:-1]:
            _list.append(image)
    _list.append(self.images[-1])
    self.images.clear()
    for image in _list:
        self.images.append_species(image)
    return None""",
    "partition#max_delta-in-angstrom": """def partition(self, max_delta: Distance, distance_idxs: Optional[Sequence[int]]=None) -> None:
    assert len(self.images) > 1
    if isinstance(max_delta, Distance):
        max_delta = float(max_delta.to('Å'))
    _list = []
    for i, left_image in enumerate(self.images[:-1]):
        right_image = self.images[i + 1]
        n = 2
        sub_neb = NEB.from_end_points(left_image, right_image, num=n)
        while sub_neb._max_atom_distance_between_images(distance_idxs) > max_delta:
            try:
                sub_neb = NEB.from_end_points(left_image, right_image, num=n)
            except RuntimeError:
                pass
            n += 1
        for image in sub_neb.images[:-1]:
            _list.append(image)
    _list.append(self.images[-1])
    self.images.clear()
    for image in _list:
        self.images.append_species(image)
    return None""",
    "_max_atom_distance_between_images": """def _max_atom_distance_between_images(self, idxs: Optional[Sequence[int]]=None) -> Distance:
    if idxs is None:
        idxs = np.arange(self.images[0].n_atoms)
    else:
        idxs = np.array(idxs)
    overall_max_distance = -np.inf
    for k in range(len(self.images) - 1):
        x_i = self.images[k].coordinates
        x_j = self.images[k + 1].coordinates
        max_distance = np.max(np.linalg.norm(x_i - x_j, axis=1)[idxs])
        if max_distance > overall_max_distance:
            overall_max_distance = max_distance
    return overall_max_distance""",
    "_interpolated_species": """@staticmethod
def _interpolated_species(initial: Species, final: Species, n: int) -> List[Species]:
    if n < 2:
        raise RuntimeError('Cannot interpolated 2 images to <2')
    if n == 2:
        return [initial.copy(), final.copy()]
    intermediate_species = []
    for i in range(1, n - 1):
        species: Species = initial.copy()
        for j, atom in enumerate(species.atoms):
            shift = final.atoms[j].coord - atom.coord
            atom.translate(vec=shift * (i / (n - 1)))
        intermediate_species.append(species)
    return [initial.copy()] + intermediate_species + [final.copy()]""",
    "derivative": """def derivative(flat_coords, images, method, n_cores, plot_energies):
    forces = np.zeros(shape=images[0].gradient.shape)
    for i in range(1, len(images) - 1):
        force = images[i].get_force(im_l=images[i - 1], im_r=images[i + 1])
        forces = np.append(forces, force)
    forces = np.append(forces, np.zeros(shape=images[-1].gradient.shape))
    return -forces""",
}


class _Strip(ast.NodeTransformer):
    """remove docstrings and logger calls (an emptied block becomes `pass`)"""
    def generic_visit(self, node):
        super().generic_visit(node)
        for fld in ("body", "orelse", "finalbody"):
            b = getattr(node, fld, None)
            if isinstance(b, list) and b and all(isinstance(x, ast.stmt) for x in b):
                nb = [x for x in b if not is_log(x) and not is_docstring(x)]
                setattr(node, fld, nb or [ast.Pass()])
        return node


def pinned_shape_changes(osrc):
    """-> list of messages for hand-modelled functions whose normalised source differs from PINNED."""
    tree = ast.parse(osrc)
    msgs = []
    for key, want in PINNED.items():
        name = key.split("#")[0]
        if "#" in key:
            continue                     # an accepted alternative text, tried below
        fs = [n for n in ast.walk(tree) if isinstance(n, ast.FunctionDef) and n.name == name]
        if len(fs) != 1:
            msgs.append(f"{name}: found {len(fs)} definitions")
            continue
        got = ast.unparse(ast.fix_missing_locations(_Strip().visit(fs[0])))
        if got != want and got not in [t for k, t in PINNED.items() if k.startswith(name + "#")]:
            gl, wl = got.split("\n"), want.split("\n")
            k = next((i for i, (a, b) in enumerate(zip(gl, wl)) if a != b), min(len(gl), len(wl)))
            msgs.append(f"{name} (original.py:{fs[0].lineno}): line {k + 1} of the normalised body is "
                        f"`{(gl[k] if k < len(gl) else '<end>').strip()}`, the modelled code has `{(wl[k] if k < len(wl) else '<end>').strip()}`")
    return msgs


PRELUDE = """(* GENERATED by /verif/tr/translate_c13.py from autode/neb/original.py and autode/neb/ci.py
   -- do not edit.  source sha256 = %(sha)s
   spans: %(spans)s *)
From Coq Require Import Arith List Bool.
From AV.lib Require Import Sums.
From AV.C13 Require Import Base.
Import ListNotations.

Section C13Gen.
Variable F : Type.
Variable O : ops F.     (* field operations, ltb, feqb, eqe, nrm: see C13/Base.v *)

Local Notation "0" := (o0 O).
Local Notation "1" := (o1 O).
Local Infix "+" := (oadd O).
Local Infix "*" := (omul O).
Local Infix "-" := (osub O).
Local Infix "/" := (odiv O).
Local Notation "- x" := (oopp O x).
Local Notation ltb := (oltb O).
Local Notation feqb := (ofeqb O).
Local Notation eqe := (oeqe O).
Local Notation nrm := (onrm O).
Local Notation vadd := (vadd F (oadd O)).
Local Notation vsub := (vsub F (osub O)).
Local Notation vneg := (vneg F (oopp O)).
Local Notation vscal := (vscal F (omul O)).
Local Notation vdivs := (vdivs F (odiv O)).
Local Notation dot := (dot F (o0 O) (oadd O) (omul O)).

(* Python builtins used by the translated code (fixed text, not derived from /repo):
   np.abs(x);  max(a, b) keeps a unless b > a;  min(a, b) keeps a unless b < a;  max(list). *)
Definition pabs (x : F) : F := if ltb x 0 then - x else x.
Definition pmax (a b : F) : F := if ltb a b then b else a.
Definition pmin (a b : F) : F := if ltb b a then b else a.
Fixpoint pmaxl_from (m : F) (l : list F) : F :=
  match l with [] => m | e :: r => pmaxl_from (pmax m e) r end.
Definition pmaxl (l : list F) : F := match l with [] => 0 | e :: r => pmaxl_from e r end.
"""


def main():
    osrc = open(os.path.join(REPO, "autode/neb/original.py")).read()
    csrc = open(os.path.join(REPO, "autode/neb/ci.py")).read()
    otree, ctree = ast.parse(osrc), ast.parse(csrc)

    icls, f_tau = find_method(otree, "Image", "_tau_xl_x_xr")
    _, f_force = find_method(otree, "Image", "get_force")
    _, f_inc = find_method(otree, "Images", "increment")
    ccls, f_ci = find_method(ctree, "CImage", "get_force")

    # context the model relies on (fail closed when it changes)
    if [ast.unparse(b) for b in ccls.bases] != ["Image"]:
        raise Untranslatable("CImage no longer derives from Image")
    if any(isinstance(x, ast.FunctionDef) and x.name == "_tau_xl_x_xr" for x in ccls.body):
        raise Untranslatable("CImage overrides _tau_xl_x_xr")
    isrc = ast.unparse(icls)
    for needle in ("return None if self._grad is None else self._grad.flatten()",
                   "self._grad = None if value is None else value.flatten()",
                   "self.k = k"):
        if needle not in isrc:
            raise Untranslatable(f"class Image no longer contains `{needle}`")
    if "import numpy as np" not in osrc or "import numpy as np" not in csrc:
        raise Untranslatable("numpy is not imported as np")

    raw, hat, norm_t = translate_tau(f_tau)
    force = translate_force(f_force)
    ci = translate_force(f_ci)
    pre, skip, formula, let_names = translate_increment(f_inc)

    spans = {"_tau_xl_x_xr": span(osrc, f_tau), "get_force": span(osrc, f_force),
             "increment": span(osrc, f_inc), "ci.get_force": span(csrc, f_ci)}
    sha = hashlib.sha256("\n".join(spans.values()).encode()).hexdigest()
    where = (f"original.py:{f_tau.lineno}-{f_tau.end_lineno},{f_force.lineno}-{f_force.end_lineno},"
             f"{f_inc.lineno}-{f_inc.end_lineno}; ci.py:{f_ci.lineno}-{f_ci.end_lineno}")
    L = [PRELUDE % {"sha": sha, "spans": where}]
    L.append("(* Image._tau_xl_x_xr up to (not including) the normalisation in its return statement:\n"
             "   the selected un-normalised tangent; None = the code raises. *)")
    L.append("Definition tau_sel (El E Er : F) (xl x xr : nat -> F) : option (nat -> F) :=\n  " + raw + ".\n")
    L.append("(* the normalisation of the return statement *)")
    L.append("Definition tau_normalise (n : nat) (tau : nat -> F) : nat -> F := " + norm_t + ".\n")
    L.append("(* Image._tau_xl_x_xr: the first component of the returned tuple *)")
    L.append("Definition tau_xl_x_xr (n : nat) (El E Er : F) (xl x xr : nat -> F) : option (nat -> F) :=\n  " + hat + ".\n")
    L.append("(* Image.get_force(im_l, im_r) *)")
    L.append("Definition get_force (n : nat) (El E Er kl kr : F) (xl x xr g : nat -> F) : option (nat -> F) :=\n  " + force + ".\n")
    L.append("(* CImage.get_force(im_l, im_r) *)")
    L.append("Definition ci_get_force (n : nat) (El E Er kl kr : F) (xl x xr g : nat -> F) : option (nat -> F) :=\n  " + ci + ".\n")
    L.append("(* Images.increment: new force constant of an image with energy Ei, and the whole update.\n"
             "   adaptive = Config.adaptive_neb_k and all energies set; es = image energies in band order;\n"
             "   ks = current force constants.  None = IndexError on an empty band. *)")
    L.append("Definition adaptive_k (min_k max_k e_first e_last : F) (es : list F) (Ei : F) : F :=\n      "
             + pre + formula + ".\n")
    L.append("Definition adaptive_skip (min_k max_k e_first e_last : F) (es : list F) : bool :=\n      "
             + pre + skip + ".\n")
    L.append("Definition increment_ks (adaptive : bool) (min_k max_k : F) (es ks : list F) : option (list F) :=\n"
             "  if adaptive then\n    match es with\n    | [] => None\n    | e_first :: _ =>\n      let e_last := last es e_first in\n"
             "      if adaptive_skip min_k max_k e_first e_last es then Some ks\n"
             "      else Some (map (adaptive_k min_k max_k e_first e_last es) es)\n    end\n  else Some ks.\n")
    L.append("End C13Gen.")
    txt = "\n".join(L) + "\n"
    os.makedirs(os.path.dirname(OUT), exist_ok=True)
    old = open(OUT).read() if os.path.exists(OUT) else None
    if old != txt:
        _tmp = OUT + ".tmp%d" % os.getpid()
        with open(_tmp, "w") as fh:
            fh.write(txt)
        os.replace(_tmp, OUT)  # atomic: a concurrent coqc never sees a partial file
    # the generated file is written first (the translated functions are fine); a changed hand-modelled
    # function still aborts the run below
    changed = pinned_shape_changes(osrc)
    if changed:
        raise Untranslatable("pinned shape of a hand-modelled function changed: " + " ; ".join(changed))
    return {"sha256": sha, "spans": where, "increment_lets": let_names, "pinned": sorted(k for k in PINNED if "#" not in k)}


if __name__ == "__main__":
    try:
        info = main()
        print("translated:", info)
    except Untranslatable as e:
        print("UNTRANSLATABLE:", e)
        sys.exit(3)
    except (SyntaxError, OSError) as e:
        print("UNTRANSLATABLE: cannot read/parse source:", e)
        sys.exit(3)
