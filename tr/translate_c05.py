#!/usr/bin/env python3
"""Fail-closed translator for C05 (also: values.Energy.__eq__, Energies.append, the Species.energy setter; and C05's own copy of the
unit table via translate_units): autode/reactions/reaction.py (Reaction.__init__ check order,
_check_balance, delta, _estimated_barrierless_delta, is_barrierless/ts, switch_reactants_products,
save/load), autode/reactions/reaction_types.py (classify, the ReactionType table),
autode/transition_states/transition_states.py (lowest_energy) and autode/utils.py
(checkpoint_rxn_profile_step)  ->  coq/gen/C05_Gen.v

Only the Python `ast` is read; nothing from the repository is imported or executed.  What is emitted
are the TABLES and the ARITHMETIC the hand model coq/C05/Model.v interprets: the replace()/`in` string
tests of delta_type parsing in source order, the e_type if/elif chain, the combining expression
sum(rhs) op sum(lhs) with its target unit, the barrierless floor/constant/exempt type, the balance
checks (attribute, "- len" flag, exception, message) in source order, the constructor's check order and
the classify rule list.  Every statement of a translated function must match the fixed vocabulary
(docstrings and logger calls are dropped); anything else raises Untranslatable (exit code 3).
"""
import ast
import hashlib
import os
import sys
from fractions import Fraction

REPO = os.environ.get("VERIF_REPO", "/repo")
OUT = "/verif/coq/gen/C05_Gen.v"


class Untranslatable(Exception):
    pass


def q(x):
    f = Fraction(*float(x).as_integer_ratio())
    return f"(qc ({f.numerator})%Z {f.denominator}%positive)"


def cstr(s):
    if not isinstance(s, str) or "\n" in s or "\\" in s or any(ord(c) < 32 or ord(c) == 127 for c in s):
        raise Untranslatable(f"string literal {s!r}")
    return '"' + s.replace('"', '""') + '"'


def clist(items):
    return "[" + "; ".join(items) + "]"


def src(node):
    return ast.unparse(node)


def is_docstring(st):
    return isinstance(st, ast.Expr) and isinstance(st.value, ast.Constant) and isinstance(st.value.value, str)


def is_logger_call(st):
    return (isinstance(st, ast.Expr) and isinstance(st.value, ast.Call)
            and isinstance(st.value.func, ast.Attribute) and isinstance(st.value.func.value, ast.Name)
            and st.value.func.value.id == "logger"
            and st.value.func.attr in ("info", "warning", "error", "debug"))


def body_of(fn):
    return [st for st in fn.body if not is_docstring(st) and not is_logger_call(st)]


def get_def(body, name, what):
    out = [n for n in body if isinstance(n, ast.FunctionDef) and n.name == name]
    if len(out) < 1:
        raise Untranslatable(f"{what}: def {name} not found")
    return out


def str_const(node, what):
    if isinstance(node, ast.Constant) and isinstance(node.value, str):
        return node.value
    raise Untranslatable(f"{what}: expected a string literal, had `{src(node)}`")


def num_const(node, what):
    if isinstance(node, ast.Constant) and isinstance(node.value, (int, float)) and not isinstance(node.value, bool):
        return node.value
    raise Untranslatable(f"{what}: expected a numeric literal, had `{src(node)}`")


def expect(cond, what):
    if not cond:
        raise Untranslatable(what)


# ------------------------------------------------------------------------------------------ delta
def parse_matches_call(node, what):
    """delta_type_matches('a', 'b', ...) -> ['a', 'b', ...]"""
    expect(isinstance(node, ast.Call) and isinstance(node.func, ast.Name) and node.func.id == "delta_type_matches"
           and not node.keywords, f"{what}: expected delta_type_matches(...), had `{src(node)}`")
    return [str_const(a, what) for a in node.args]


def parse_kind_test(node, what):
    """A  |  A and not B   (A, B calls of delta_type_matches)  ->  (pos, neg)"""
    if isinstance(node, ast.BoolOp):
        expect(isinstance(node.op, ast.And) and len(node.values) == 2
               and isinstance(node.values[1], ast.UnaryOp) and isinstance(node.values[1].op, ast.Not),
               f"{what}: test `{src(node)}`")
        return parse_matches_call(node.values[0], what), parse_matches_call(node.values[1].operand, what)
    return parse_matches_call(node, what), []


def parse_delta(fn):
    body = body_of(fn)
    expect(len(body) == 10, f"Reaction.delta: {len(body)} statements (expected 10)")
    info = {}
    # 0: def delta_type_matches(*args): return any(s in delta_type.lower().replace(A,'')... for s in args)
    m = body[0]
    expect(isinstance(m, ast.FunctionDef) and m.name == "delta_type_matches" and m.args.vararg is not None
           and m.args.vararg.arg == "args" and not m.args.args and len(body_of(m)) == 1
           and isinstance(body_of(m)[0], ast.Return), "delta: delta_type_matches signature/body")
    call = body_of(m)[0].value
    expect(isinstance(call, ast.Call) and src(call.func) == "any" and len(call.args) == 1
           and isinstance(call.args[0], ast.GeneratorExp), "delta: delta_type_matches is not any(<generator>)")
    gen = call.args[0]
    expect(len(gen.generators) == 1 and src(gen.generators[0].target) == "s" and src(gen.generators[0].iter) == "args"
           and not gen.generators[0].ifs, "delta: delta_type_matches generator")
    cmp_ = gen.elt
    expect(isinstance(cmp_, ast.Compare) and len(cmp_.ops) == 1 and isinstance(cmp_.ops[0], ast.In)
           and src(cmp_.left) == "s", "delta: delta_type_matches element is not `s in <string>`")
    chain, pats = cmp_.comparators[0], []
    while not (src(chain) == "delta_type.lower()"):
        expect(isinstance(chain, ast.Call) and isinstance(chain.func, ast.Attribute) and chain.func.attr == "replace"
               and len(chain.args) == 2 and not chain.keywords and str_const(chain.args[1], "replace") == "",
               f"delta: string preparation `{src(chain)}` is not delta_type.lower().replace(X, '')...")
        p = str_const(chain.args[0], "replace")
        expect(p != "", "delta: replace('') pattern")
        pats.append(p)
        chain = chain.func.value
    info["removed"] = list(reversed(pats))          # application order
    # 1: def is_ts_delta(): ts_synonyms = [...]; return any(s in delta_type.lower() for s in ts_synonyms)
    t = body[1]
    expect(isinstance(t, ast.FunctionDef) and t.name == "is_ts_delta" and len(body_of(t)) == 2, "delta: is_ts_delta")
    a, r = body_of(t)
    expect(isinstance(a, ast.Assign) and src(a.targets[0]) == "ts_synonyms" and isinstance(a.value, ast.List),
           "delta: ts_synonyms assignment")
    info["ts_synonyms"] = [str_const(e, "ts_synonyms") for e in a.value.elts]
    expect(src(r) == "return any((s in delta_type.lower() for s in ts_synonyms))", f"delta: is_ts_delta returns `{src(r)}`")
    # 2-4: lhs/rhs
    expect(isinstance(body[2], ast.AnnAssign) and src(body[2].target) == "lhs" and src(body[2].value) == "self.reacs",
           f"delta: `{src(body[2])}`")
    expect(isinstance(body[3], ast.AnnAssign) and src(body[3].target) == "rhs" and src(body[3].value) == "[]",
           f"delta: `{src(body[3])}`")
    expect(src(body[4]) == "rhs += [self.ts] if is_ts_delta() else self.prods", f"delta: `{src(body[4])}`")
    # 5: the e_type chain
    rules, node = [], body[5]
    while True:
        expect(isinstance(node, ast.If), f"delta: e_type chain `{src(node)[:60]}`")
        pos, neg = parse_kind_test(node.test, "delta e_type chain")
        b = [s for s in node.body if not is_logger_call(s)]
        expect(len(b) == 1 and isinstance(b[0], ast.Assign) and src(b[0].targets[0]) == "e_type",
               f"delta: e_type branch body `{src(node.body[0])}`")
        rules.append((pos, neg, str_const(b[0].value, "e_type")))
        if len(node.orelse) == 1 and isinstance(node.orelse[0], ast.If):
            node = node.orelse[0]
            continue
        expect(len(node.orelse) == 1 and isinstance(node.orelse[0], ast.Raise)
               and src(node.orelse[0].exc.func) == "ValueError", "delta: e_type chain does not end in raise ValueError")
        break
    for _, _, nm in rules:
        expect(nm in ("energy", "enthalpy", "free_energy"), f"delta: unknown e_type {nm!r}")
    info["rules"] = rules
    # 6: barrierless branch
    expect(src(body[6]) == "if is_ts_delta() and self.is_barrierless:\n    return self._estimated_barrierless_delta(e_type)",
           f"delta: `{src(body[6])}`")
    # 7: assertion loop (no effect on the value)
    expect(isinstance(body[7], ast.For) and src(body[7].iter) == "rhs" and all(isinstance(s, ast.Assert) for s in body[7].body),
           f"delta: `{src(body[7])[:60]}`")
    # 8: None propagation
    n = body[8]
    expect(isinstance(n, ast.If) and src(n.test) == "any((getattr(mol, e_type) is None for mol in lhs + rhs))"
           and not n.orelse and [src(s) for s in n.body if not is_logger_call(s)] == ["return None"],
           f"delta: None propagation `{src(n)[:80]}`")
    # 9: the difference
    ret = body[9]
    expect(isinstance(ret, ast.Return) and isinstance(ret.value, ast.BinOp)
           and type(ret.value.op) in (ast.Sub, ast.Add), f"delta: `{src(ret)}`")
    sides, units = [], []
    for side in (ret.value.left, ret.value.right):
        expect(isinstance(side, ast.Call) and src(side.func) == "sum" and len(side.args) == 1
               and isinstance(side.args[0], ast.GeneratorExp), f"delta: `{src(side)}` is not sum(<generator>)")
        g = side.args[0]
        expect(len(g.generators) == 1 and src(g.generators[0].target) == "mol" and not g.generators[0].ifs
               and src(g.generators[0].iter) in ("rhs", "lhs"), f"delta: generator `{src(g)}`")
        e = g.elt
        expect(isinstance(e, ast.Call) and isinstance(e.func, ast.Attribute) and e.func.attr == "to"
               and src(e.func.value) == "getattr(mol, e_type)" and len(e.args) == 1 and not e.keywords,
               f"delta: summand `{src(e)}`")
        units.append(str_const(e.args[0], "delta .to()").lower())
        sides.append(src(g.generators[0].iter))
    expect(units[0] == units[1], "delta: the two sums are converted to different units")
    info["unit"] = units[0]
    info["combine"] = f"({sides[0]} {'-' if isinstance(ret.value.op, ast.Sub) else '+'} {sides[1]})"
    info["combine_src"] = src(ret)
    return info


def parse_barrierless(fn, type_names):
    body = body_of(fn)
    expect(len(body) == 5, f"_estimated_barrierless_delta: {len(body)} statements (expected 5)")
    info = {}
    expect(src(body[0]) == "delta = self.delta(e_type)", f"barrierless: `{src(body[0])}`")
    n = body[1]
    expect(isinstance(n, ast.If) and src(n.test) == "delta is None" and not n.orelse
           and [src(s) for s in n.body if not is_logger_call(s)] == ["return None"], f"barrierless: `{src(n)[:60]}`")
    v = body[2]
    expect(isinstance(v, ast.Assign) and src(v.targets[0]) == "value" and isinstance(v.value, ast.Call)
           and src(v.value.func) == "max" and len(v.value.args) == 2 and src(v.value.args[1]) == "delta",
           f"barrierless: `{src(v)}`")
    fl = v.value.args[0]
    expect(isinstance(fl, ast.Call) and src(fl.func) == "Energy" and len(fl.args) == 1 and not fl.keywords,
           f"barrierless: floor `{src(fl)}`")
    info["floor"] = float(num_const(fl.args[0], "barrierless floor"))
    c = body[3]
    expect(isinstance(c, ast.If) and not c.orelse and isinstance(c.test, ast.Compare) and len(c.test.ops) == 1
           and isinstance(c.test.ops[0], ast.NotEq) and src(c.test.left) == "self.type"
           and isinstance(c.test.comparators[0], ast.Attribute) and src(c.test.comparators[0].value) == "reaction_types",
           f"barrierless: `{src(c.test)}`")
    var = c.test.comparators[0].attr
    expect(var in type_names, f"barrierless: reaction_types.{var} unknown")
    info["exempt"] = type_names[var]
    cb = [s for s in c.body if not is_logger_call(s)]
    expect(len(cb) == 1 and isinstance(cb[0], ast.AugAssign) and isinstance(cb[0].op, ast.Add)
           and src(cb[0].target) == "value" and isinstance(cb[0].value, ast.Call) and src(cb[0].value.func) == "Energy"
           and len(cb[0].value.args) == 1, f"barrierless: `{src(c.body[-1])}`")
    info["const"] = float(num_const(cb[0].value.args[0], "barrierless constant"))
    kws = {k.arg: k.value for k in cb[0].value.keywords}
    expect(set(kws) <= {"units"}, "barrierless: Energy(...) keywords")
    info["const_unit"] = str_const(kws["units"], "units").lower() if "units" in kws else "ha"
    # result class chain
    classes, node = [], body[4]
    while True:
        expect(isinstance(node, ast.If) and isinstance(node.test, ast.Compare) and src(node.test.left) == "e_type"
               and isinstance(node.test.ops[0], ast.Eq), f"barrierless: class chain `{src(node)[:50]}`")
        nm = str_const(node.test.comparators[0], "e_type")

        def cls_of(st):
            expect(isinstance(st, ast.Return) and isinstance(st.value, ast.Call) and isinstance(st.value.func, ast.Name)
                   and [src(a) for a in st.value.args] == ["value"]
                   and [(k.arg, src(k.value)) for k in st.value.keywords] == [("estimated", "True")],
                   f"barrierless: `{src(st)}`")
            return st.value.func.id
        expect(len(node.body) == 1, "barrierless: class chain body")
        classes.append((nm, cls_of(node.body[0])))
        if len(node.orelse) == 1 and isinstance(node.orelse[0], ast.If):
            node = node.orelse[0]
            continue
        expect(len(node.orelse) == 1, "barrierless: class chain else")
        info["default_class"] = cls_of(node.orelse[0])
        break
    info["classes"] = classes
    return info


# ------------------------------------------------------------------------------------------ balance / ctor
def parse_balance(fn):
    body = body_of(fn)
    expect(len(body) >= 3, "_check_balance: too short")
    t = body[0]
    expect(isinstance(t, ast.FunctionDef) and t.name == "total"
           and src(t) == "def total(molecules, attr):\n    return sum([getattr(m, attr) for m in molecules])",
           f"_check_balance: total() is `{src(t)}`")
    checks = []
    for st in body[1:-2]:
        expect(isinstance(st, ast.If) and not st.orelse and isinstance(st.test, ast.Compare) and len(st.test.ops) == 1
               and isinstance(st.test.ops[0], ast.NotEq), f"_check_balance: `{src(st)[:70]}`")

        def side(node, which):
            minus = False
            if isinstance(node, ast.BinOp):
                expect(isinstance(node.op, ast.Sub) and src(node.right) == f"len(self.{which})", f"_check_balance: `{src(node)}`")
                minus, node = True, node.left
            expect(isinstance(node, ast.Call) and src(node.func) == "total" and len(node.args) == 2
                   and src(node.args[0]) == f"self.{which}", f"_check_balance: `{src(node)}`")
            return str_const(node.args[1], "attr"), minus
        la, lm = side(st.test.left, "reacs")
        ra, rm = side(st.test.comparators[0], "prods")
        expect(la == ra and lm == rm, f"_check_balance: asymmetric test `{src(st.test)}`")
        expect(la in ("n_atoms", "charge", "mult"), f"_check_balance: attribute {la!r}")
        expect(len(st.body) == 1 and isinstance(st.body[0], ast.Raise) and isinstance(st.body[0].exc, ast.Call)
               and isinstance(st.body[0].exc.func, ast.Name) and len(st.body[0].exc.args) == 1,
               f"_check_balance: `{src(st.body[0])}`")
        checks.append((la, lm, st.body[0].exc.func.id, str_const(st.body[0].exc.args[0], "message")))
    expect(src(body[-2]) == "self.charge = total(self.reacs, 'charge')", f"_check_balance: `{src(body[-2])}`")
    expect(src(body[-1]) == "return None", f"_check_balance: `{src(body[-1])}`")
    return checks


def parse_ctor(fn):
    steps = []
    table = {"self.type = reaction_types.classify(self.reacs, self.prods)": "classify",
             "self.solvent = get_solvent(solvent_name, kind='implicit')": "get_solvent",
             "self._check_solvent()": "solvent", "self._check_balance()": "balance", "self._check_names()": "names"}
    for st in body_of(fn):
        s = src(st)
        if s in table:
            steps.append(table[s])
        elif any(k in s for k in ("self.type", "_check_", "classify", "self.solvent", "self.charge")):
            raise Untranslatable(f"Reaction.__init__: unexpected statement `{s[:80]}`")
    expect(sorted(steps) == sorted(table.values()), f"Reaction.__init__: steps {steps}")
    return steps


def parse_misc(cls):
    """is_barrierless, ts getter, switch_reactants_products, save, load: fixed shapes."""
    def only(name, want, pick=0):
        fns = get_def(cls.body, name, "Reaction")
        got = [src(s) for s in body_of(fns[pick])]
        expect(got == want, f"Reaction.{name}: body is {got}")
    only("is_barrierless", ["return self.ts is None"])
    only("ts", ["return self.tss.lowest_energy"], 0)
    # the setter clears the list FIRST: None removes every TS, a TransitionState becomes the only one
    only("ts", ["self.tss.clear()", "if value is None:\n    return",
                "if not isinstance(value, TransitionState):\n    raise ValueError(f'TS of {self.name} must be a TransitionState')",
                "self.tss.append(value)"], 1)
    sw = get_def(cls.body, "switch_reactants_products", "Reaction")[0]
    b = [src(s) for s in body_of(sw)]
    expect(b[0] == "self.prods, self.reacs = (self.reacs, self.prods)", f"switch_reactants_products: `{b[0]}`")
    expect(not any("self.type" in s or "self.tss" in s for s in b), "switch_reactants_products touches type/tss")
    only("save", ["with open(filepath, 'wb') as file:\n    pickle.dump(self.__dict__, file)"])
    only("load", ["with open(filepath, 'rb') as file:\n    for attr, value in dict(pickle.load(file)).items():\n"
                  "        setattr(self, attr, value)"])


# ------------------------------------------------------------------------------------------ classify
def parse_types(tree):
    names = {}
    for st in tree.body:
        if (isinstance(st, ast.Assign) and isinstance(st.value, ast.Call) and src(st.value.func) == "ReactionType"
                and len(st.targets) == 1 and isinstance(st.targets[0], ast.Name)):
            kw = {k.arg: k.value for k in st.value.keywords}
            arg = kw.get("name", st.value.args[0] if st.value.args else None)
            names[st.targets[0].id] = str_const(arg, "ReactionType name")
    expect(names, "no ReactionType instances found")
    rt = [n for n in tree.body if isinstance(n, ast.ClassDef) and n.name == "ReactionType"]
    expect(len(rt) == 1, "class ReactionType")
    eq = get_def(rt[0].body, "__eq__", "ReactionType")[0]
    expect([src(s) for s in body_of(eq)] == ["return isinstance(other, ReactionType) and self.name == other.name"],
           "ReactionType.__eq__ changed")
    return names


def parse_count_test(node):
    """conjunction of  n_reactants == a [== ...]  /  n_products == b  /  n_products in [..]  ->  (nr, np) allowed lists"""
    allowed = {"n_reactants": None, "n_products": None}

    def one(c):
        expect(isinstance(c, ast.Compare), f"classify: test `{src(c)}`")
        if len(c.ops) == 2:    # n_reactants == n_products == 0
            expect(all(isinstance(o, ast.Eq) for o in c.ops) and src(c.left) == "n_reactants"
                   and src(c.comparators[0]) == "n_products", f"classify: test `{src(c)}`")
            v = int(num_const(c.comparators[1], "classify"))
            put("n_reactants", [v])
            put("n_products", [v])
            return
        expect(len(c.ops) == 1 and isinstance(c.left, ast.Name) and c.left.id in allowed, f"classify: test `{src(c)}`")
        if isinstance(c.ops[0], ast.Eq):
            put(c.left.id, [int(num_const(c.comparators[0], "classify"))])
        elif isinstance(c.ops[0], ast.In) and isinstance(c.comparators[0], (ast.List, ast.Tuple)):
            put(c.left.id, [int(num_const(e, "classify")) for e in c.comparators[0].elts])
        else:
            raise Untranslatable(f"classify: test `{src(c)}`")

    def put(k, vs):
        expect(all(v >= 0 for v in vs), "classify: negative count")
        allowed[k] = vs if allowed[k] is None else [v for v in allowed[k] if v in vs]
    if isinstance(node, ast.BoolOp):
        expect(isinstance(node.op, ast.And), f"classify: test `{src(node)}`")
        for c in node.values:
            one(c)
    else:
        one(node)
    return allowed["n_reactants"], allowed["n_products"]


def parse_classify(fn, type_names):
    body = body_of(fn)
    expect(src(body[0]) == "n_reactants, n_products = (len(reactants), len(products))", f"classify: `{src(body[0])}`")
    rules, default = [], None

    def result(stmts):
        b = [s for s in stmts if not is_logger_call(s)]
        expect(len(b) == 1, "classify: branch body")
        st = b[0]
        if isinstance(st, ast.Return):
            if isinstance(st.value, ast.Constant) and st.value.value is None:
                return "CRNone"
            expect(isinstance(st.value, ast.Name) and st.value.id in type_names, f"classify: returns `{src(st)}`")
            return f"CRType {cstr(type_names[st.value.id])}"
        expect(isinstance(st, ast.Raise) and isinstance(st.exc, ast.Call) and isinstance(st.exc.func, ast.Name),
               f"classify: `{src(st)[:60]}`")
        return f"CRRaise {cstr(st.exc.func.id)}"
    for st in body[1:]:
        expect(default is None, "classify: statements after the final else")
        node = st
        while True:
            expect(isinstance(node, ast.If), f"classify: `{src(node)[:60]}`")
            nr, np_ = parse_count_test(node.test)
            rules.append((nr, np_, result(node.body)))
            if len(node.orelse) == 1 and isinstance(node.orelse[0], ast.If):
                node = node.orelse[0]
                continue
            if node.orelse:
                default = result(node.orelse)
            break
    expect(default is not None, "classify: no final else")
    return rules, default


# ------------------------------------------------------------------------------------------ lowest_energy / checkpoint
def parse_lowest(tree):
    """TransitionStates.lowest_energy -> None (pinned form: np.argmin over the raw floats, every TS) or the
    unit string u (repaired form: TSs without energy skipped, min by float(ts.energy.to(u)))."""
    cls = [n for n in tree.body if isinstance(n, ast.ClassDef) and n.name == "TransitionStates"]
    expect(len(cls) == 1 and [src(b) for b in cls[0].bases] == ["list"], "class TransitionStates(list)")
    fn = get_def(cls[0].body, "lowest_energy", "TransitionStates")[0]
    body = body_of(fn)
    expect(len(body) in (3, 4), f"lowest_energy: {len(body)} statements")
    n = body[0]
    expect(isinstance(n, ast.If) and src(n.test) == "len(self) == 0" and not n.orelse
           and [src(s) for s in n.body if not is_logger_call(s)] == ["return None"], f"lowest_energy: `{src(n)[:60]}`")
    if len(body) == 3:
        expect(src(body[1]) == "min_idx = np.argmin([ts.energy for ts in self])", f"lowest_energy: `{src(body[1])}`")
        expect(src(body[2]) == "return self[min_idx]", f"lowest_energy: `{src(body[2])}`")
        return None
    expect(src(body[1]) == "tss_with_energy = [ts for ts in self if ts.energy is not None]", f"lowest_energy: `{src(body[1])}`")
    n = body[2]
    expect(isinstance(n, ast.If) and src(n.test) == "len(tss_with_energy) == 0" and not n.orelse
           and [src(s) for s in n.body if not is_logger_call(s)] == ["return self[0]"], f"lowest_energy: `{src(n)[:60]}`")
    r = body[3]
    ok = (isinstance(r, ast.Return) and isinstance(r.value, ast.Call) and src(r.value.func) == "min"
          and [src(a) for a in r.value.args] == ["tss_with_energy"] and len(r.value.keywords) == 1
          and r.value.keywords[0].arg == "key" and isinstance(r.value.keywords[0].value, ast.Lambda))
    expect(ok, f"lowest_energy: `{src(r)}`")
    lam = r.value.keywords[0].value
    e = lam.body
    expect([a.arg for a in lam.args.args] == ["ts"] and isinstance(e, ast.Call) and src(e.func) == "float"
           and len(e.args) == 1 and isinstance(e.args[0], ast.Call) and src(e.args[0].func) == "ts.energy.to"
           and len(e.args[0].args) == 1 and not e.args[0].keywords, f"lowest_energy: key `{src(lam)}`")
    return str_const(e.args[0].args[0], "lowest_energy unit").lower()


def parse_checkpoint(tree):
    fn = get_def(tree.body, "checkpoint_rxn_profile_step", "utils")[0]
    deco = get_def(fn.body, "func_decorator", "checkpoint_rxn_profile_step")[0]
    wf = get_def(deco.body, "wrapped_function", "checkpoint_rxn_profile_step")[0]
    body = body_of(wf)
    got = [src(s) for s in body]
    expect(len(body) == 8, f"checkpoint_rxn_profile_step: {len(body)} statements")
    expect(got[0] == "filepath = os.path.join('checkpoints', f'{str(reaction)}_{name}.chk')", f"checkpoint: `{got[0]}`")
    expect(got[1] == "if os.path.exists(filepath):\n    reaction.load(filepath)\n    return", f"checkpoint: `{got[1]}`")
    expect(got[2] == "start_time = time()" and got[3] == "result = func(reaction)", f"checkpoint: `{got[2]}; {got[3]}`")
    t = body[4]
    expect(isinstance(t, ast.If) and not t.orelse and [src(s) for s in t.body] == ["return result"]
           and isinstance(t.test, ast.Compare) and isinstance(t.test.ops[0], ast.Lt)
           and src(t.test.left) == "time() - start_time", f"checkpoint: `{got[4]}`")
    thr = float(num_const(t.test.comparators[0], "checkpoint threshold"))
    expect(got[5] == "if not os.path.exists('checkpoints'):\n    os.mkdir('checkpoints')", f"checkpoint: `{got[5]}`")
    rest = [src(s) for s in body[6:]]
    expect(rest == ["reaction.save(filepath)", "return result"], f"checkpoint: `{rest}`")
    return thr


def parse_energy_supply(vtree, stree):
    """values.Energy.__eq__ (tolerance), values.Energies.append (exact shape) and the Species.energy setter
    (which branch handles an Energy that is not a PotentialEnergy) -> (tol, setter_mode)."""
    def cls(tree, name):
        c = [n for n in tree.body if isinstance(n, ast.ClassDef) and n.name == name]
        expect(len(c) == 1, f"class {name}")
        return c[0]
    eq = get_def(cls(vtree, "Energy").body, "__eq__", "Energy")[0]
    b = body_of(eq)
    expect(len(b) == 5 and isinstance(b[0], ast.Assign) and src(b[0].targets[0]) == "tol_ha", "Energy.__eq__: shape")
    tol = float(num_const(b[0].value, "tol_ha"))
    want = ["if isinstance(other, Value) and (not isinstance(other, self.__class__)):\n    return False",
            "if isinstance(other, Value):\n    other = other.to('Ha')",
            "try:\n    other = float(other)\nexcept TypeError:\n    return False",
            "return abs(other - float(self.to('Ha'))) < tol_ha"]
    expect([src(x) for x in b[1:]] == want, f"Energy.__eq__: body is {[src(x) for x in b[1:]]}")
    ap = get_def(cls(vtree, "Energies").body, "append", "Energies")[0]
    got = [src(x) for x in body_of(ap)]
    want = ["for item in self:\n    if other == item:\n        self.pop(self.index(item))\n        break",
            "return super().append(other)"]
    # the logger call inside the `if` is dropped by hand: compare with it removed
    fa = body_of(ap)
    ok = (len(fa) == 2 and isinstance(fa[0], ast.For) and src(fa[0].target) == "item" and src(fa[0].iter) == "self"
          and not fa[0].orelse and len(fa[0].body) == 1 and isinstance(fa[0].body[0], ast.If)
          and src(fa[0].body[0].test) == "other == item" and not fa[0].body[0].orelse
          and [src(x) for x in fa[0].body[0].body if not is_logger_call(x)] == ["self.pop(self.index(item))", "break"]
          and src(fa[1]) == "return super().append(other)")
    expect(ok, f"Energies.append: body is {got}")
    setters = [n for n in cls(stree, "Species").body if isinstance(n, ast.FunctionDef) and n.name == "energy"
               and any(src(d) == "energy.setter" for d in n.decorator_list)]
    expect(len(setters) == 1, "Species.energy setter")
    sb = body_of(setters[0])
    expect(len(sb) == 1 and isinstance(sb[0], ast.If), "Species.energy setter: shape")
    branches, node = [], sb[0]
    while True:
        branches.append((src(node.test), [src(x) for x in node.body]))
        if len(node.orelse) == 1 and isinstance(node.orelse[0], ast.If):
            node = node.orelse[0]
            continue
        branches.append(("else", [src(x) for x in node.orelse]))
        break
    first = [("value is None", ["pass"]), ("isinstance(value, val.PotentialEnergy)", ["self.energies.append(value)"])]
    last = ("else", ["self.energies.append(val.PotentialEnergy(float(value)))"])
    expect(branches[:2] == first and branches[-1] == last and len(branches) in (3, 4), f"Species.energy setter: branches {branches}")
    if len(branches) == 3:
        return tol, 0
    t, body = branches[2]
    expect(t == "isinstance(value, val.Energy)" and len(body) == 1, f"Species.energy setter: branch {branches[2]}")
    if body[0] == "self.energies.append(val.PotentialEnergy(float(value), units=value.units))":
        return tol, 1
    if body[0].lower() in ("self.energies.append(val.potentialenergy(float(value.to('ha'))))",
                           "self.energies.append(val.potentialenergy(value.to('ha')))"):
        return tol, 2
    raise Untranslatable(f"Species.energy setter: branch body `{body[0]}`")


def opt_list(v):
    return "None" if v is None else "(Some " + clist([f"{x}%nat" for x in v]) + ")"


def main():
    rsrc = open(os.path.join(REPO, "autode/reactions/reaction.py")).read()
    tsrc = open(os.path.join(REPO, "autode/reactions/reaction_types.py")).read()
    lsrc = open(os.path.join(REPO, "autode/transition_states/transition_states.py")).read()
    usrc = open(os.path.join(REPO, "autode/utils.py")).read()
    vsrc = open(os.path.join(REPO, "autode/values.py")).read()
    ssrc = open(os.path.join(REPO, "autode/species/species.py")).read()
    rtree, ttree, ltree, utree = (ast.parse(s) for s in (rsrc, tsrc, lsrc, usrc))
    eq_tol, setter_mode = parse_energy_supply(ast.parse(vsrc), ast.parse(ssrc))
    cls = [n for n in rtree.body if isinstance(n, ast.ClassDef) and n.name == "Reaction"]
    expect(len(cls) == 1, "class Reaction")
    cls = cls[0]
    type_names = parse_types(ttree)
    fn_delta = get_def(cls.body, "delta", "Reaction")[0]
    d = parse_delta(fn_delta)
    b = parse_barrierless(get_def(cls.body, "_estimated_barrierless_delta", "Reaction")[0], type_names)
    checks = parse_balance(get_def(cls.body, "_check_balance", "Reaction")[0])
    steps = parse_ctor(get_def(cls.body, "__init__", "Reaction")[0])
    parse_misc(cls)
    rules, default = parse_classify(get_def(ttree.body, "classify", "reaction_types")[0], type_names)
    lowest_unit = parse_lowest(ltree)
    thr = parse_checkpoint(utree)
    sha = hashlib.sha256((rsrc + tsrc + lsrc).encode()).hexdigest()

    L = []
    L.append("(* GENERATED by /verif/tr/translate_c05.py from autode/reactions/reaction.py, reaction_types.py,")
    L.append(f"   transition_states/transition_states.py, utils.py — do not edit.  source sha256 = {sha} *)")
    L.append("From Coq Require Import ZArith QArith Qcanon List String.")
    L.append("From AV.lib Require Import QcInst.")
    L.append("From AV.C05 Require Import Base.")
    L.append("Import ListNotations.\nOpen Scope string_scope.\n")
    L.append("(* Reaction.delta: delta_type.lower()" + "".join(f".replace({p!r}, '')" for p in d["removed"]) + " *)")
    L.append(f"Definition removed_patterns : list string := {clist([cstr(p) for p in d['removed']])}.")
    L.append(f"Definition ts_synonyms : list string := {clist([cstr(p) for p in d['ts_synonyms']])}.")
    L.append("Definition kind_rules : list krule := " + clist(
        [f"mkK {clist([cstr(x) for x in pos])} {clist([cstr(x) for x in neg])} {cstr(nm)}" for pos, neg, nm in d["rules"]]) + ".")
    L.append(f"(* {d['combine_src']} *)")
    L.append(f"Definition target_unit : string := {cstr(d['unit'])}.")
    L.append(f"Definition delta_combine (rhs lhs : Qc) : Qc := {d['combine']}%Qc.\n")
    L.append("(* Reaction._estimated_barrierless_delta: value = max(Energy(floor), delta); "
             "if self.type != exempt: value += Energy(const, units) *)")
    L.append(f"Definition barrierless_floor : Qc := {q(b['floor'])}.")
    L.append(f"Definition barrierless_const : Qc := {q(b['const'])}.")
    L.append(f"Definition barrierless_const_unit : string := {cstr(b['const_unit'])}.")
    L.append(f"Definition barrierless_exempt : string := {cstr(b['exempt'])}.")
    L.append("Definition estimate_classes : list (string * string) := " +
             clist([f"({cstr(k)}, {cstr(v)})" for k, v in b["classes"]]) + ".")
    L.append(f"Definition estimate_default_class : string := {cstr(b['default_class'])}.\n")
    L.append("(* Reaction._check_balance, in source order *)")
    L.append("Definition balance_checks : list bcheck := " + clist(
        [f"mkB {cstr(a)} {'true' if m else 'false'} {cstr(e)} {cstr(msg)}" for a, m, e, msg in checks]) + ".")
    L.append("(* Reaction.__init__: order of classification and checks *)")
    L.append(f"Definition ctor_steps : list string := {clist([cstr(s) for s in steps])}.\n")
    L.append("(* reaction_types *)")
    L.append("Definition type_names : list string := " + clist([cstr(v) for v in type_names.values()]) + ".")
    L.append("Definition classify_rules : list crule := [\n  " + ";\n  ".join(
        f"({opt_list(nr)}, {opt_list(np_)}, {res})" for nr, np_, res in rules) + "\n].")
    L.append(f"Definition classify_default : cres := {default}.\n")
    L.append("(* TransitionStates.lowest_energy — None: np.argmin over the raw floats of every TS, in whatever unit each"
             " is stored; Some u: TSs without energy skipped, minimum of float(ts.energy.to(u)) *)")
    L.append("Definition lowest_unit : option string := " + ("None" if lowest_unit is None else f"(Some {cstr(lowest_unit)})") + ".")
    L.append("(* utils.checkpoint_rxn_profile_step: no checkpoint when the step ran for less than this many seconds *)")
    L.append(f"Definition checkpoint_min_seconds : Qc := {q(thr)}.\n")
    L.append("(* values.Energy.__eq__: tol_ha; Species.energy setter: how an Energy that is not a PotentialEnergy is stored"
             " (0 = PotentialEnergy(float(value)): unit dropped, 1 = unit kept, 2 = converted to Ha) *)")
    L.append(f"Definition energy_eq_tol : Qc := {q(eq_tol)}.")
    L.append(f"Definition setter_mode : nat := {setter_mode}%nat.\n")
    os.makedirs(os.path.dirname(OUT), exist_ok=True)
    txt = "\n".join(L) + "\n"
    old = open(OUT).read() if os.path.exists(OUT) else None
    if old != txt:
        _tmp = OUT + ".tmp%d" % os.getpid()
        with open(_tmp, "w") as f:
            f.write(txt)
        os.replace(_tmp, OUT)  # atomic: a concurrent coqc never sees a partial file
    return {"removed": d["removed"], "ts_synonyms": d["ts_synonyms"], "rules": d["rules"], "combine": d["combine"],
            "unit": d["unit"], "barrierless": b, "balance": [c[:3] for c in checks], "steps": steps,
            "classify_rules": len(rules), "lowest_unit": lowest_unit, "setter_mode": setter_mode, "energy_eq_tol": eq_tol, "checkpoint_s": thr, "sha256": sha}


def units_main():
    """C05's own copy of the unit table + conversion arithmetic (same translator as C06, other output file), so
    that the C05 slice does not depend on files another property's check rewrites."""
    sys.path.insert(0, os.path.dirname(os.path.abspath(__file__)))
    import translate_units as tu
    tu.OUT = "/verif/coq/gen/C05_Units_Gen.v"
    try:
        return tu.main()
    except tu.Untranslatable as e:
        raise Untranslatable(f"units: {e}")


if __name__ == "__main__":
    try:
        uinfo = units_main()
        info = main()
        print("translated:", info, "units sha256:", uinfo.get("sha256"))
    except Untranslatable as e:
        print("UNTRANSLATABLE:", e)
        sys.exit(3)
