"""C09 — quasi-Newton Hessian updates satisfy their defining equations (DESIGN 6/C09).

Tie: coq/gen/C09_Gen.v is regenerated from autode/opt/optimisers/hessian_update.py by the fail-closed
ast translator tr/translate_c09.py on every run; the theorems of coq/C09/Props.v (secant equation,
symmetry, Sherman-Morrison inverses, Powell's damped target, sub-space embedding, guards, degenerate
steps) are re-checked against it for every dimension n over an arbitrary field.  The translated
definitions are then evaluated at exact rationals against the implementation (updated_h,
updated_h_inv, conditions_met, with and without subspace) and property-level oracles are evaluated on
the implementation alone (n up to 30) to obtain concrete replays.
"""
import math
import os
import sys
import warnings
from fractions import Fraction

import numpy as np

from common import REPO, VERIF, coq_bool, coq_list, coq_nat, frac, qc, qc_list, qc_mat, sh, source_pins

TRUSTED_BASE = [
    "Coq 8.16.1 kernel + coqc (vm_compute only for the concrete witnesses of the *_refuted theorems, the non-vacuity example and the correspondence evaluation; no native_compute)",
    "Print Assumptions: every C09 theorem is closed under the global context (no axioms)",
    "translator tr/translate_c09.py (Python ast -> gen/C09_Gen.v; fail-closed, exit 3 on any node outside its vocabulary; shape inference; decimal literals taken as written, e.g. 0.2 = 1/5)",
    "hand model of the control flow of HessianUpdater.__init__/updated_h/updated_h_inv (Model.full_update) and of update_h_from_old_h (Model.first_applicable): source text pinned by the translator, behaviour tied by the correspondence stream",
    "exact field arithmetic stands for IEEE doubles up to rounding: results compared at 1e-9 relative; guard decisions within a relative margin and divisors that are tiny but non-zero are skipped (counted)",
    "oracles: float comparison, sqrt, abs (uninterpreted in the theorems; Z.sqrt-based rational sqrt in the correspondence), numpy.linalg.inv (the returned matrix is checked against the model's direct update), numpy.linalg.eigvals (Sylvester criterion on the exact update in the correspondence, eigvalsh in the implementation-side oracle)",
    "numpy dot/matmul/outer/multi_dot compute the mathematical products (multi_dot's parenthesisation is irrelevant in exact arithmetic)",
]
ASSUMPTIONS = [
    "Arithmetic is exact over a field; IEEE rounding, overflow and NaN propagation are outside the theorems (a zero divisor in the model = non-finite entries in floats, validated by the correspondence stream)",
    "h, h_inv, s, y are given (not None) and subspace indexes are in range; SR1's h-from-h_inv fallback is exercised on the implementation only",
    "positive definiteness is the eigenvalue oracle's verdict on the reduced update the class computes (active block with a subspace)",
    "subspace indexes are distinct, non-negative and in range; Hessians are float or integer-valued ndarrays",
]
RULE = ("all 8 updater classes x dimension n x {definite, indefinite} symmetric H with entries k/8 x step/gradient-change kinds "
        "{random, curvature-consistent, near-orthogonal (y and y-Hs), tiny, tiny curvature; zero step, orthogonal, y = H s, s = y = 0, "
        "y = 0, s.H.s = 0, s = B y} x {no subspace, all indexes, random index subspace of a larger matrix} x {h only, h and h_inv}; "
        "implementation-side oracles additionally for n up to 30 with float inputs, int-dtype Hessians, repeated reads of one "
        "object, and update_h_from_old_h on fully and partly active coordinates; a case is non-trivial unless the updater is "
        "NullUpdate; distinct by (stream, class, n, H kind, vector kind, subspace, seed index)")

# Functions the HAND-WRITTEN parts (Model.full_update / Model.first_applicable, and the harness's
# update_h_from_old_h oracle which builds CartesianCoordinates and passes subspace_idxs = all indexes) were
# written from and that the translator does not already regenerate or pin.  Already covered by
# tr/translate_c09.py (no PINS entry needed): every _updated_h / _updated_h_inv / conditions_met,
# _ensure_hermitian, _matrix_in_full_space, _apply_subspace, BFGSPDUpdate.__init__ (regenerated / exact body);
# HessianUpdater.updated_h, updated_h_inv and OptCoordinates.update_h_from_old_h (exact statement text).
# HessianUpdater.__init__ is only needle-checked there (statement ORDER is not), hence pinned here.
PINS = [
    ("autode/opt/optimisers/hessian_update.py", "HessianUpdater.__init__"),
    ("autode/opt/coordinates/base.py", "OptCoordinates.active_mol_indexes"),
    ("autode/opt/coordinates/base.py", "OptCoordinates.h_or_h_inv_has_correct_shape"),
    ("autode/opt/coordinates/cartesian.py", "CartesianCoordinates.active_indexes"),
]

SLICE = ["lib/Sums.v", "lib/QcInst.v", "C09/Model.v", "C09/Lemmas.v", "C09/Props.v", "C09/Corr.v", "gen/C09_Gen.v"]
PRE = ("From Coq Require Import ZArith QArith Qcanon List Bool.\nFrom AV.lib Require Import QcInst.\n"
       "From AV.C09 Require Import Model Corr.\nImport ListNotations.\n")

CLASSES = ["BFGSUpdate", "BFGSPDUpdate", "BFGSDampedUpdate", "SR1Update", "NullUpdate", "BofillUpdate",
           "FlowchartUpdate", "BFGSSR1Update"]
COQ_CLS = {"BFGSUpdate": "BFGS", "BFGSPDUpdate": "BFGSPD", "BFGSDampedUpdate": "BFGSDamped", "SR1Update": "SR1",
           "NullUpdate": "Null", "BofillUpdate": "Bofill", "FlowchartUpdate": "Flowchart", "BFGSSR1Update": "BFGSSR1"}
# closed-form inverse updates; the others (incl. BFGSDampedUpdate since f804bb7) return np.linalg.inv(updated_h)
CLOSED_INV = {"BFGSUpdate", "BFGSPDUpdate", "SR1Update", "NullUpdate"}
MIN_EIG = 1e-5
REL_MARGIN = 1e-6          # divisors / guard decisions closer than this (relative) are skipped


def updater_classes():
    import autode.opt.optimisers.hessian_update as hu
    return {c: getattr(hu, c) for c in CLASSES}


# ------------------------------------------------------------------------------------------ generators
def rand_k8(rng, lo=-8, hi=8):
    return rng.randint(lo, hi) / 8.0


def gen_h(rng, n, kind):
    """symmetric matrix with entries k/8: 'definite' (strictly diagonally dominant, positive diagonal)
    or 'indefinite' (random symmetric with at least one negative diagonal entry)."""
    a = np.zeros((n, n))
    for i in range(n):
        for j in range(i):
            a[i, j] = a[j, i] = rng.randint(-4, 4) / 8.0
    if kind == "definite":
        for i in range(n):
            a[i, i] = np.sum(np.abs(a[i])) + rng.randint(1, 12) / 8.0
    else:
        for i in range(n):
            a[i, i] = rng.randint(-12, 12) / 8.0
        i = rng.randrange(n)
        a[i, i] = -abs(a[i, i]) - 0.25
    return a


def gen_sy(rng, n, h, kind):
    """(s, y) with exactly representable low-bit dyadic entries."""
    rv = lambda: np.array([rand_k8(rng) for _ in range(n)])  # noqa: E731
    if kind == "random":
        s, y = rv(), rv()
        if not s.any():
            s[0] = 0.5
        return s, y
    if kind == "curvature":              # y = H s + small perturbation (typical optimisation step)
        s = rv()
        if not s.any():
            s[-1] = 0.25
        return s, h @ s + np.array([rng.randint(-2, 2) / 16.0 for _ in range(n)])
    if kind == "near-orthogonal":        # y.s = +-|s|^2/1024 : cos ~ 1e-3
        s = rv()
        if not s.any():
            s[0] = 1.0
        y = np.zeros(n)
        if n >= 2:
            i, j = rng.sample(range(n), 2)
            y[i], y[j] = -s[j], s[i]
            if not y.any():
                y[i] = 1.0 if s[i] == 0 else 0.0
                y[j] = 1.0 if s[j] == 0 and y[i] == 0 else y[j]
        return s, y + rng.choice([-1, 1]) * s / 1024.0
    if kind == "near-orthogonal-z":      # z = y - H s nearly orthogonal to s: z.s = +-|s|^2/1024
        s = rv()
        if not s.any():
            s[0] = 1.0
        w = np.zeros(n)
        if n >= 2:
            i, j = rng.sample(range(n), 2)
            w[i], w[j] = -s[j], s[i]
            if not w.any():
                w[i if s[i] == 0 else j] = 1.0 if (s[i] == 0 or s[j] == 0) else 0.0
        return s, h @ s + w + rng.choice([-1, 1]) * s / 1024.0
    if kind == "tiny-curvature":         # y.s = +|s|^2 2^-18: BFGS then has an eigenvalue <= 3.8e-6 < min_eigenvalue
        s = rv()
        if not s.any():
            s[0] = 1.0
        w = np.zeros(n)
        if n >= 2:
            i, j = rng.sample(range(n), 2)
            w[i], w[j] = -s[j], s[i]
        return s, w + s / 2.0**18
    if kind == "exact-inverse":          # s = B y exactly for the inverse-Hessian guess B = 2I - H/4 used by degenerate_case
        y = rv()
        if not y.any():
            y[0] = 0.5
        return (2.0 * np.eye(n) - 0.25 * h) @ y, y
    if kind == "zero-gradient-change":   # y = 0, s != 0
        s = rv()
        if not s.any():
            s[0] = 0.5
        return s, np.zeros(n)
    if kind == "tiny":
        s, y = rv(), rv()
        if not s.any():
            s[0] = 0.5
        return s / 2.0**20, y / 2.0**20
    if kind == "zero-step":
        y = rv()
        if not y.any():
            y[0] = 0.5
        return np.zeros(n), y
    if kind == "orthogonal":
        s = np.zeros(n)
        y = np.zeros(n)
        if n == 1:
            s[0] = 1.0
            return s, y
        i, j = rng.sample(range(n), 2)
        s[i], y[j] = rand_k8(rng, 1, 8), rand_k8(rng, 1, 8)
        return s, y
    if kind == "exact-quadratic":        # y = H s exactly
        s = rv()
        if not s.any():
            s[0] = 0.5
        return s, h @ s
    if kind == "all-zero":
        return np.zeros(n), np.zeros(n)
    raise ValueError(kind)


REGULAR = ["random", "curvature", "near-orthogonal", "near-orthogonal-z", "tiny", "tiny-curvature"]
DEGENERATE = ["zero-step", "orthogonal", "exact-quadratic", "all-zero", "zero-gradient-change", "null-cone", "exact-inverse"]


def gen_case(rng, n, hk, kind):
    """(h, s, y) for any kind; 'null-cone' (s.H.s = 0 with s != 0) needs its own H."""
    h = gen_h(rng, n, hk)
    if kind != "null-cone":
        s, y = gen_sy(rng, n, h, kind)
        return h, s, y
    s = np.zeros(n)
    if n == 1:
        h[0, 0], s[0] = 0.0, 1.0
    else:
        i, j = rng.sample(range(n), 2)
        s[i] = s[j] = 1.0
        h[j, j] = -h[i, i] - 2.0 * h[i, j]
    y = np.array([rand_k8(rng) for _ in range(n)])
    if float(s @ y) <= 0:
        y = -y if float(s @ y) < 0 else y + s
    return h, s, y


def gen_subspace(rng, n_sub, big):
    idxs = rng.sample(range(big), n_sub)
    if rng.random() < 0.6:
        idxs.sort()
    return idxs


# ------------------------------------------------------------------------------------------ exact classification
def F(x):
    return Fraction(*float(x).as_integer_ratio())


def fdot(a, b):
    return sum((F(x) * F(y) for x, y in zip(a, b)), Fraction(0))


def fmatvec(h, v):
    return [fdot(row, v) for row in h]


def classify(cname, h, s, y, min_eig=MIN_EIG):
    """Exact (Fraction) evaluation of the guards and divisors that decide a case:
    -> dict(zero=bool some result-relevant divisor is exactly 0, marginal=bool some divisor tiny or a guard
       within margin, cond_zero=bool a divisor inside conditions_met is 0).
    This is classification only (which comparison to make), never a verdict."""
    n = len(s)
    hs = fmatvec(h, s)
    sy, shs, ss, yy = fdot(s, y), fdot(s, hs), fdot(s, s), fdot(y, y)
    z = [F(a) - b for a, b in zip(y, hs)]
    zs, zz = sum(a * F(b) for a, b in zip(z, s)), sum(a * a for a in z)
    fl = float
    ns, ny, nz = math.sqrt(fl(ss)), math.sqrt(fl(yy)), math.sqrt(fl(zz))
    nh = max(1e-300, float(np.linalg.norm(h)))
    divs, marginal = [], False

    def small(d, scale):
        return d != 0 and abs(fl(d)) < REL_MARGIN * scale

    def near(a, b, scale):
        return abs(a - b) < REL_MARGIN * max(scale, 1e-300)
    if cname in ("BFGSUpdate", "BFGSPDUpdate"):
        divs = [(sy, ns * ny), (shs, nh * ns * ns)]
    elif cname == "BFGSDampedUpdate":
        divs = [(shs, nh * ns * ns)]
        lhs, rhs = fl(sy), 0.2 * fl(shs)
        if near(lhs, rhs, abs(lhs) + abs(rhs)):
            marginal = True
        if sy < Fraction(1, 5) * shs:
            divs.append((shs - sy, abs(fl(shs)) + abs(fl(sy))))
            theta = Fraction(4, 5) * shs / (shs - sy) if shs != sy else None
        else:
            theta = Fraction(1)
        if theta is not None:
            yp_s = theta * sy + (1 - theta) * shs
            divs.append((yp_s, max(abs(fl(theta)) * ns * ny, abs(fl(1 - theta)) * nh * ns * ns, 1e-300)))
    elif cname == "SR1Update":
        divs = [(zs, nz * ns)]
    elif cname == "BofillUpdate":
        if near(nz, 1e-6, 1e-6 / REL_MARGIN * 1e-2):       # |z| within 1% of the 1e-6 threshold
            marginal = True
        if not nz < 1e-6:
            divs = [(zs, nz * ns), (ss, ns * ns), (ss * zz, (ns * nz) ** 2)]
    elif cname == "FlowchartUpdate":
        c1 = fl(zs) / (nz * ns) if nz * ns else float("nan")
        c2 = fl(sy) / (ny * ns) if ny * ns else float("nan")
        if near(c1, -0.1, 1.0) or near(c2, 0.1, 1.0):
            marginal = True
        if c1 < -0.1:
            divs = [(zs, nz * ns)]
        elif c2 > 0.1:
            divs = [(sy, ny * ns), (shs, nh * ns * ns)]
        else:
            divs = [(ss, ns * ns)]
    elif cname == "BFGSSR1Update":
        divs = [(sy, ns * ny), (shs, nh * ns * ns), (zs, nz * ns), (ss * zz, (ns * nz) ** 2)]
    zero = any(d == 0 for d, _ in divs)
    marginal = marginal or any(small(d, sc) for d, sc in divs)
    # guards
    if cname == "SR1Update":
        lhs, rhs = fl(zs) ** 2, 1e-16 * fl(ss) * fl(zz)
        if rhs and 0.9 < lhs / rhs < 1.1:
            marginal = True
    return {"zero": zero, "marginal": marginal}


def run_updater(cls, h, h_inv, s, y, idxs, **kw):
    """-> dict with updated_h / updated_h_inv / conditions_met results or ('EXC', name)."""
    out = {}
    with warnings.catch_warnings():
        warnings.simplefilter("ignore")
        with np.errstate(all="ignore"):
            for attr in ("conditions_met", "updated_h", "updated_h_inv"):
                try:
                    u = cls(h=None if h is None else h.copy(), h_inv=None if h_inv is None else h_inv.copy(),
                            s=s.copy(), y=y.copy(), subspace_idxs=None if idxs is None else list(idxs), **kw)
                    v = getattr(u, attr)
                    out[attr] = bool(v) if attr == "conditions_met" else np.array(v, dtype=float)
                except Exception as e:  # noqa
                    out[attr] = ("EXC", type(e).__name__)
    return out


def finite(m):
    return not isinstance(m, tuple) and bool(np.all(np.isfinite(m)))


# ------------------------------------------------------------------------------------------ implementation oracles
def powell_target(h, s, y):
    """Powell's documented damped gradient change (Math. Prog. Comp. 8 (2016) 435): theta*y + (1-theta)*H s,
    theta = 0.8 sHs/(sHs - s.y) if s.y < 0.2 sHs else 1."""
    shs, sy = float(s @ h @ s), float(s @ y)
    theta = 0.8 * shs / (shs - sy) if sy < 0.2 * shs else 1.0
    return theta * y + (1.0 - theta) * (h @ s), theta, shs


def oracle_case(cname, cls, h, s, y, idxs, big_h, big_s, big_y, report, cl):
    """Property-level checks on one implementation call.  (h, s, y) is the reduced problem; with a subspace
    the call is made on (big_h, big_s, big_y, idxs).  `report(key, what)` records a failure."""
    n = len(s)
    call_h, call_s, call_y = (h, s, y) if idxs is None else (big_h, big_s, big_y)
    h_inv_small = None
    res = run_updater(cls, call_h, None, call_s, call_y, idxs)
    up = res["updated_h"]
    tag = f"{cname}(n={n}{'' if idxs is None else ',subspace'})"
    if isinstance(up, tuple):
        report(f"updated_h-raises:{cname}", f"{tag}.updated_h raised {up[1]}")
        return
    if cl["zero"] or cl["marginal"]:
        return
    if not finite(up):
        report(f"nonfinite:{cname}", f"{tag}.updated_h has non-finite entries although every divisor is non-zero")
        return
    sub = up if idxs is None else up[np.ix_(idxs, idxs)]
    scale = float(np.linalg.norm(sub)) * float(np.linalg.norm(s)) + float(np.linalg.norm(y)) + 1e-300
    asym = float(np.max(np.abs(up - up.T)))
    if asym > 1e-9 * (float(np.max(np.abs(up))) + 1e-300):
        report(f"asymmetric:{cname}", f"{tag}.updated_h is not symmetric: max |H' - H'^T| = {asym:.3e}")
    if cname == "NullUpdate":
        if not np.array_equal(up, call_h):
            report("null-not-identity", f"{tag}.updated_h differs from its input")
    elif cname == "BofillUpdate" and np.linalg.norm(y - h @ s) < 1e-6:
        if not np.allclose(sub, h, rtol=0, atol=1e-12):
            report("bofill-skip-not-identity", f"{tag}: |dg - H dx| < 1e-6 but the Hessian changed")
    else:
        target = y
        if cname == "BFGSDampedUpdate":
            target, theta, shs = powell_target(h, s, y)
            if theta < 1.0:
                curv = float(s @ sub @ s)
                if abs(curv - 0.2 * shs) > 1e-8 * (abs(shs) + abs(curv) + scale * float(np.linalg.norm(s))):
                    report("damped-curvature", f"{tag}: theta={theta:.6g} < 1 but s.H'.s = {curv:.9g}, Powell's rule gives "
                                               f"0.2 s.H.s = {0.2 * shs:.9g}")
        r = float(np.linalg.norm(sub @ s - target))
        if r > 1e-8 * scale:
            what = "secant equation H' s = y" if cname != "BFGSDampedUpdate" else "damped secant equation H' s = theta y + (1-theta) H s"
            report(f"secant:{cname}", f"{tag}: {what} violated: residual {r:.3e} (scale {scale:.3e})")
    if idxs is not None:
        mask = np.ones_like(up, dtype=bool)
        mask[np.ix_(idxs, idxs)] = False
        if not np.array_equal(up[mask], call_h[mask]):
            d = float(np.max(np.abs(up[mask] - call_h[mask])))
            report(f"subspace-touched:{cname}", f"{tag}: entries outside the subspace changed by up to {d:.3e}")
        # BOTH h and h_inv given together with a proper subspace: each form is embedded into ITS OWN input
        big_n = call_h.shape[0]
        invertible = abs(np.linalg.det(h)) > 1e-6 and n <= 12
        big_hi = 2.0 * np.eye(big_n) - 0.5 * call_h                  # symmetric, differs from H in every entry class
        big_hi[np.ix_(idxs, idxs)] = np.linalg.inv(h) if invertible else 2.0 * np.eye(n) - 0.5 * h
        big_hi = (big_hi + big_hi.T) / 2.0
        rb = run_updater(cls, call_h, big_hi, call_s, call_y, idxs)
        rr = run_updater(cls, h, big_hi[np.ix_(idxs, idxs)], s, y, None)     # the reduced problem
        for attr, init in (("updated_h_inv", big_hi), ("updated_h", call_h)):
            fullm, red = rb[attr], rr[attr]
            if isinstance(fullm, tuple) or isinstance(red, tuple):
                if isinstance(fullm, tuple) != isinstance(red, tuple):
                    report(f"subspace-both-raises:{cname}", f"{tag}.{attr} with h and h_inv given: subspace call -> "
                                                            f"{fullm if isinstance(fullm, tuple) else 'ok'}, reduced call -> {red if isinstance(red, tuple) else 'ok'}")
                continue
            if not (finite(fullm) and finite(red)):
                continue
            if fullm.shape != init.shape or not np.array_equal(fullm[mask], init[mask]):
                d = float(np.max(np.abs(fullm[mask] - init[mask]))) if fullm.shape == init.shape else float("nan")
                report(f"subspace-touched-both:{cname}", f"{tag}.{attr} with h and h_inv both given: entries outside the subspace "
                                                         f"differ from the input {'h_inv' if attr == 'updated_h_inv' else 'h'} by up to {d:.3e}")
                continue
            blk, want = fullm[np.ix_(idxs, idxs)], (red + red.T) / 2.0
            if not np.allclose(blk, want, rtol=1e-9, atol=1e-9 * max(1.0, float(np.max(np.abs(want))))):
                report(f"subspace-block-both:{cname}", f"{tag}.{attr} with h and h_inv both given: the sub-block is not the update "
                                                       f"of the reduced problem (max deviation {float(np.max(np.abs(blk - want))):.3e})")
    # inverse form x direct form = identity (h_inv = inv(h)); reduced problem, without subspace and with ALL indexes selected
    for sel in ((None, list(range(n))) if idxs is None and abs(np.linalg.det(h)) > 1e-6 and n <= 12 else ()):
        h_inv_small = np.linalg.inv(h)
        r2 = run_updater(cls, h, h_inv_small, s, y, sel)
        ui = r2["updated_h_inv"]
        up = r2["updated_h"] if sel is not None and finite(r2["updated_h"]) else up
        if cname in CLOSED_INV:
            sy = float(s @ y)
            t = s - h_inv_small @ y
            okdiv = abs(sy) > 1e-4 * np.linalg.norm(s) * np.linalg.norm(y) if cname != "SR1Update" else \
                abs(t @ y) > 1e-4 * np.linalg.norm(t) * np.linalg.norm(y)
            if cname == "NullUpdate":
                okdiv = True
        else:
            okdiv = True
        if isinstance(ui, tuple):
            if not (ui[1] == "LinAlgError"):
                report(f"inverse-raises:{cname}", f"{tag}.updated_h_inv raised {ui[1]}")
        elif okdiv and finite(ui):
            cond = np.linalg.cond(up)
            asym_i = float(np.max(np.abs(ui - ui.T)))
            if cond < 1e6 and asym_i > (1e-9 + 1e-13 * cond) * (float(np.max(np.abs(ui))) + 1e-300):
                report(f"asymmetric-inv:{cname}", f"{tag}.updated_h_inv is not symmetric: max |B' - B'^T| = {asym_i:.3e}")
            if cond < 1e6:
                dev = float(np.max(np.abs(up @ ui - np.eye(n))))
                if dev > 1e-7 * cond:
                    key = f"inverse-mismatch:{cname}"
                    if cname == "BFGSDampedUpdate" and powell_target(h, s, y)[1] != 1.0:
                        key += "|damping-active"      # fixed by f804bb7 (the class used to inherit the UNdamped inverse formula)
                    report(key, f"{tag}{' sel=all' if sel else ''}: updated_h . updated_h_inv deviates from I by {dev:.3e} "
                                f"(cond {cond:.2e}) although h_inv = inv(h)")
    # positive-definite classes only applicable when the result is positive definite
    if cname in ("BFGSPDUpdate", "BFGSDampedUpdate") and res["conditions_met"] is True:
        lam = float(np.linalg.eigvalsh((sub + sub.T) / 2.0)[0])
        if lam < MIN_EIG - 1e-7 * (1 + abs(lam)):
            report(f"pd-guard:{cname}", f"{tag}.conditions_met is True but the smallest eigenvalue of updated_h is {lam:.3e}")
    if isinstance(res["conditions_met"], tuple):
        report(f"conditions_met-raises:{cname}", f"{tag}.conditions_met raised {res['conditions_met'][1]}")
    # documented guards: BFGS "must meet the secant condition" (declines iff y.s < 0); SR1 |s.z| > 1e-8 |s||z|
    cm = res["conditions_met"]
    if cname == "BFGSUpdate" and isinstance(cm, bool):
        sy, sc = float(s @ y), float(np.linalg.norm(s) * np.linalg.norm(y))
        if abs(sy) > 1e-9 * sc and cm != (not sy < 0):
            report("guard:BFGSUpdate", f"{tag}: y.s = {sy:.6g} but conditions_met = {cm} (documented: declined iff y.s < 0)")
    if cname in ("BFGSPDUpdate", "BFGSDampedUpdate") and cm is True and float(s @ y) < -1e-9 * float(np.linalg.norm(s) * np.linalg.norm(y)):
        report(f"guard:{cname}", f"{tag}: y.s = {float(s @ y):.6g} < 0 but conditions_met = True")
    if cname == "SR1Update" and isinstance(cm, bool):
        z = y - h @ s
        lhs, rhs = abs(float(s @ z)), 1e-8 * float(np.linalg.norm(s) * np.linalg.norm(z))
        if (lhs > 2 * rhs or lhs < 0.5 * rhs) and cm != (lhs > rhs):
            report("guard:SR1Update", f"{tag}: |s.z| = {lhs:.6g}, 1e-8 |s||z| = {rhs:.6g} but conditions_met = {cm}")


# The exactly-vanishing quantities that are DIVISORS of each class's formula, in the order used to name a case
# (the first that holds).  Quantities that are irrelevant for a class never name its key (e.g. y = 0 for Bofill).
RELEVANT = {
    "BFGSUpdate": ["s=0", "y.s=0", "sHs=0"],
    "BFGSPDUpdate": ["s=0", "y.s=0", "sHs=0"],
    "BFGSDampedUpdate": ["s=0", "sHs=0", "sHs=s.y", "y.s=0"],
    "SR1Update": ["(y-Hs).s=0"],
    "NullUpdate": [],
    "BofillUpdate": ["s=0", "(y-Hs).s=0"],
    "FlowchartUpdate": ["s=0", "sHs=0", "y.s=0", "(y-Hs).s=0"],
    "BFGSSR1Update": ["s=0", "y.s=0", "sHs=0", "(y-Hs).s=0"],
}
RELEVANT_INV = {"SR1Update": ["y=0", "(s-Binv.y).y=0"], "BFGSUpdate": ["y.s=0"], "BFGSPDUpdate": ["y.s=0"]}


def degenerate_cause(cname, h, h_inv, s, y, inverse=False):
    """Name of the vanishing divisor (exact rational arithmetic on the floats) that makes the input degenerate
    for the direct (resp. inverse) form of class `cname`; 'other' if none of the class's divisors vanishes."""
    hs = fmatvec(h, s)
    z = [F(a) - b for a, b in zip(y, hs)]
    t = [F(a) - b for a, b in zip(s, fmatvec(h_inv, y))]
    sy, shs = fdot(s, y), fdot(s, hs)
    flags = {"s=0": not any(s), "y=0": not any(y), "y.s=0": sy == 0, "sHs=0": shs == 0, "sHs=s.y": shs == sy,
             "(y-Hs).s=0": sum(a * F(b) for a, b in zip(z, s)) == 0,
             "(s-Binv.y).y=0": sum(a * F(b) for a, b in zip(t, y)) == 0}
    for lab in (RELEVANT_INV.get(cname, []) if inverse else RELEVANT[cname]):
        if flags[lab]:
            return lab
    return "other"


def fixed_degenerate_inputs():
    """The complete, seed-independent enumeration: every vanishing quantity x n in {1,2,3} x definite / indefinite H,
    exact dyadic entries.  Random degenerate cases may only produce keys this enumeration produces as well."""
    out = []
    for n in (1, 2, 3):
        e = np.eye(n)
        hs_ = {"pd": np.diag([1.0, 2.0, 1.5][:n]) + 0.25 * (np.ones((n, n)) - e),
               "nd": -(np.diag([1.0, 2.0, 1.5][:n]) + 0.25 * (np.ones((n, n)) - e)),
               "indef": np.diag([1.0, -1.0, 0.5][:n]) if n > 1 else np.zeros((1, 1))}
        for hn, h in hs_.items():
            B = 2.0 * e - 0.25 * h
            s1 = e[0] * 0.5
            cases = {"s=0": (np.zeros(n), e[0] * 0.5), "s=0,y=0": (np.zeros(n), np.zeros(n)), "y=0": (s1, np.zeros(n)),
                     "y=Hs": (s1, h @ s1), "s=By": (B @ (e[0] * 0.5), e[0] * 0.5)}
            if n >= 2:
                cases["y.s=0"] = (e[0] * 0.5, e[1] * 0.75)
                cases["(y-Hs).s=0"] = (e[0] * 0.5, h @ (e[0] * 0.5) + e[1] * 0.25)
                sB = B @ (e[0] * 0.5)
                w = np.zeros(n)
                w[1] = 0.25                                   # w orthogonal to y = e0/2
                cases["(s-By).y=0"] = (sB + w, e[0] * 0.5)
                if hn == "indef":
                    sn = e[0] + e[1]                          # s.H.s = 1 - 1 = 0
                    cases["sHs=0"] = (sn, e[0] * 0.5 + e[1] * 0.25)
                    cases["sHs=0,y=0"] = (sn, np.zeros(n))
                    cases["sHs=0,y.s=0"] = (sn, e[0] * 0.5 - e[1] * 0.5)
            elif hn == "indef":
                cases["sHs=0"] = (np.array([1.0]), np.array([0.5]))
            for cn, (s, y) in cases.items():
                out.append((f"fixed n={n} H={hn} {cn}", h.copy(), np.array(s, dtype=float), np.array(y, dtype=float)))
    return out


def degenerate_case(cname, cls, h, s, y, kind, report):
    """Property clause: degenerate step information leaves the (inverse) Hessian unchanged rather than producing
    non-finite entries (whenever the updater declares itself applicable).  Keys carry the input kind (and
    `|inverse` for updated_h_inv) so that a NEW way of producing NaN is not filed under a known one."""
    n = len(s)
    h_inv = 2.0 * np.eye(n) - 0.25 * h          # exact dyadic symmetric inverse-Hessian guess
    res = run_updater(cls, h, h_inv, s, y, None)
    cm, up, ui = res["conditions_met"], res["updated_h"], res["updated_h_inv"]
    cause = degenerate_cause(cname, h, h_inv, s, y)
    tag = f"{cname}(n={n}, {kind}: {cause})"
    key = f"degenerate-step:{cname}|{cause}"
    if isinstance(cm, tuple):
        report(key, f"{tag}.conditions_met raised {cm[1]} instead of declining the update")
        return
    if cm is True:
        if isinstance(up, tuple):
            report(key, f"{tag}: conditions_met is True but updated_h raised {up[1]}")
        elif not finite(up):
            report(key, f"{tag}: conditions_met is True and updated_h has non-finite entries "
                        f"(division by zero) instead of leaving the Hessian unchanged")
        elif isinstance(ui, tuple):
            if ui[1] != "LinAlgError" or cname in CLOSED_INV:        # a singular update has no inverse: not a defect
                report(f"degenerate-step:{cname}|{degenerate_cause(cname, h, h_inv, s, y, True)}|inverse",
                       f"{tag}: conditions_met is True, updated_h is finite but updated_h_inv raised {ui[1]}")
        elif not finite(ui):
            report(f"degenerate-step:{cname}|{degenerate_cause(cname, h, h_inv, s, y, True)}|inverse",
                   f"{tag}: conditions_met is True, updated_h is finite but updated_h_inv has non-finite "
                                     f"entries (division by zero) instead of leaving the inverse Hessian unchanged")


def state_case(cname, cls, h, h_inv, s, y, idxs, report):
    """One updater object queried repeatedly: conditions_met and updated_h / updated_h_inv are functions of the
    constructor arguments only (re-reading gives the same answer) and the caller's arrays are not modified."""
    H, HI, S, Y = h.copy(), h_inv.copy(), s.copy(), y.copy()
    tag = f"{cname}(n={len(s)}, subspace={'None' if idxs is None else idxs})"
    with warnings.catch_warnings():
        warnings.simplefilter("ignore")
        with np.errstate(all="ignore"):
            try:
                u = cls(h=H, h_inv=HI, s=S, y=Y, subspace_idxs=None if idxs is None else list(idxs))
                c0 = bool(u.conditions_met)
                a1 = np.array(u.updated_h, dtype=float)
                c1 = bool(u.conditions_met)
                a2 = np.array(u.updated_h, dtype=float)
                b1 = np.array(u.updated_h_inv, dtype=float)
                b2 = np.array(u.updated_h_inv, dtype=float)
                c2 = bool(u.conditions_met)
            except Exception:  # noqa  (degenerate inputs / singular updates are the business of other oracles)
                return
    for nm, orig, now in (("h", h, H), ("h_inv", h_inv, HI), ("s", s, S), ("y", y, Y)):
        if not np.array_equal(orig, now):
            report(f"state:input-mutated:{cname}", f"{tag}: the caller's `{nm}` array was modified in place "
                                                   f"(max change {float(np.max(np.abs(orig - now))):.3e})")
            return
    if not (np.array_equal(a1, a2, equal_nan=True) and np.array_equal(b1, b2, equal_nan=True)):
        which = "updated_h" if not np.array_equal(a1, a2, equal_nan=True) else "updated_h_inv"
        report(f"state:reread-differs:{cname}", f"{tag}: reading {which} a second time gives a different matrix")
    elif not (c0 == c1 == c2):
        report(f"state:conditions-change:{cname}", f"{tag}: conditions_met was {c0} before and {c1}/{c2} after reading the update")


def int_dtype_case(classes, h_int, s, y, idxs, report):
    """An integer-valued Hessian passed as an int ndarray is still a symmetric Hessian: the update must be the one
    obtained for the same numbers as floats."""
    for cname, cls in classes.items():
        a = run_updater(cls, h_int, None, s, y, idxs)["updated_h"]
        b = run_updater(cls, h_int.astype(float), None, s, y, idxs)["updated_h"]
        if isinstance(a, tuple) or isinstance(b, tuple) or not (finite(a) and finite(b)):
            continue
        if not np.allclose(a, b, rtol=1e-12, atol=1e-12):
            report("subspace-int-dtype-truncated", f"{cname}(subspace={idxs}): updated_h for an int-dtype Hessian differs from "
                                                   f"the float-dtype result by up to {float(np.max(np.abs(a - b))):.3e} "
                                                   f"(update written into an integer copy: truncated)")
            return


def partly_active_coords(x, active, lam=None):
    """CartesianCoordinates whose `active_indexes` is `active` (a proper subset of the coordinates plus, like
    DICWithConstraints' Lagrange multipliers, indexes >= len(x) which active_mol_indexes must drop)."""
    from autode.opt.coordinates import CartesianCoordinates

    class PartlyActive(CartesianCoordinates):
        @property
        def active_indexes(self):
            return list(self._verif_active)

        @property
        def g(self):
            # like DICWithConstraints.g: the PUBLIC gradient is the Lagrangian one (length n + m, -lambda_i on the
            # constrained coordinates, dL/dlambda at the end); the energy gradient the update needs is `_g`
            if self._g is None:
                return None
            n, lam = len(self), np.asarray(self._verif_lambda, dtype=float)
            arr = np.zeros(n + len(lam))
            arr[:n] = self._g
            for i in range(len(lam)):
                arr[n - len(lam) + i] -= lam[i]
                arr[n + i] = 0.125 * (i + 1)
            return arr

        @g.setter
        def g(self, value):
            raise RuntimeError("Cannot set gradient with constraints enabled")
    c = PartlyActive(x)
    c._verif_active = None if active is None else list(active)
    c._verif_lambda = [] if lam is None else list(lam)
    if active is None:
        c = CartesianCoordinates(x)
    return c


def first_applicable_case(ctx, rng, classes, n, report, fixed=None):
    """update_h_from_old_h uses the first updater whose conditions are met, restricted to the coordinates that
    are active AND belong to the molecule (active_mol_indexes).  `report(key, what, extra_replay)`."""
    if fixed is None:
        h = gen_h(rng, n, rng.choice(["definite", "indefinite"]))
        x0 = np.array([rand_k8(rng) for _ in range(n)])
        s, y = gen_sy(rng, n, h, rng.choice(["random", "curvature"]))
        g0 = np.array([rand_k8(rng) for _ in range(n)])
        names = [rng.choice(["BFGSPDUpdate", "BFGSDampedUpdate", "SR1Update", "BFGSUpdate", "BofillUpdate", "NullUpdate"])
                 for _ in range(rng.randint(1, 3))]
        if n >= 2 and rng.random() < 0.4:      # an undisplaced coordinate: exactly-zero step component
            s[rng.randrange(n)] = 0.0
            if not s.any():
                s[0] = 0.5
        active = None
        if n >= 2 and rng.random() < 0.5:      # proper subset + multiplier-like indexes beyond the molecule
            m = rng.randint(0, 2)
            active = sorted(rng.sample(range(n), rng.randint(1, n - 1))) + [n + k for k in range(m)]
            if m and rng.random() < 0.7 and (n - 1) not in active:
                active = sorted(active[:len(active) - m] + [n - 1]) + active[len(active) - m:]   # an unsatisfied constraint
            if len([i for i in active if i < n]) == n:
                active.remove(0)
        lams = None
        if active is not None:
            m = len([i for i in active if i >= n])
            lams = [[rand_k8(rng, 1, 8) for _ in range(m)], [rand_k8(rng, -8, -1) for _ in range(m)]]   # multipliers change
    else:
        h, x0, s, y, g0 = (np.array(fixed[k], dtype=float) for k in ("h", "x0", "s", "y", "g0"))
        names, active, lams = fixed["names"], fixed.get("active"), fixed.get("lams")
    data = {"kind": "first-applicable", "h": h.tolist(), "x0": x0.tolist(), "s": s.tolist(), "y": y.tolist(),
            "g0": g0.tolist(), "names": names, "active": active, "lams": lams}
    idxs = list(range(n)) if active is None else [i for i in active if i < n]
    old = partly_active_coords(x0, active, None if lams is None else lams[0])
    new = partly_active_coords(x0 + s, active, None if lams is None else lams[1])
    old._h, old._g, new._g = h.copy(), g0.copy(), g0 + y
    conds = []
    for nm in names:
        r = run_updater(classes[nm], h, None, s, y, idxs)
        conds.append(r)
    if any(isinstance(r["conditions_met"], tuple) for r in conds):
        return None
    want = next((k for k, r in enumerate(conds) if r["conditions_met"]), None)
    got, exc = None, None
    with warnings.catch_warnings():
        warnings.simplefilter("ignore")
        with np.errstate(all="ignore"):
            try:
                new.update_h_from_old_h(old, [classes[nm] for nm in names])
                got = np.array(new._h, dtype=float)
            except Exception as e:  # noqa
                exc = e
    where = f"the active molecular coordinates {idxs} of {n}"
    matches = [] if got is None else [k for k, r in enumerate(conds) if not isinstance(r["updated_h"], tuple)
                                      and got.shape == r["updated_h"].shape
                                      and np.allclose(got, r["updated_h"], rtol=1e-12, atol=1e-12, equal_nan=True)]
    case = {"names": names, "conds": [bool(r["conditions_met"]) for r in conds], "matches": matches,
            "raised": isinstance(exc, RuntimeError), "active": active,
            "usable": exc is None or isinstance(exc, RuntimeError)}
    if exc is not None and not (want is None and isinstance(exc, RuntimeError)):
        report("first-applicable", f"update_h_from_old_h({names}) raised {type(exc).__name__}: {str(exc)[:80]} although "
                                   f"{'no updater' if want is None else names[want]} is applicable on {where}", data)
    elif want is None:
        if exc is None:
            report("first-applicable", f"update_h_from_old_h({names}) updated the Hessian although no updater's conditions are met", data)
    else:
        exp = conds[want]["updated_h"]
        if finite(exp) and (got.shape != exp.shape or not np.allclose(got, exp, rtol=1e-12, atol=1e-12)):
            report("first-applicable", f"update_h_from_old_h({names}) did not return the update of the first applicable updater "
                                       f"{names[want]} restricted to {where}", data)
        if finite(exp) and got.shape == exp.shape and names[want] in ("BFGSUpdate", "BFGSPDUpdate", "SR1Update") \
                and np.all(np.isfinite(got)):
            sa, ya, blk = s[idxs], y[idxs], got[np.ix_(idxs, idxs)]
            res_ = float(np.linalg.norm(blk @ sa - ya))
            if res_ > 1e-8 * (float(np.linalg.norm(blk)) * float(np.linalg.norm(sa)) + float(np.linalg.norm(ya)) + 1e-300):
                report("first-applicable-secant", f"update_h_from_old_h({names}): the stored Hessian does not reproduce the ENERGY-gradient "
                                                  f"change on {where}: |H' s - y| = {res_:.3e} (y = g_new - g_old of `_g`)", data)
        if finite(exp) and got.shape == exp.shape and len(idxs) < n:
            mask = np.ones((n, n), dtype=bool)
            mask[np.ix_(idxs, idxs)] = False
            if not np.array_equal(got[mask], h[mask]):
                report("first-applicable-inactive-touched", f"update_h_from_old_h({names}) changed Hessian entries of inactive "
                                                            f"coordinates (active: {idxs} of {n})", data)
    return case, want


def impl_oracles(ctx, classes, full, only=None):
    """-> number of failures.  `only`: a replay dict restricting to one stored case."""
    rng = ctx.rng
    nfail = [0]
    seen_keys = {}

    def make_report(rep):
        def report(key, what, extra=None):
            nfail[0] += 1
            seen_keys[key] = seen_keys.get(key, 0) + 1
            if seen_keys[key] <= 1:          # one concrete replay per key
                ctx.finding(key, what, extra if extra is not None else rep)
        return report

    if only is not None and only.get("kind") == "first-applicable" and "names" in only:
        first_applicable_case(ctx, rng, classes, len(only["s"]), make_report(only), fixed=only)
        return nfail[0]

    if only is not None and only.get("kind") == "int-dtype":
        int_dtype_case(classes, np.array(only["h"]), np.array(only["s"]), np.array(only["y"]), only["idxs"], make_report(only))
        return nfail[0]

    if only is not None:
        cname = only["class"]
        h, s, y = np.array(only["h"]), np.array(only["s"]), np.array(only["y"])
        idxs = only.get("idxs")
        rep = dict(only)
        if only.get("state"):
            state_case(cname, classes[cname], h, np.array(only["h_inv"]), s, y, idxs, make_report(rep))
        elif only.get("degenerate"):
            degenerate_case(cname, classes[cname], h, s, y, only.get("kind_sy", "?"), make_report(rep))
        else:
            big_h, big_s, big_y = (np.array(only[k]) if only.get(k) is not None else None for k in ("big_h", "big_s", "big_y"))
            oracle_case(cname, classes[cname], h, s, y, idxs, big_h, big_s, big_y, make_report(rep), classify(cname, h, s, y))
        return nfail[0]

    sizes = ([1, 2, 3, 5, 8, 13, 21, 30] if full else [1, 2, 3, 6, 12, 30])
    reps = 6 if full else 2
    for n in sizes:
        for hk in ("definite", "indefinite"):
            for vk in REGULAR + ["float"]:
                for r in range(reps):
                    h = gen_h(rng, n, hk)
                    if vk == "float":
                        h = h + np.diag([rng.uniform(0, 0.1) for _ in range(n)])
                        s = np.array([rng.uniform(-1, 1) for _ in range(n)]) * rng.choice([1.0, 1e-3])
                        y = h @ s + np.array([rng.uniform(-0.2, 0.2) for _ in range(n)]) * float(np.linalg.norm(s))
                    else:
                        s, y = gen_sy(rng, n, h, vk)
                    use_sub = rng.random() < 0.5
                    idxs = big_h = big_s = big_y = None
                    if use_sub:
                        big = n + rng.randint(1, 4)
                        idxs = gen_subspace(rng, n, big)
                        big_h = gen_h(rng, big, "indefinite")
                        big_h[np.ix_(idxs, idxs)] = h
                        big_s = np.array([rand_k8(rng) for _ in range(big)])
                        big_y = np.array([rand_k8(rng) for _ in range(big)])
                        big_s[idxs], big_y[idxs] = s, y
                    for cname, cls in classes.items():
                        cl = classify(cname, h, s, y)
                        ctx.count("impl-oracle", (cname, n, hk, vk, use_sub, r), nontrivial=(cname != "NullUpdate"),
                                  sample={"class": cname, "n": n, "H": hk, "sy": vk, "subspace": idxs})
                        ctx.hist("impl-oracle", f"{vk}|{'skipped' if cl['marginal'] or cl['zero'] else 'checked'}")
                        rep = {"kind": "impl-oracle", "class": cname, "h": h.tolist(), "s": s.tolist(), "y": y.tolist(),
                               "idxs": idxs, "big_h": None if big_h is None else big_h.tolist(),
                               "big_s": None if big_s is None else big_s.tolist(),
                               "big_y": None if big_y is None else big_y.tolist()}
                        oracle_case(cname, cls, h, s, y, idxs, big_h, big_s, big_y, make_report(rep), cl)
                        # state: repeated reads / caller's arrays, with no subspace, ALL indexes in order, a proper subspace
                        if not (cl["zero"] or cl["marginal"]) and n <= 12:
                            if idxs is None:
                                sh, ss_, sy_, sidx = h, s, y, (None if r % 2 else list(range(n)))
                            else:
                                sh, ss_, sy_, sidx = big_h, big_s, big_y, idxs
                            shi = 2.0 * np.eye(sh.shape[0]) - 0.5 * sh
                            state_case(cname, cls, sh, shi, ss_, sy_, sidx,
                                       make_report({"kind": "impl-oracle", "state": True, "class": cname, "h": sh.tolist(),
                                                    "h_inv": shi.tolist(), "s": ss_.tolist(), "y": sy_.tolist(), "idxs": sidx}))
    # integer-valued Hessian arrays (dtype int) with a subspace
    for k in range(12 if full else 4):
        n, big = rng.randint(1, 4), 0
        big = n + rng.randint(1, 2)
        hf = gen_h(rng, big, "indefinite")
        hi = np.rint(hf * 8).astype(int)
        idxs = gen_subspace(rng, n, big)
        s, y = np.array([rand_k8(rng) for _ in range(big)]), np.array([rand_k8(rng) for _ in range(big)])
        ctx.count("impl-int-dtype", (n, big, k))
        int_dtype_case(classes, hi, s, y, idxs, make_report({"kind": "int-dtype", "h": hi.tolist(), "s": s.tolist(),
                                                              "y": y.tolist(), "idxs": idxs}))
    # degenerate step information: (1) the fixed, complete enumeration (same keys on every run / seed) ...
    for tagf, h, s, y in fixed_degenerate_inputs():
        for cname, cls in classes.items():
            ctx.count("impl-degenerate-fixed", (cname, tagf), nontrivial=(cname != "NullUpdate"),
                      sample={"class": cname, "case": tagf})
            rep = {"kind": "impl-oracle", "degenerate": True, "class": cname, "h": h.tolist(), "s": s.tolist(),
                   "y": y.tolist(), "kind_sy": tagf}
            degenerate_case(cname, cls, h, s, y, tagf, make_report(rep))
    # ... (2) random degenerate inputs: they classify into the same keys
    for n in ([1, 2, 3, 7, 30] if full else [1, 2, 5]):
        for hk in ("definite", "indefinite"):
            for vk in DEGENERATE:
                h, s, y = gen_case(rng, n, hk, vk)
                for cname, cls in classes.items():
                    ctx.count("impl-degenerate", (cname, n, hk, vk), nontrivial=(cname != "NullUpdate"),
                              sample={"class": cname, "n": n, "H": hk, "sy": vk})
                    rep = {"kind": "impl-oracle", "degenerate": True, "class": cname, "h": h.tolist(), "s": s.tolist(),
                           "y": y.tolist(), "kind_sy": vk}
                    degenerate_case(cname, cls, h, s, y, vk, make_report(rep))
    # SR1: conditions_met computed from h_inv alone (h = None) agrees with the one computed from h
    for _ in range(40 if full else 12):
        n = rng.randint(1, 6)
        h = gen_h(rng, n, "definite")
        s, y = gen_sy(rng, n, h, rng.choice(["random", "curvature"]))
        ctx.count("impl-oracle", ("sr1-hinv", n, _))
        a = run_updater(classes["SR1Update"], h, None, s, y, None)["conditions_met"]
        b = run_updater(classes["SR1Update"], None, np.linalg.inv(h), s, y, None)["conditions_met"]
        z = y - h @ s
        lhs, rhs = abs(float(s @ z)), 1e-8 * float(np.linalg.norm(s) * np.linalg.norm(z))
        znoise = float(np.linalg.norm(z)) <= 1e-9 * float(np.linalg.norm(y) + np.linalg.norm(h) * np.linalg.norm(s))
        if a != b and not znoise and not (rhs and 0.5 < lhs / rhs < 2):   # z ~ 0: the relative guard decides on rounding noise
            make_report({"kind": "impl-oracle", "class": "SR1Update", "h": h.tolist(), "s": s.tolist(), "y": y.tolist(),
                         "idxs": None})("sr1-hinv-conditions", f"SR1Update.conditions_met differs between h given ({a}) and h_inv given ({b})")
    # update_h_from_old_h
    for k in range(60 if full else 20):
        n = rng.randint(1, 5)
        ctx.count("impl-first-applicable", (n, k))
        first_applicable_case(ctx, rng, classes, n, make_report({"kind": "first-applicable", "n": n, "index": k}))
    ctx.cov["streams"].setdefault("impl-oracle", {})["failure_keys"] = dict(seen_keys)
    ctx.cov["impl_failure_keys"] = sorted(seen_keys)
    return nfail[0]


# ------------------------------------------------------------------------------------------ correspondence
def opt_idx(idxs):
    return "None" if idxs is None else "(Some " + coq_list([coq_nat(i) for i in idxs]) + ")"


def fl(x):
    """compact Coq literal (Corr.fl m e = m * 2^e) for the exact value of a double"""
    num, den = float(x).as_integer_ratio()
    return f"(fl ({num}) ({-(den.bit_length() - 1)}))"


def fl_list(xs):
    return "[" + "; ".join(fl(x) for x in xs) + "]"


def fl_mat(rows):
    return "[" + "; ".join(fl_list(r) for r in rows) + "]"


def coq_eval_lists(ctx, preamble, case_terms, widths, per_file, name, timeout=900):
    """case_terms[i] is a Coq `list bool` with widths[i] entries; -> (failing (case, position) pairs, error)."""
    import re
    from concurrent.futures import ThreadPoolExecutor
    nsh = max(1, (len(case_terms) + per_file - 1) // per_file)
    shards = [list(range(k, len(case_terms), nsh)) for k in range(nsh)]     # round-robin: sizes n are interleaved

    def one(k):
        body = (preamble + "\nOpen Scope Z_scope.\nDefinition results : list bool :=\n  "
                + " ++\n  ".join("(" + case_terms[i] + ")" for i in shards[k]) + ".\n"
                "Definition bad := Eval vm_compute in (bad_idx results).\n"
                'Goal True. let b := eval unfold bad in bad in idtac "@@BAD" b. exact I. Qed.\n')
        rc, out = ctx.coq_run(f"{name}_{k}", body, timeout=timeout)
        m = re.search(r"@@BAD\s*(.*?)\s*$", out, flags=re.S) if rc == 0 else None
        if not m:
            return k, None, out
        flat = [int(x) for x in re.findall(r"\d+", m.group(1).replace("%nat", ""))]
        offs, pos = [], 0
        for i in shards[k]:
            offs.append((pos, i))
            pos += widths[i]
        res = []
        for f in flat:
            case = [c for (o, c) in offs if o <= f][-1]
            base = [o for (o, c) in offs if c == case][0]
            res.append((case, f - base))
        return k, res, None

    bad, err = [], None
    with ThreadPoolExecutor(max_workers=min(os.cpu_count() or 4, 14)) as ex:
        for k, res, e in ex.map(one, range(len(shards))):
            if res is None:
                err = (err or "") + f"\nshard {k}: {e[-1500:]}"
            else:
                bad += res
    return sorted(bad), err


def correspondence(ctx, classes, full):
    rng = ctx.rng
    case_terms, case_meta = [], []
    skipped = {"marginal": 0, "cond-marginal": 0}
    nmax = 10 if full else 6
    reps = 2 if full else 1
    kinds = REGULAR + DEGENERATE
    nchecks = 0
    for n in range(1, nmax + 1):
        for hi, hk in enumerate(("definite", "indefinite")):
            for ki, vk in enumerate(kinds):
                if not full and ((n >= 5 and (ki + hi + n) % 3) or (n == 4 and (ki + hi) % 2)):
                    continue                                    # quick tier: half of the grid for the two largest sizes
                for r in range(reps if n <= 6 else 1):
                    h, s, y = gen_case(rng, n, hk, vk)
                    h_inv = gen_h(rng, n, "definite")           # any symmetric matrix: the formulas do not need h.h_inv = I
                    use_sub = (rng.random() < 0.5) and n < nmax
                    if use_sub:
                        big = min(nmax, n + rng.randint(1, 3))
                        idxs = gen_subspace(rng, n, big)
                        H, HI = gen_h(rng, big, "indefinite"), gen_h(rng, big, "definite")
                        H[np.ix_(idxs, idxs)], HI[np.ix_(idxs, idxs)] = h, h_inv
                        S = np.array([rand_k8(rng) for _ in range(big)])
                        Y = np.array([rand_k8(rng) for _ in range(big)])
                        S[idxs], Y[idxs] = s, y
                    else:
                        big, idxs, H, HI, S, Y = n, None, h, h_inv, s, y
                    entries, meta = [], []
                    for cname, cls in classes.items():
                        cl = classify(cname, h, s, y)
                        res = run_updater(cls, H, HI, S, Y, idxs)
                        d = {"class": cname, "n": n, "H": hk, "sy": vk, "subspace": idxs}
                        key = (cname, n, hk, vk, use_sub, r)
                        nt = cname != "NullUpdate"
                        ctx.hist("model-vs-impl", f"{vk}|{'zero-divisor' if cl['zero'] else 'marginal' if cl['marginal'] else 'regular'}")

                        def note(which, k2):
                            nonlocal nchecks
                            nchecks += 1
                            ctx.count("model-vs-impl", key + (k2,), nt, sample=dict(d, check=which))
                        up = res["updated_h"]
                        if cl["marginal"]:
                            skipped["marginal"] += 1
                            eh = "HSkip"
                        elif cl["zero"]:
                            eh = f"(HUndef {coq_bool(isinstance(up, tuple) or not finite(up))})"
                            note("updated_h-undefined", "hu")
                        elif isinstance(up, tuple) or not finite(up):
                            eh = "HBad"
                            note("updated_h", "h")
                        else:
                            eh = f"(HMat {fl_mat(up.tolist())})"
                            note("updated_h", "h")
                        # conditions_met
                        cm = res["conditions_met"]
                        cm_marg = False
                        if cname in ("BFGSPDUpdate", "BFGSDampedUpdate") and not cl["zero"] and not cl["marginal"] and finite(up):
                            sub = up if idxs is None else up[np.ix_(idxs, idxs)]
                            lam = float(np.linalg.eigvalsh((sub + sub.T) / 2.0)[0])
                            cm_marg = abs(lam - MIN_EIG) < 1e-6 * (1 + abs(lam))
                        if cname in ("BFGSPDUpdate", "BFGSDampedUpdate", "SR1Update") and cl["marginal"]:
                            cm_marg = True
                        if cm_marg:
                            skipped["cond-marginal"] += 1
                            ec = "CSkip"
                        elif cname in ("BFGSPDUpdate", "BFGSDampedUpdate") and cl["zero"]:
                            ec = f"(CUndef {coq_bool(isinstance(cm, tuple))})"
                            note("conditions_met-undefined", "cu")
                        elif isinstance(cm, tuple):
                            ec = "CBad"
                            note("conditions_met", "c")
                        else:
                            ec = f"(CVal {coq_bool(cm)})"
                            note("conditions_met", "c")
                        # updated_h_inv
                        ui = res["updated_h_inv"]
                        ei = "ISkip"
                        if cname in CLOSED_INV:
                            if cname == "SR1Update":
                                hiy = fmatvec(h_inv, y)
                                dz = sum((F(a) - b) * F(c) for a, b, c in zip(s, hiy, y))
                                scale = math.sqrt(float(sum((F(a) - b) ** 2 for a, b in zip(s, hiy)))) * float(np.linalg.norm(y))
                            else:
                                dz, scale = fdot(s, y), float(np.linalg.norm(s) * np.linalg.norm(y))
                            if cname == "NullUpdate":
                                ei = f"(IMat {fl_mat(ui.tolist())})"
                                note("updated_h_inv", "i")
                            elif dz == 0:
                                # a divisor of the inverse form is exactly zero <=> the implementation's result is non-finite
                                ei = f"(IUndef {coq_bool(isinstance(ui, tuple) or not finite(ui))})"
                                note("updated_h_inv-undefined", "iu")
                            elif abs(float(dz)) < REL_MARGIN * max(scale, 1e-300):
                                skipped["marginal"] += 1
                            elif isinstance(ui, tuple) or not finite(ui):
                                ei = "IBad"
                                note("updated_h_inv", "i")
                            else:
                                ei = f"(IMat {fl_mat(ui.tolist())})"
                                note("updated_h_inv", "i")
                        elif idxs is None and not cl["zero"] and not cl["marginal"] and finite(up) and finite(ui) \
                                and np.linalg.cond(up) < 1e5:
                            ei = f"(IOracle {fl_mat(ui.tolist())})"
                            note("updated_h_inv-oracle", "io")
                        elif idxs is not None and not cl["zero"] and not cl["marginal"] and finite(up) and finite(ui) \
                                and np.linalg.cond(up[np.ix_(idxs, idxs)]) < 1e5:
                            # h and h_inv both given + proper subspace: np.linalg.inv's result is the sub-block
                            ei = f"(IOracleSub {fl_mat(ui[np.ix_(idxs, idxs)].tolist())} {fl_mat(ui.tolist())})"
                            note("updated_h_inv-oracle-subspace", "ios")
                        entries.append(f"({COQ_CLS[cname]}, {eh}, {ec}, {ei})")
                        meta.append(d)
                    case_terms.append(f"case_checks {opt_idx(idxs)} {coq_nat(big)} {fl_mat(H.tolist())} {fl_mat(HI.tolist())} "
                                      f"{fl_list(S.tolist())} {fl_list(Y.tolist())} default_mineig [" + "; ".join(entries) + "]")
                    case_meta.append(meta)
    widths = [3 * len(m) for m in case_meta]
    # first applicable updater: model of the loop vs update_h_from_old_h
    fa = []
    for k in range(40 if full else 15):
        out = first_applicable_case(ctx, rng, classes, rng.randint(1, 4), lambda key, what, extra=None: None)
        if out is None:
            continue
        case, want = out
        if not case["usable"]:
            continue
        ctx.count("model-vs-impl", ("first", k, tuple(case["names"])), True, sample={"check": "first-applicable", **case})
        nchecks += 1
        fa.append((f"check_first_applicable {coq_list([coq_bool(c) for c in case['conds']])} "
                   f"{coq_list([coq_nat(m) for m in case['matches']])} {coq_bool(case['raised'])}", case))
    fa.append(("check_defaults", {"check": "default min_eigenvalue of the damped class = that of BFGSPDUpdate"}))
    case_terms.append("[" + "; ".join(t for t, _ in fa) + "]")
    case_meta.append([{"check": "first-applicable", **c} for _, c in fa])
    widths.append(len(fa))
    ctx.cov["streams"]["model-vs-impl"]["margin_skipped"] = skipped
    bad, err = coq_eval_lists(ctx, PRE, case_terms, widths, per_file=(5 if full else 6), name="c09cases")
    out = []
    for case, pos in bad:
        if case == len(case_terms) - 1:
            out.append((case_meta[case][pos], fa[pos][0]))
        else:
            d = dict(case_meta[case][pos // 3], check=["updated_h", "conditions_met", "updated_h_inv"][pos % 3])
            out.append((d, case_terms[case]))
    return out, err, nchecks


# ------------------------------------------------------------------------------------------ entry points
def run(ctx):
    sys.path.insert(0, REPO)
    full = not ctx.quick
    # coq/gen/C09_Gen.v and its .vo are shared by every C09 run (whatever VERIF_REPO): one run at a time
    import fcntl
    os.makedirs(os.path.join(VERIF, ".work"), exist_ok=True)
    _lk = open(os.path.join(VERIF, ".work", "c09.run.lock"), "w")
    fcntl.flock(_lk, fcntl.LOCK_EX)
    ctx._c09_lock = _lk                      # held until the process exits
    pins_changed = source_pins(ctx.pid, PINS)
    ctx.cov["source_pins"] = {"pinned": len(PINS), "changed": pins_changed}
    if pins_changed:
        ctx.log("source pins changed:", pins_changed)
    rc, out = sh(["python3", f"{VERIF}/tr/translate_c09.py"], timeout=120)
    ctx.log("translator:", out.strip()[:300])
    translated = rc == 0
    ctx.cov["translator"] = {"ok": translated, "rc": rc, "output": out.strip()[:600]}
    info = {"hygiene": [], "log_tail": out, "build_ok": False}
    proofs_ok = False
    if translated:
        proofs_ok, info = ctx.proofs(SLICE, "C09/Props.v", "AV.C09.Props", extra_targets=["C09/Corr.vo"])
        ctx.log("proofs:", "ok" if proofs_ok else "BROKEN")
        if not proofs_ok:
            ctx.log(info["log_tail"][-1200:])
        ctx.cov["print_assumptions"] = info.get("assumptions", {})
    else:
        ctx.cov["obligations"] += len(ctx.theorems_in("C09/Props.v"))
        ctx.cov["checker_cmd"] = "translator failed closed (exit %d); proofs not attempted" % rc
    classes = updater_classes()
    nfail = impl_oracles(ctx, classes, full)
    ctx.log(f"implementation oracles: {nfail} failures")
    corr_bad, corr_err = [], None
    if proofs_ok:
        corr_bad, corr_err, nterms = correspondence(ctx, classes, full)
        ctx.log(f"correspondence: {nterms} terms, {len(corr_bad)} disagreements" + (f"; coq error {corr_err[:300]}" if corr_err else ""))
        ctx.cov["disagreements"] = len(corr_bad)
    # a concrete failing input other than the listed known findings explains a broken
    # proof / a disagreement; otherwise the broken obligation itself is reported
    _known = set(ctx.known_keys())
    new_violation = any(k not in _known for k in ctx.cov.get("impl_failure_keys", []))
    if not proofs_ok:
        ctx.proof_failure(info, found_any_input=new_violation)
    if pins_changed and not new_violation and proofs_ok and not (corr_bad or corr_err):
        ctx.violation("hand model no longer pinned to the source: " + ", ".join(pins_changed),
                      {"kind": "source-pin", "changed": pins_changed}, found_input=False)
    if corr_bad or corr_err:
        if not new_violation:
            ctx.violation("model and implementation disagree (correspondence stream model-vs-impl) and no property-level "
                          "oracle failed on the implementation",
                          {"kind": "correspondence", "stream": "model-vs-impl", "first": [d for d, _ in corr_bad[:5]],
                           "coq_terms": [t[:4000] for _, t in corr_bad[:2]], "coq_error": corr_err}, found_input=False)
        else:
            ctx.log("correspondence disagreements explained by the implementation-level findings above:",
                    [d for d, _ in corr_bad[:3]])


def replay(ctx, obj):
    sys.path.insert(0, REPO)
    classes = updater_classes()
    rep = obj.get("replay", {})
    if (rep.get("kind") == "impl-oracle" and "class" in rep) or (rep.get("kind") == "first-applicable" and "names" in rep):
        n = impl_oracles(ctx, classes, True, only=rep)
    else:
        n = impl_oracles(ctx, classes, True)
    print("replay: implementation oracle failures =", n, "; stored:", obj.get("what"))
    return 1 if n else 0


MANIFEST = {
    "technique": "Coq proof over definitions regenerated from source by a fail-closed ast translator (every dimension, arbitrary field) + exact-rational model/implementation correspondence + implementation-side secant/symmetry/inverse/state/degenerate oracles",
    "level_text": ("Machine-checked theorems (coq/C09/Props.v, closed under the global context) over the Gallina definitions "
                   "regenerated from hessian_update.py on every run state, for EVERY dimension n and every field: secant equation "
                   "and symmetry of BFGS (= BFGS-PD), SR1, Bofill (= (1-phi) MS + phi PSB, each a secant solution), every Flowchart "
                   "branch, BFGS-SR1; the Sherman-Morrison inverse forms of BFGS and SR1 are symmetric and are the inverses of the "
                   "direct forms; Powell-damped BFGS satisfies H's = theta*y + (1-theta)*Hs with s.y' = 0.2 sHs when damped; the "
                   "null update is the identity; the sub-space embedding leaves every entry outside idxs x idxs at the "
                   "(symmetrised) input - of h for updated_h, of h_inv for updated_h_inv -, places the update in the block and "
                   "returns a symmetric matrix; SR1's guard excludes a zero divisor of the direct form; Bofill's skip branch "
                   "returns H; the damped class's inverse form is the inverse oracle applied to the damped update.  REFUTED with exact "
                   "witnesses (and reported as findings on the implementation): 'degenerate step leaves H unchanged' for "
                   "BFGS, Bofill, Flowchart, BFGS-SR1, the PD classes (zero divisor inside conditions_met) and SR1's inverse form."),
    "level_note": ("PARTIAL: (a) 'advertised positive definite => applicable only when the result is positive definite' is proved "
                   "only as 'conditions_met = BFGS guard AND the eigenvalue oracle on the reduced update the class computes' "
                   "(pd_guard_partial): the oracle is uninterpreted, definiteness is cross-checked by eigvalsh / Sylvester's "
                   "criterion on generated inputs, and with a subspace it concerns the active block only (the untouched rest may be "
                   "indefinite); (b) Bofill/Flowchart/BFGS-SR1 inverse forms are numpy.linalg.inv of the direct update "
                   "(oracle_inverse_forms_partial): mutual inverses only as far as numpy's answer is, checked by multiplying it with "
                   "the model's update.  Trusted: Coq kernel (+vm_compute for witnesses/correspondence); tr/translate_c09.py "
                   "(validated each run by evaluating the generated definitions at exact rationals against updated_h / "
                   "updated_h_inv / conditions_met for all 8 classes, n<=6 (10 thorough), with and without subspace, h and h_inv "
                   "both given, regular and exactly-degenerate inputs, tolerance 1e-9, guard margins skipped and counted); the hand "
                   "model of __init__/updated_h control flow and of update_h_from_old_h (text/hash pinned, behaviour compared incl. "
                   "partly active coordinates); exact field arithmetic for doubles (IEEE NaN/inf = a zero divisor of the model, "
                   "validated by the stream); sqrt/abs/order/inv/eigvals are oracles.  Outside: SR1 with h=None, duplicate or "
                   "negative subspace indexes."),
}
