"""Entry point:  ./check <Cxx> [--tier quick|thorough] [--replay file]"""
import argparse
import importlib
import json
import os
import sys
import traceback

sys.path.insert(0, os.path.dirname(os.path.abspath(__file__)))
from common import Ctx, VERIF  # noqa: E402


def main():
    ap = argparse.ArgumentParser()
    ap.add_argument("pid")
    ap.add_argument("--tier", default=os.environ.get("VERIF_TIER", "quick"), choices=["quick", "thorough"])
    ap.add_argument("--replay", default=None)
    a = ap.parse_args()
    seed = int(os.environ.get("VERIF_SEED", "0") or 0)
    pid = a.pid.upper()
    mod = importlib.import_module(pid.lower())
    ctx = Ctx(pid, a.tier, seed)
    if a.replay:
        obj = json.load(open(a.replay))
        if not hasattr(mod, "replay"):
            print("replay not supported for", pid)
            sys.exit(2)
        rc = mod.replay(ctx, obj)
        import shutil
        shutil.rmtree(ctx.work, ignore_errors=True)
        sys.exit(rc)
    try:
        mod.run(ctx)
    except Exception:
        tb = traceback.format_exc()
        print(tb)
        # a crash of the machinery itself: the property is not shown to hold by this run
        ctx.violation("check machinery raised an exception (property not shown to hold)",
                      {"kind": "harness-exception", "traceback": tb}, found_input=False)
    rc = ctx.finish(getattr(mod, "TRUSTED_BASE", []), getattr(mod, "ASSUMPTIONS", []),
                    rule=getattr(mod, "RULE", None))
    sys.exit(rc)


if __name__ == "__main__":
    main()
