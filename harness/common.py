"""Shared machinery for the /verif checks (see DESIGN.md sections 1-3).

Every property module `harness/cXX.py` exposes `run(ctx)`; `main.py` creates the Ctx,
calls it, writes the evidence file and sets the exit status.

Run with  PYTHONPATH=/repo  PYTHONHASHSEED=0  /venv/bin/python  (the `check` wrapper does that).
"""
import fcntl
import hashlib
import json
import os
import random
import re
import shutil
import subprocess
import sys
import time
from concurrent.futures import ThreadPoolExecutor
from fractions import Fraction

VERIF = "/verif"
REPO = os.environ.get("VERIF_REPO", "/repo")   # /repo unless a scratch worktree is being drilled
COQ = os.path.join(VERIF, "coq")
COQFLAGS = ["-Q", COQ, "AV"]
NPROC = os.cpu_count() or 4

HYGIENE_RE = re.compile(
    r"\b(Admitted|admit|Axiom|Axioms|Parameter|Parameters|Conjecture|Conjectures|Abort All|"
    r"Unset\s+Guard|Unset\s+Positivity|Unset\s+Universe|bypass_check|Admit\s+Obligations|"
    r"native_compute|type-in-type|impredicative-set)\b"
)


def sh(cmd, timeout=600, cwd=None, env=None, input=None):
    """Run a command, return (rc, combined output). rc=124 on timeout."""
    try:
        p = subprocess.run(
            cmd, cwd=cwd, env=env, input=input, timeout=timeout,
            stdout=subprocess.PIPE, stderr=subprocess.STDOUT, text=True,
            shell=isinstance(cmd, str),
        )
        return p.returncode, p.stdout
    except subprocess.TimeoutExpired as e:
        out = e.stdout.decode() if isinstance(e.stdout, bytes) else (e.stdout or "")
        return 124, out + "\n[timeout]"


# ----------------------------------------------------------------------------- Coq literals
def frac(x):
    """Exact Fraction of a python float / int / Fraction."""
    if isinstance(x, Fraction):
        return x
    if isinstance(x, int):
        return Fraction(x)
    return Fraction(*float(x).as_integer_ratio())


def qc(x):
    """Coq term of type Qc for an exact rational (float is converted exactly)."""
    f = frac(x)
    return f"(qc ({f.numerator})%Z {f.denominator}%positive)"


def qc_list(xs):
    return "[" + "; ".join(qc(x) for x in xs) + "]"


def qc_mat(rows):
    return "[" + "; ".join(qc_list(r) for r in rows) + "]"


def coq_nat(n):
    return f"{int(n)}%nat"


def coq_z(n):
    return f"({int(n)})%Z"


def coq_bool(b):
    return "true" if b else "false"


def coq_list(items):
    return "[" + "; ".join(items) + "]"


def coq_string(s):
    """Coq string literal (double quotes doubled).  Non-ASCII characters are written as their
    UTF-8 bytes (Coq strings are byte strings); control characters are not representable: use
    coq_bytes for those."""
    assert all(ord(c) >= 32 and ord(c) != 127 for c in s), repr(s)
    return '"' + s.replace('"', '""') + '"'


def coq_bytes(b):
    """list of ascii via byte codes: works for any byte string (UTF-8 encoded text etc.)."""
    if isinstance(b, str):
        b = b.encode("utf-8")
    return "(bytes_of_codes [" + "; ".join(str(c) for c in b) + "]%nat)"


# ----------------------------------------------------------------------------- known findings
def load_known():
    p = os.path.join(VERIF, "known_findings.json")
    if not os.path.exists(p):
        return []
    return json.load(open(p))["findings"]


class Ctx:
    def __init__(self, pid, tier, seed):
        self.pid = pid
        self.tier = tier
        self.seed = seed
        self.rng = random.Random(seed)
        self.t0 = time.time()
        self.work = os.path.join(VERIF, ".work", f"{pid}-{os.getpid()}")
        shutil.rmtree(self.work, ignore_errors=True)
        os.makedirs(self.work)
        self.violations = []       # list of dict(what, replay)
        self.known_hits = []       # list of (key, what)
        self.cov = {
            "obligations": 0, "discharged": 0, "checker_cmd": "", "trusted_base": [],
            "evaluations": 0, "distinct_nontrivial": 0, "rule": "", "samples": [],
            "streams": {},
        }
        self.assumptions = []
        self._distinct = set()
        self._known = [f for f in load_known() if f.get("property") == pid]
        self.quick = tier == "quick"

    # ------------------------------------------------------------------ logging
    def log(self, *a):
        print(f"[{self.pid} {time.time() - self.t0:6.1f}s]", *a, flush=True)

    # ------------------------------------------------------------------ coverage accounting
    def count(self, stream, case_key, nontrivial=True, sample=None):
        """Account one evaluated case of a named stream; case_key identifies distinct cases."""
        s = self.cov["streams"].setdefault(stream, {"evaluations": 0, "distinct_nontrivial": 0})
        s["evaluations"] += 1
        self.cov["evaluations"] += 1
        if nontrivial:
            h = hashlib.sha1((stream + "|" + repr(case_key)).encode()).digest()[:10]
            if h not in self._distinct:
                self._distinct.add(h)
                s["distinct_nontrivial"] += 1
                self.cov["distinct_nontrivial"] += 1
        if sample is not None and len(self.cov["samples"]) < 12 and \
                sum(1 for x in self.cov["samples"] if x.get("stream") == stream) < 2:
            self.cov["samples"].append({"stream": stream, "case": sample})

    def hist(self, stream, key):
        s = self.cov["streams"].setdefault(stream, {"evaluations": 0, "distinct_nontrivial": 0})
        h = s.setdefault("histogram", {})
        h[str(key)] = h.get(str(key), 0) + 1

    # ------------------------------------------------------------------ findings
    def violation(self, what, replay, found_input=True):
        """Record a violation with its replay object (a JSON-able dict)."""
        n = len(self.violations)
        os.makedirs(os.path.join(VERIF, "replay"), exist_ok=True)
        path = os.path.join(VERIF, "replay", f"{self.pid}-{self.seed}-{n}.json")
        obj = {"property": self.pid, "what": what, "found_failing_input": bool(found_input),
               "tier": self.tier, "seed": self.seed, "replay": replay}
        with open(path, "w") as f:
            json.dump(obj, f, indent=1, default=str)
        self.violations.append({"what": what, "replay": path, "found_input": found_input})
        tail = "" if found_input else " no-failing-input-found"
        print(f"VIOLATION property={self.pid} replay={path}{tail}", flush=True)
        self.log("  ->", what)

    def finding(self, key, what, replay):
        """A property failure on the real code identified by `key`.  If the key is listed as
        known (status 'known') it is reported as KNOWN-FINDING, otherwise as a VIOLATION.
        'fixed' entries suppress nothing."""
        for f in self._known:
            if f.get("status") == "known" and f.get("key") == key:
                if key not in [k for k, _ in self.known_hits]:
                    print(f"KNOWN-FINDING: property={self.pid} {key}: {f.get('what', what)}", flush=True)
                    self.known_hits.append((key, what))
                return
        self.violation(f"{key}: {what}", replay, True)

    def known_keys(self):
        return [f["key"] for f in self._known if f.get("status") == "known"]

    def check_known_still_fail(self, observed_keys):
        """A listed known finding that no longer reproduces is only logged (it may have been
        repaired); it never raises an alarm."""
        for k in self.known_keys():
            if k not in observed_keys:
                self.log(f"note: known finding {k} did not reproduce in this run")

    # ------------------------------------------------------------------ Coq
    def coq_make(self, targets, timeout=900):
        """(Re)build .vo targets (paths relative to /verif/coq) under a lock. -> (ok, log)"""
        os.makedirs(os.path.join(VERIF, ".work"), exist_ok=True)
        with open(os.path.join(VERIF, ".work", "coq.lock"), "w") as lk:
            fcntl.flock(lk, fcntl.LOCK_EX)
            rc, out = sh(["bash", os.path.join(VERIF, "tools", "coq_prepare.sh")], timeout=120)
            if rc != 0:
                return False, out
            rc, out = sh(["timeout", str(timeout), "make", "-j", str(min(NPROC, 8)), "-f",
                          "Makefile.coq"] + list(targets), cwd=COQ, timeout=timeout + 30)
        return rc == 0, out

    def theorems_in(self, relpath):
        txt = open(os.path.join(COQ, relpath)).read()
        txt = re.sub(r"\(\*.*?\*\)", "", txt, flags=re.S)
        return re.findall(r"^\s*(?:Theorem|Corollary)\s+([A-Za-z_][A-Za-z0-9_']*)", txt, flags=re.M)

    def hygiene(self, relpaths):
        bad = []
        for rp in relpaths:
            p = os.path.join(COQ, rp)
            if not os.path.exists(p):
                bad.append(f"{rp}: missing")
                continue
            txt = open(p).read()
            txt_nc = re.sub(r"\(\*.*?\*\)", lambda m: " " * len(m.group(0)), txt, flags=re.S)
            for i, line in enumerate(txt_nc.split("\n"), 1):
                if HYGIENE_RE.search(line):
                    bad.append(f"{rp}:{i}: {line.strip()}")
        return bad

    def coq_run(self, name, text, timeout=300):
        """Compile a scratch file in the work dir; -> (rc, output)."""
        path = os.path.join(self.work, name + ".v")
        with open(path, "w") as f:
            f.write(text)
        rc, out = sh(["timeout", str(timeout), "coqc"] + COQFLAGS + ["-Q", self.work, "Scratch", path],
                     cwd=self.work, timeout=timeout + 20)
        return rc, out

    def print_assumptions(self, module, names):
        """-> dict name -> text printed by `Print Assumptions name`."""
        res = {}
        body = f"Require Import {module}.\n" + "".join(
            f'Goal True. idtac "@@BEGIN {n}". exact I. Qed.\nPrint Assumptions {n}.\n' for n in names)
        rc, out = self.coq_run("Assumptions_" + self.pid, body, timeout=600)
        if rc != 0:
            return None, out
        parts = re.split(r"@@BEGIN (\S+)\n", out)
        for i in range(1, len(parts) - 1, 2):
            res[parts[i]] = parts[i + 1].strip()
        return res, out

    def proofs(self, slice_files, props_rel, module, extra_targets=()):
        """Standard proof step: hygiene + build + Print Assumptions for every Theorem of props_rel.
        Returns (ok, info).  On failure nothing is reported here: the caller searches for a
        failing input first (DESIGN section 3) and then calls proof_failure()."""
        info = {"hygiene": [], "build_ok": False, "log_tail": "", "assumptions": {}}
        bad = self.hygiene(slice_files)
        info["hygiene"] = bad
        ok, log = self.coq_make([props_rel.replace(".v", ".vo")] + list(extra_targets))
        info["build_ok"] = ok
        info["log_tail"] = log[-3000:]
        names = self.theorems_in(props_rel) if os.path.exists(os.path.join(COQ, props_rel)) else []
        self.cov["obligations"] += len(names)
        self.cov["theorems"] = self.cov.get("theorems", []) + names
        self.cov["checker_cmd"] = (f"make -f Makefile.coq {props_rel.replace('.v', '.vo')} (coqc 8.16.1, full .vo build) ; "
                                   f"coqc Print Assumptions for each Theorem of {props_rel}")
        if ok and not bad and names:
            assm, out = self.print_assumptions(module, names)
            if assm is None:
                info["build_ok"] = False
                info["log_tail"] = out[-3000:]
                return False, info
            info["assumptions"] = assm
            self.cov["discharged"] += len(names)
            axioms = sorted({ln.split(":")[0].strip() for t in assm.values()
                             if "Closed under the global context" not in t
                             for ln in t.split("\n") if re.match(r"^[A-Za-z_][\w.']*\s*:", ln)})
            self.cov["axioms_print_assumptions"] = sorted(set(self.cov.get("axioms_print_assumptions", [])) | set(axioms))
            self.cov["closed_theorems"] = self.cov.get("closed_theorems", 0) + sum(
                1 for t in assm.values() if "Closed under the global context" in t)
            if not self.quick:
                # thorough tier: independent re-check of the compiled closure with coqchk
                rc, out = sh(["timeout", "1500", "coqchk", "-o", "-silent", "-Q", COQ, "AV", module],
                             cwd=COQ, timeout=1600)
                summ = out[out.find("CONTEXT SUMMARY"):] if "CONTEXT SUMMARY" in out else out[-1500:]
                self.cov["coqchk"] = {"module": module, "rc": rc, "summary": summ.strip()[:3000]}
                self.cov["checker_cmd"] += f" ; coqchk -o -Q {COQ} AV {module}"
                if rc != 0:
                    info["build_ok"] = False
                    info["log_tail"] = "coqchk failed:\n" + out[-3000:]
                    return False, info
            return True, info
        return False, info

    def proof_failure(self, info, found_any_input):
        """Report a broken proof obligation when the search found no failing input."""
        if found_any_input:
            return
        what = "proof obligations no longer check"
        if info["hygiene"]:
            what = "forbidden construct in Coq development: " + "; ".join(info["hygiene"][:5])
        self.violation(what, {"kind": "proof-obligation", "hygiene": info["hygiene"],
                              "coq_log_tail": info["log_tail"]}, found_input=False)

    def coq_bad_indices(self, preamble, terms, per_file=300, timeout=600, name="cases"):
        """Each term is a Coq expression of type bool (true = model agrees with the implementation).
        Returns (failing global indices, error text or None).  Terms are evaluated with vm_compute
        in shards compiled in parallel; only the failing index list is printed by Coq."""
        shards = [terms[i:i + per_file] for i in range(0, len(terms), per_file)]

        def one(k):
            body = preamble + "\nDefinition results : list bool := [\n  " + ";\n  ".join(shards[k]) + \
                "\n].\nDefinition bad := Eval vm_compute in (bad_idx results).\n" \
                "Goal True. let b := eval unfold bad in bad in idtac \"@@BAD\" b. exact I. Qed.\n"
            rc, out = self.coq_run(f"{name}_{k}", body, timeout=timeout)
            if rc != 0:
                return k, None, out
            m = re.search(r"@@BAD\s*(.*?)\s*$", out, flags=re.S)
            if not m:
                return k, None, out
            idx = [int(x) for x in re.findall(r"\d+", m.group(1).replace("%nat", ""))]
            return k, idx, None

        bad, err = [], None
        with ThreadPoolExecutor(max_workers=min(NPROC, 12)) as ex:
            for k, idx, e in ex.map(one, range(len(shards))):
                if idx is None:
                    err = (err or "") + f"\nshard {k}: {e[-2000:]}"
                else:
                    bad += [k * per_file + i for i in idx]
        return sorted(bad), err

    def coq_eval_strings(self, preamble, terms, per_file=200, timeout=600, name="eval"):
        """Each term is a Coq expression of type `string` (std Coq String).  Returns the list of
        python strings (or None, err).  Output is printed one result per idtac line."""
        shards = [terms[i:i + per_file] for i in range(0, len(terms), per_file)]

        def one(k):
            lines = [preamble]
            for i, t in enumerate(shards[k]):
                lines.append(f"Definition r{i} := Eval vm_compute in ({t}).")
                lines.append(f'Goal True. let b := eval unfold r{i} in r{i} in idtac "@@R" b. exact I. Qed.')
            rc, out = self.coq_run(f"{name}_{k}", "\n".join(lines) + "\n", timeout=timeout)
            if rc != 0:
                return k, None, out
            res = re.findall(r'@@R\s*"((?:[^"]|"")*)"', out, flags=re.S)
            if len(res) != len(shards[k]):
                return k, None, out
            return k, [r.replace('""', '"') for r in res], None

        outs, err = [], None
        with ThreadPoolExecutor(max_workers=min(NPROC, 12)) as ex:
            for k, r, e in ex.map(one, range(len(shards))):
                if r is None:
                    err = (err or "") + f"\nshard {k}: {e[-2000:]}"
                    outs += [None] * len(shards[k])
                else:
                    outs += r
        return outs, err

    # ------------------------------------------------------------------ end of run
    def finish(self, trusted_base, assumptions, level="proof", rule=None):
        self.cov["trusted_base"] = trusted_base
        if rule:
            self.cov["rule"] = rule
        if not self.cov["samples"]:
            self.cov["samples"] = [{"note": "no case stream ran"}]
        self.cov["known_findings_reported"] = [k for k, _ in self.known_hits]
        ev = {
            "property_id": self.pid, "tier": self.tier, "seed": self.seed, "level": level,
            "coverage": self.cov, "assumptions": assumptions,
            "wall_s": round(time.time() - self.t0, 2), "violations": len(self.violations),
        }
        os.makedirs(os.path.join(VERIF, "evidence"), exist_ok=True)
        with open(os.path.join(VERIF, "evidence", f"{self.pid}.json"), "w") as f:
            json.dump(ev, f, indent=1, default=str)
        shutil.rmtree(self.work, ignore_errors=True)
        self.log(f"done: obligations={self.cov['obligations']} discharged={self.cov['discharged']} "
                 f"evaluations={self.cov['evaluations']} distinct={self.cov['distinct_nontrivial']} "
                 f"violations={len(self.violations)} known={len(self.known_hits)}")
        return 1 if self.violations else 0


# ----------------------------------------------------------------------------- source pins
def _norm_func_src(path, qualname):
    """Normalised source of a function/method/class (docstrings and logger calls removed), or None."""
    import ast
    tree = ast.parse(open(path).read())
    nodes = [tree]
    for part in qualname.split("."):
        found = []
        for node in nodes:
            it = ast.walk(node) if node is tree else ast.iter_child_nodes(node)
            # ALL sibling definitions with that name (a property's getter, setter and deleter)
            found += [n for n in it if isinstance(n, (ast.FunctionDef, ast.AsyncFunctionDef, ast.ClassDef))
                      and n.name == part]
            if found and node is tree:
                found = found[:1] if isinstance(found[0], ast.ClassDef) else found
        if not found:
            return None
        nodes = found

    class Strip(ast.NodeTransformer):
        def _body(self, n):
            self.generic_visit(n)
            b = n.body
            if b and isinstance(b[0], ast.Expr) and isinstance(getattr(b[0], "value", None), ast.Constant) \
                    and isinstance(b[0].value.value, str):
                b = b[1:]
            b = [st for st in b if not (isinstance(st, ast.Expr) and isinstance(st.value, ast.Call)
                                        and ast.unparse(st.value.func).startswith("logger."))]
            n.body = b or [ast.Pass()]
            return n
        visit_FunctionDef = _body
        visit_AsyncFunctionDef = _body
        visit_ClassDef = _body

        def visit_If(self, n):
            self.generic_visit(n)
            n.body = [st for st in n.body if not (isinstance(st, ast.Expr) and isinstance(st.value, ast.Call)
                                                  and ast.unparse(st.value.func).startswith("logger."))] or [ast.Pass()]
            return n
    return "\n".join(ast.unparse(Strip().visit(n)) for n in nodes)


def source_pins(pid, pins, update=False):
    """pins: list of (path relative to the repo, qualified name) of the functions a HAND-WRITTEN model
    was written from.  The normalised source hash of each is stored in /verif/coq/<pid>/pins.json
    (committed).  Returns the list of pins whose source changed (or disappeared) since the model
    was written -- the tie of a hand model to the code is then no longer shown and the check must
    search for a failing input and report (DESIGN section 3).  `update=True` rewrites the file
    (only the lead does this, after re-syncing the model to an accepted change of /repo)."""
    pfile = os.path.join(COQ, pid, "pins.json")
    cur = {}
    for rel, qn in pins:
        src = _norm_func_src(os.path.join(REPO, rel), qn)
        cur[f"{rel}::{qn}"] = None if src is None else hashlib.sha256(src.encode()).hexdigest()
    if update or not os.path.exists(pfile):
        if update:
            json.dump(cur, open(pfile, "w"), indent=1, sort_keys=True)
            return []
        return [k + " (no pins.json recorded)" for k in cur]
    old = json.load(open(pfile))
    return sorted(k for k in cur if old.get(k) != cur[k])


def shrink_list(xs, fails, max_steps=200):
    """Delta-debugging style list minimisation: smallest sub-list for which fails(sub) is True."""
    xs = list(xs)
    n = 2
    steps = 0
    while len(xs) >= 2 and steps < max_steps:
        chunk = max(1, len(xs) // n)
        reduced = False
        for i in range(0, len(xs), chunk):
            cand = xs[:i] + xs[i + chunk:]
            steps += 1
            if cand and fails(cand):
                xs = cand
                n = max(n - 1, 2)
                reduced = True
                break
        if not reduced:
            if chunk == 1:
                break
            n = min(n * 2, len(xs))
    return xs
