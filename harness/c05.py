"""C05 — reaction bookkeeping: balance, classification and energy differences (DESIGN 6/C05).

Tie: gen/C05_Gen.v (delta_type parsing tables, the combining arithmetic of delta, the barrierless
constant, the balance checks, the constructor's check order, the classify rules) and gen/C06_Gen.v
(unit table + conversion arithmetic) are regenerated from the repository on every run and the theorems
of coq/C05/Props.v are re-checked against them; the hand-written interpreters of coq/C05/Model.v are
run against autode.reactions.Reaction on generated reactions (constructor outcome, type, delta for
~25 spellings, switch / save / load histories).  Independently of the model, property-level oracles
(exact Fraction arithmetic from the runtime unit objects) are evaluated on the real code; each failure
is a concrete replayable reaction.
"""
import json
import math
import os
import sys
import time
from fractions import Fraction

from common import REPO, VERIF, coq_bool, coq_list, coq_string, coq_z, frac, qc, sh, source_pins

TRUSTED_BASE = [
    "Coq 8.16.1 kernel + coqc (vm_compute only for finite sweeps over generated tables and concrete witnesses; no native_compute)",
    "Print Assumptions: every C05 theorem is closed under the global context (no axioms)",
    "translator tr/translate_c05.py (Python ast -> gen/C05_Gen.v; fail-closed) which also runs tr/translate_units.py into C05's own gen/C05_Units_Gen.v",
    "hand model coq/C05/Model.v (table interpreters, _check_solvent, Species.energy/enthalpy/free_energy, Energies.append + the energy setter, "
    "the choice of the lowest TS, switch / ts setter / in-place updates / save / load), tied by the correspondence streams and source pins",
    "pickle (save/load) is an ORACLE: the model's save is the identity on the modelled attributes; np/min, str.lower/replace/in, Python sum/max: modelled, exercised, not verified",
    "exact rationals stand for IEEE doubles up to rounding: values compared at 1e-9 relative (absolute below 1 Ha)",
]
ASSUMPTIONS = [
    "delta_type strings are ASCII plus U+2021 (double dagger) and other caseless non-ASCII characters; str.lower() is modelled on ASCII letters only "
    "(only U+0130 and U+212A lower-case into ASCII, neither into a letter the parser looks for)",
    "Solvents are already resolved: the model takes pool indices; aliases (h2o, DCM ...) are exercised, an unknown name raises SolventNotFound before any check (outside the model)",
    "Energies are finite numbers (NaN / inf are not representable in Qc and not generated)",
    "Reaction() with no molecules returns the bare int 0 from delta; the model identifies it with 0 Ha (the stream accepts a bare number only there)",
    "Species.energies holds Energy objects of the six concrete classes; `species.energy = v` and Energies.append (de-duplication within 1.59e-5 Ha) are modelled",
    "pickle reproduces every attribute of Reaction.__dict__ (oracle); the 1 s checkpoint threshold is exercised with a substituted clock",
    "Arithmetic is exact over Q; IEEE rounding is outside the theorems",
]
RULE = ("seeded structured generator: reactant/product multisets (0-4 x 0-4 species, mostly 1-2 -> 1-3) built from atom lists, "
        "charges -3..3, multiplicities 1..5, solvents from a 4-element pool incl. None (all-gas / all-same / mixed / reaction-level "
        "override), products balanced by construction then perturbed in one attribute with probability ~0.4, energies "
        "(potential, H and G contributions, occasionally missing or duplicated) as dyadic rationals in the five energy units, "
        "0-3 transition-state stubs; every reaction is queried with ~25 delta_type spellings + random strings over the "
        "parser's alphabet, and is taken through a history of 1-5 switch / save+load / ts=None / ts=TS / tss.append operations "
        "/ invalid ts / in-place energy replacement with len(tss), is_barrierless, ts and four deltas observed after every step; "
        "30% of the species additionally get 1-3 `species.energy = v` assignments (PotentialEnergy / other Energy classes / float / "
        "str / None, repeated values, all five units); solvents by alias; 12 reaction SMILES through the SMILES constructor. A case is non-trivial unless the reaction is the "
        "empty reaction; distinct by (stream, reaction spec, spelling / history)")

# Functions the HAND-WRITTEN parts of coq/C05/Model.v (and the structural reference oracle of this file) were
# written from.  Not listed, because tr/translate_c05.py matches every statement of them (fail-closed) or regenerates
# them: Reaction.delta, _estimated_barrierless_delta, _check_balance, is_barrierless, ts (getter and setter), save,
# load, reaction_types.classify, ReactionType.__eq__, TransitionStates.lowest_energy, utils.checkpoint_rxn_profile_step,
# values.Energy.__eq__, values.Energies.append, the Species.energy SETTER (its getter is pinned below);
# values._to and the unit tables (tr/translate_units.py).  Reaction.__init__ and switch_reactants_products are only
# partly matched by the translator (order of the checks / the swap statement), so they are pinned as well.
PINS = ([("autode/reactions/reaction.py", q) for q in (
            "Reaction.__init__", "Reaction._init_from_molecules", "Reaction._init_from_smiles", "Reaction._check_solvent",
            "Reaction._check_names",
            "Reaction.switch_reactants_products", "Reaction.from_checkpoint", "Reaction.__str__")] +
        [("autode/reactions/reaction_types.py", "ReactionType.__init__")] +
        [("autode/species/species.py", q) for q in (
            "Species.__init__", "Species.charge", "Species.mult", "Species.solvent", "Species.energy",
            "Species.h_cont", "Species.g_cont", "Species.free_energy", "Species.enthalpy")] +
        [("autode/atoms.py", "AtomCollection.n_atoms")] +
        [("autode/values.py", q) for q in (
            "Energies.__init__", "Energies._next", "Energies.last", "Energy.__init__", "Value.__init__", "Value.__new__",
            "Value._other_same_units", "Value._like_self_from_float", "Value.__add__", "Value.__radd__", "Value.__sub__",
            "Value.__gt__", "Value.__lt__", "Value.to")] +
        [("autode/units.py", "Unit.__eq__"), ("autode/solvent/solvents.py", "get_solvent"),
         ("autode/solvent/solvents.py", "Solvent.__eq__")])

# The slice shares only lib/ and the record type C06/Base.v with other properties: the unit table / conv are C05's own
# output of tr/translate_units.py (gen/C05_Units_Gen.v) and the conversion algebra is in C05/Units.v.
SLICE = ["lib/Sums.v", "lib/QcInst.v", "C06/Base.v", "gen/C05_Units_Gen.v", "C05/Units.v",
         "C05/Base.v", "gen/C05_Gen.v", "C05/Model.v", "C05/Lemmas.v", "C05/Props.v", "C05/Corr.v"]
PRE = ("From Coq Require Import ZArith QArith Qcanon List String Bool.\nFrom AV.lib Require Import QcInst.\n"
       "From AV.C06 Require Import Base.\nFrom AV.gen Require Import C05_Units_Gen C05_Gen.\n"
       "From AV.C05 Require Import Units Base Model Corr.\nImport ListNotations.\nOpen Scope string_scope.\n")

POOL = [None, "water", "dcm", "thf"]
ECLS = {"PotentialEnergy": "EPot", "EnthalpyCont": "EHcont", "FreeEnergyCont": "EGcont",
        "Energy": "EBase", "Enthalpy": "EEnth", "FreeEnergy": "EFreeE"}
ALIASES = {"water": ["water", "h2o", "WATER"], "dcm": ["dcm", "dichloromethane", "DCM"], "thf": ["thf", "tetrahydrofuran", "THF"]}
TYPE_TABLE = {(0, 0): None, (2, 1): "addition", (1, 2): "dissociation", (1, 3): "dissociation",
              (2, 2): "substitution", (2, 3): "elimination", (1, 1): "rearrangement"}
# the documented spellings (docstring of Reaction.delta + the e_type names it is called with)
DOC = {}
for _k, _names in (("energy", ["E", "energy"]), ("enthalpy", ["H", "enthalpy"]),
                   ("free_energy", ["G", "free energy", "free_energy"])):
    for _n in _names:
        DOC[_n] = (_k, False)
    _s = _names[0]
    for _d in (_s + "‡", _s + " ddagger", _s + " double dagger"):
        DOC[_d] = (_k, True)
EXTRA_SPELLINGS = ["e", "h", "g", "ΔE", "ΔG‡", "Free Energy", "free energy‡", "Gibbs free energy",
                   "H DDAGGER", "", "x", "‡", "ddagger", "double dagger", "dagger", "free",
                   "ddouble daggerdagger", "potential energy", "free enthalpy"]
FUZZ_ALPHABET = ["e", "h", "g", "f", "r", "d", "a", "o", "u", "b", "l", " ", "_", "‡", "E", "H", "G", "D",
                 "free", "ddagger", "double dagger", "dagger", "energy", "x", "n", "t", "p", "y", "i", "c", "s", "m",
                 "enthalpy", "potential", "gibbs", "Δ"]
DOC6 = ["E", "H", "G", "E‡", "H‡", "G‡"]
BARRIERLESS_HA = Fraction(694, 100000)     # 0.00694 Ha = 4.35 kcal mol-1 (the documented estimate)


def relclose(a, b, tol=1e-9):
    return abs(a - b) <= tol * max(1.0, abs(b))


# ------------------------------------------------------------------------------------------ implementation side
class Impl:
    def __init__(self):
        from autode import values as val
        from autode.atoms import Atom
        from autode.reactions import reaction_types
        from autode.reactions.reaction import Reaction
        from autode.solvent.solvents import get_solvent
        from autode.species.molecule import Product, Reactant
        from autode.transition_states.transition_state import TransitionState
        from autode.transition_states.ts_guess import TSguess
        self.val, self.Atom, self.Reaction, self.Reactant, self.Product = val, Atom, Reaction, Reactant, Product
        self.TransitionState, self.TSguess, self.reaction_types = TransitionState, TSguess, reaction_types
        self.units = {u.name: u for u in val.Energy.implemented_units}
        self.solvent_id = {get_solvent(n, kind="implicit").name: i for i, n in enumerate(POOL) if n is not None}

    def species(self, cls, sp, name):
        atoms = [self.Atom(sym, x=0.9 * i) for i, sym in enumerate(sp["atoms"])]
        m = cls(name=name, atoms=atoms, charge=sp["charge"], mult=sp["mult"],
                solvent_name=sp.get("solvent_alias") or sp["solvent"])
        self.set_energies(m, sp["energies"])
        self.supply(m, sp.get("supply", []))
        return m

    def supply(self, m, supplies):
        """Energies supplied the public way: `species.energy = None | float | str | Energy of any class, any unit`."""
        for v in supplies:
            if v[0] == "None":
                m.energy = None
            elif v[0] == "float":
                m.energy = float(v[1])
            elif v[0] == "str":
                m.energy = repr(float(v[1]))
            else:
                m.energy = getattr(self.val, v[0])(v[1], units=v[2])

    def set_energies(self, m, entries):
        m.energies = self.val.Energies(*[getattr(self.val, c)(x, units=u) for c, x, u in entries])

    def ts(self, sp, name):
        atoms = [self.Atom(sym, x=0.9 * i) for i, sym in enumerate(sp["atoms"] or ["H"])]
        t = self.TransitionState(self.TSguess(atoms=atoms, name=name, charge=sp["charge"], mult=sp["mult"]))
        self.set_energies(t, sp["energies"])
        self.supply(t, sp.get("supply", []))
        return t

    def build(self, spec):
        """-> ('ok', rxn) | ('err', exception)"""
        reacs = [self.species(self.Reactant, sp, f"r{i}") for i, sp in enumerate(spec["reacs"])]
        prods = [self.species(self.Product, sp, f"p{i}") for i, sp in enumerate(spec["prods"])]
        try:
            rxn = self.Reaction(*reacs, *prods, name="rxn", solvent_name=spec["solvent_name"])
        except Exception as e:  # noqa
            return "err", e
        for i, sp in enumerate(spec["tss"]):
            rxn.tss.append(self.ts(sp, f"ts{i}"))
        return "ok", rxn

    def sid(self, solvent):
        return None if solvent is None else self.solvent_id.get(solvent.name, 99)

    def delta(self, rxn, s):
        """-> ('val', float, unit name, class name, is_estimated) | ('none',) | ('err', exception name)"""
        try:
            d = rxn.delta(s)
        except Exception as e:  # noqa
            return ("err", type(e).__name__)
        if d is None:
            return ("none",)
        if isinstance(d, self.val.Energy):
            return ("val", float(d), d.units.name, type(d).__name__, bool(d.is_estimated))
        return ("val", float(d), "", "", False)

    def observe(self, rxn, spellings):
        """Everything the property talks about, exactly (floats as Fractions)."""
        out = {"type": None if rxn.type is None else rxn.type.name, "solvent": self.sid(rxn.solvent),
               "charge": getattr(rxn, "charge", None), "n": (len(rxn.reacs), len(rxn.prods), len(rxn.tss))}
        for s in spellings:
            d = self.delta(rxn, s)
            out["delta:" + s] = tuple(frac(x) if isinstance(x, float) else x for x in d)
        return out


def err_tag(e):
    n, m = type(e).__name__, str(e)
    if n == "SolventsDontMatch":
        return "differ" if "do not match" in m else ("mixed" if "Ill-determined" in m else m)
    if n == "ReactionFormationFailed" or (n == "NotImplementedError" and m.startswith("Unsupported reaction type")):
        return ""
    return m


# ------------------------------------------------------------------------------------------ generator
def dyadic_in(rng, unit, lo, hi):
    """k/8 (in Ha-sized steps) scaled by the power of two nearest the unit's factor: an exactly
    representable double with few significant bits in any unit."""
    k = rng.randint(lo * 8, hi * 8)
    return (k / 8.0) * 2.0 ** round(math.log2(unit.times))


def gen_energies(rng, im, full_prob=0.8, big=True):
    names = list(im.units)
    out = []

    def one(cls, lo, hi):
        u = rng.choice(names)
        return [cls, dyadic_in(rng, im.units[u], lo, hi), u]
    if rng.random() < 0.12:
        out.append(one(rng.choice(["Energy", "Enthalpy", "FreeEnergy"]), -5, 5))
    if rng.random() < full_prob + 0.1:
        if rng.random() < 0.15:
            out.append(one("PotentialEnergy", -40, 40))     # an older energy: the last one counts
        out.append(one("PotentialEnergy", -40 if big else -4, 40 if big else 4))
    for cls in ("EnthalpyCont", "FreeEnergyCont"):
        if rng.random() < full_prob:
            out.append(one(cls, -2, 2))
    if rng.random() < 0.3:
        rng.shuffle(out)
    return out


def gen_supply(rng, im, energies):
    """1-3 assignments `species.energy = v`: a new value, or physically the same as an energy already held /
    supplied earlier (possibly written in another unit), as a PotentialEnergy, another Energy class, a float, a str."""
    names, out = list(im.units), []
    held = [(x, u) for c, x, u in energies if c == "PotentialEnergy"]
    for _ in range(rng.randint(1, 3)):
        k = rng.random()
        if k < 0.1:
            out.append(["None"])
            continue
        u = rng.choice(names)
        if held and k < 0.4:                       # the same physical energy again (re-computed), maybe in another unit
            x0, u0 = rng.choice(held)
            x = float(frac(x0) * (frac(im.units[u].times) / frac(im.units[u0].times)))
        else:
            x = dyadic_in(rng, im.units[u], -40, 40)
        kind = rng.choice(["PotentialEnergy", "PotentialEnergy", "Energy", "FreeEnergy", "Enthalpy", "float", "str"])
        if kind in ("float", "str"):
            x = float(frac(x) * (frac(im.units["Ha"].times) / frac(im.units[u].times)))     # a bare number means Hartree
            out.append([kind, x])
            held.append((x, "Ha"))
        else:
            out.append([kind, x, u])
            held.append((x, u))
    return out


def split_total(rng, total, n, lo, hi):
    """n integers in [lo,hi] summing to total when possible (else best effort)."""
    parts = [max(lo, min(hi, total // n if n else 0)) for _ in range(n)]
    for _ in range(40):
        diff = total - sum(parts)
        if diff == 0:
            break
        i = rng.randrange(n)
        step = 1 if diff > 0 else -1
        if lo <= parts[i] + step <= hi:
            parts[i] += step
    for _ in range(n):
        i, j = rng.randrange(n), rng.randrange(n)
        if i != j and parts[i] + 1 <= hi and parts[j] - 1 >= lo:
            parts[i] += 1
            parts[j] -= 1
    return parts


def gen_reaction(rng, im, full):
    r = rng.random()
    if r < 0.80:
        nr, np_ = rng.choice([(1, 1), (1, 1), (2, 1), (1, 2), (1, 3), (2, 2), (2, 3)])
    elif r < 0.84:
        nr, np_ = 0, 0
    else:
        nr, np_ = rng.randint(0, 4), rng.randint(0, 4)
    maxat = 6 if full else 4
    full_prob = rng.choice([1.0, 1.0, 0.85, 0.6])
    syms = ["H", "C", "O", "N"]

    def sp(n, charge, mult, solvent):
        d = {"atoms": [rng.choice(syms) for _ in range(n)], "charge": charge, "mult": mult, "solvent": solvent,
             "energies": gen_energies(rng, im, full_prob)}
        if solvent is not None and rng.random() < 0.5:
            d["solvent_alias"] = rng.choice(ALIASES[solvent])
        if rng.random() < 0.3:
            d["supply"] = gen_supply(rng, im, d["energies"])
        return d
    mode = rng.random()
    solvent_name = None
    if mode < 0.40:
        pick = lambda: None                                                   # noqa: E731
    elif mode < 0.68:
        s0 = rng.choice(POOL[1:])
        pick = lambda: s0                                                     # noqa: E731
    elif mode < 0.82:
        solvent_name = rng.choice(POOL[1:])
        pick = lambda: rng.choice(POOL)                                       # noqa: E731
    else:
        pick = lambda: rng.choice(POOL)                                       # noqa: E731
    reacs = [sp(rng.randint(0, maxat), rng.randint(-3, 3), rng.randint(1, 5), pick()) for _ in range(nr)]
    prods = []
    if np_:
        ats = split_total(rng, sum(len(s["atoms"]) for s in reacs), np_, 0, 3 * maxat)
        chs = split_total(rng, sum(s["charge"] for s in reacs), np_, -3 - 2 * nr, 3 + 2 * nr)
        ups = split_total(rng, sum(s["mult"] - 1 for s in reacs), np_, 0, 4 + 4 * nr)
        prods = [sp(ats[i], chs[i], ups[i] + 1, pick()) for i in range(np_)]
        if rng.random() < 0.4:
            i, what = rng.randrange(np_), rng.choice(["atoms", "charge", "mult", "solvent", "solvent"])
            if what == "atoms":
                prods[i]["atoms"] = prods[i]["atoms"] + ["H"] if rng.random() < 0.5 or not prods[i]["atoms"] else prods[i]["atoms"][:-1]
            elif what == "charge":
                prods[i]["charge"] += rng.choice([-2, -1, 1, 2])
            elif what == "mult":
                prods[i]["mult"] = max(1, prods[i]["mult"] + rng.choice([-2, -1, 1, 2, 2]))
            else:
                prods[i]["solvent"] = rng.choice(POOL)
                prods[i].pop("solvent_alias", None)
    nts = rng.choice([0, 0, 0, 1, 1, 1, 2, 2, 3]) if nr and np_ else rng.choice([0, 0, 1])
    tss = []
    for _ in range(nts):
        t = sp(sum(len(s["atoms"]) for s in reacs), sum(s["charge"] for s in reacs), 1, None)
        t["energies"] = gen_energies(rng, im, rng.choice([1.0, 1.0, 1.0, 0.7]))
        if "supply" in t:
            t["supply"] = gen_supply(rng, im, t["energies"])
        tss.append(t)
    return {"solvent_name": solvent_name, "reacs": reacs, "prods": prods, "tss": tss}


def gen_spellings(rng, n_fuzz, n_extra=6):
    out = list(DOC) + rng.sample(EXTRA_SPELLINGS, min(n_extra, len(EXTRA_SPELLINGS)))
    for _ in range(n_fuzz):
        out.append("".join(rng.choice(FUZZ_ALPHABET) for _ in range(rng.randint(1, 5))))
    return out


# ------------------------------------------------------------------------------------------ independent specification
def ha(im, x, uname):
    """Exact value in Hartree from the runtime unit object (linear units: x / times)."""
    u, t = im.units[uname], im.units["Ha"]
    return frac(x) * (frac(t.times) / frac(u.times)) + (frac(u.add) - frac(t.add))


def last_of(sp, cls):
    for c, x, u in reversed(sp["energies"]):
        if c == cls:
            return (x, u)
    return None


def potential_of(sp):
    """(value, unit) of the potential energy: the energy assigned last through `species.energy = v` (a bare number
    is Hartree), else the last PotentialEnergy of the list the species was given."""
    for v in reversed(sp.get("supply", [])):
        if v[0] == "None":
            continue
        return (v[1], "Ha") if v[0] in ("float", "str") else (v[1], v[2])
    return last_of(sp, "PotentialEnergy")


def contrib(im, sp, kind):
    """E, H = E + H_cont or G = E + G_cont of a species in Ha (Fraction), None if a contribution is missing."""
    e = potential_of(sp)
    if e is None:
        return None
    tot = ha(im, *e)
    if kind != "energy":
        c = last_of(sp, "EnthalpyCont" if kind == "enthalpy" else "FreeEnergyCont")
        if c is None:
            return None
        tot += ha(im, *c)
    return tot


def spec_ctor(spec):
    """The property's reading: (should succeed, set of acceptable exception names otherwise)."""
    rs, ps = spec["reacs"], spec["prods"]
    errs = set()
    nr, np_ = len(rs), len(ps)
    if (nr, np_) not in TYPE_TABLE:
        errs.add("ReactionFormationFailed" if (nr == 0 or np_ == 0) else "NotImplementedError")
    if spec["solvent_name"] is None:
        solv = [s["solvent"] for s in rs + ps]
        if len(set(solv)) > 1:
            errs.add("SolventsDontMatch")
    if sum(len(s["atoms"]) for s in rs) != sum(len(s["atoms"]) for s in ps):
        errs.add("UnbalancedReaction")
    if sum(s["charge"] for s in rs) != sum(s["charge"] for s in ps):
        errs.add("UnbalancedReaction")
    if sum(s["mult"] - 1 for s in rs) != sum(s["mult"] - 1 for s in ps):
        errs.add("NotImplementedError")
    return (not errs), errs


def spec_rxn_delta(im, spec, kind, swapped=False):
    rs, ps = (spec["prods"], spec["reacs"]) if swapped else (spec["reacs"], spec["prods"])
    a, b = [contrib(im, s, kind) for s in rs], [contrib(im, s, kind) for s in ps]
    if any(x is None for x in a + b):
        return None
    return sum(b, Fraction(0)) - sum(a, Fraction(0))


def spec_delta(im, spec, kind, ts, swapped=False):
    """-> ('val', Fraction) | ('none',) | ('ambiguous',) for documented kinds"""
    if not ts:
        d = spec_rxn_delta(im, spec, kind, swapped)
        return ("none",) if d is None else ("val", d)
    rs = spec["prods"] if swapped else spec["reacs"]
    if not spec["tss"]:
        d = spec_rxn_delta(im, spec, kind, swapped)
        if d is None:
            return ("none",)
        est = max(Fraction(0), d)
        if (len(spec["reacs"]), len(spec["prods"])) != (1, 1):
            est += BARRIERLESS_HA
        return ("val", est)
    # the lowest transition state = the one of lowest energy (in Hartree) among those that have an energy
    es = [(i, contrib(im, t, "energy")) for i, t in enumerate(spec["tss"])]
    es = [(i, e) for i, e in es if e is not None]
    if not es:
        t = spec["tss"][0]                  # no TS has an energy: whichever is used, its energy is missing
    else:
        lo = min(e for _, e in es)
        cands = [i for i, e in es if e - lo <= Fraction(1, 10**9) * max(1, abs(lo))]
        if len(cands) > 1:
            return ("ambiguous",)
        t = spec["tss"][cands[0]]
    a = [contrib(im, s, kind) for s in rs] + [contrib(im, t, kind)]
    if any(x is None for x in a):
        return ("none",)
    return ("val", a[-1] - sum(a[:-1], Fraction(0)))


def matches_other_ts(im, spec, kind, got, exclude_lowest=True):
    """Is `got` the barrier computed with a transition state of the list (other than the lowest one)?"""
    rs = [contrib(im, s, kind) for s in spec["reacs"]]
    if any(x is None for x in rs):
        return False
    es = [(i, contrib(im, t, "energy")) for i, t in enumerate(spec["tss"])]
    es = [(i, e) for i, e in es if e is not None]
    lowest = min(es, key=lambda p: p[1])[0] if es else None
    for i, t in enumerate(spec["tss"]):
        if exclude_lowest and i == lowest:
            continue
        v = contrib(im, t, kind)
        if v is not None and relclose(got, float(v - sum(rs, Fraction(0)))):
            return True
    return False


def reexpress(rng, im, spec):
    """The same reaction with every energy re-expressed in another implemented unit."""
    new = json.loads(json.dumps(spec))
    for grp in ("reacs", "prods", "tss"):
        for sp in new[grp]:
            for e in sp["energies"]:
                v = rng.choice(list(im.units))
                u0, u1 = im.units[e[2]], im.units[v]
                e[1] = float(frac(e[1]) * (frac(u1.times) / frac(u0.times)))
                e[2] = v
            for e in sp.get("supply", []):
                if len(e) == 3:                     # an Energy object of some class: the same quantity in another unit
                    v = rng.choice(list(im.units))
                    u0, u1 = im.units[e[2]], im.units[v]
                    e[1] = float(frac(e[1]) * (frac(u1.times) / frac(u0.times)))
                    e[2] = v
    return new


def setter_oracle(im, spec):
    """`species.energy = v` must leave the species with the physical energy v (a bare number = Hartree), whatever
    class / unit v has and whatever the species held before.  -> list of (key, what, extra)"""
    out = []
    for grp in ("reacs", "prods", "tss"):
        for i, sp in enumerate(spec[grp]):
            if not any(v[0] != "None" for v in sp.get("supply", [])):
                continue
            m = im.ts(sp, "t") if grp == "tss" else im.species(im.Reactant, sp, "m")
            want = ha(im, *potential_of(sp))
            got = None if m.energy is None else float(m.energy.to("Ha"))
            if got is None or not relclose(got, float(want)):
                last = [v for v in sp["supply"] if v[0] != "None"][-1]
                if last[0] in ("Energy", "FreeEnergy", "Enthalpy") and got is not None and relclose(got, float(last[1])):
                    key, why = "Species.energy.setter|unit-dropped", f"the {last[2]} number {last[1]!r} is stored as Hartree"
                else:
                    key, why = "Species.energy.setter|value", "the species does not hold the energy assigned last"
                out.append((key, f"{grp}[{i}]: after energies {sp['energies']} and assignments {sp['supply']} the potential energy is "
                            f"{got!r} Ha, the energy assigned last is {float(want)!r} Ha: {why}", {"group": grp, "index": i}))
    return out


# ------------------------------------------------------------------------------------------ property oracles on the implementation
def oracles(im, spec, spellings, rng, workdir, with_ckpt):
    """-> list of (key, what, replay-extra).  Independent of the Coq model.  An exception nobody documents, raised by
    the implementation on a generated input, is itself a finding (that input is the replay); findings made before it are kept."""
    out = []
    try:
        _oracles(im, spec, spellings, rng, workdir, with_ckpt, out)
    except Exception as e:  # noqa
        import traceback
        where = [ln.strip() for ln in traceback.format_exc().strip().split("\n") if "/autode/" in ln]
        out.append((f"Reaction|unexpected-exception:{type(e).__name__}", f"{type(e).__name__}: {e}" +
                    (f" at {where[-1][:140]}" if where else ""), {}))
    return out


def _oracles(im, spec, spellings, rng, workdir, with_ckpt, out):
    def fail(key, what, **extra):
        out.append((key, what, dict(extra)))
    out += setter_oracle(im, spec)
    setter_bad = bool(out)
    st, rxn = im.build(spec)
    should, errs = spec_ctor(spec)
    nr, np_ = len(spec["reacs"]), len(spec["prods"])
    if st == "err":
        name = type(rxn).__name__
        if should:
            fail("Reaction.__init__|balanced-rejected", f"balanced, solvent-consistent {nr}->{np_} reaction rejected with {name}: {rxn}")
        elif name not in errs:
            fail("Reaction.__init__|wrong-error", f"{nr}->{np_} reaction violating {sorted(errs)} raised {name}: {rxn}")
        return out
    if not should:
        fail("Reaction.__init__|unbalanced-accepted", f"{nr}->{np_} reaction that should raise one of {sorted(errs)} was constructed")
        return out
    tname = None if rxn.type is None else rxn.type.name
    if tname != TYPE_TABLE[(nr, np_)]:
        fail("Reaction.type|table", f"{nr}->{np_} reaction classified as {tname}, expected {TYPE_TABLE[(nr, np_)]}")
    if rxn.charge != sum(s["charge"] for s in spec["reacs"]):
        fail("Reaction.charge", f"reaction charge {rxn.charge} is not the total reactant charge")
    if setter_bad:
        return out          # every delta of this reaction is off for the reason already reported
    # --- delta for the documented spellings
    base = {}
    for s, (kind, ts) in DOC.items():
        got = im.delta(rxn, s)
        base[s] = got
        want = spec_delta(im, spec, kind, ts)
        if want[0] == "ambiguous":
            continue
        multi = ts and len(spec["tss"]) >= 2
        if got[0] == "err":
            if multi and any(contrib(im, t, "energy") is None for t in spec["tss"]):
                fail("Reaction.delta|ts-without-energy-among-several",
                     f"delta({s!r}) raised {got[1]} with {len(spec['tss'])} transition states of which one has no energy "
                     f"(a missing contribution should give None)", spelling=s)
            else:
                fail("Reaction.delta|raises", f"delta({s!r}) raised {got[1]}", spelling=s)
            continue
        if (got[0] == "none") != (want[0] == "none"):
            fail("Reaction.delta|none-iff-missing", f"delta({s!r}) = {got}, but the required contributions are "
                 f"{'missing' if want[0] == 'none' else 'all present'} (expected {want})", spelling=s)
            continue
        if got[0] == "val":
            if not relclose(got[1], float(want[1])):
                if multi and got[1] is not None and matches_other_ts(im, spec, kind, got[1]):
                    fail("TransitionStates.lowest_energy|mixed-units",
                         f"delta({s!r}) = {got[1]!r} Ha but lowest TS minus reactants = {float(want[1])!r} Ha: with TS energies "
                         f"{[potential_of(t) for t in spec['tss']]} the TS is picked by the raw numbers, not by energy",
                         spelling=s)
                elif ts and not spec["tss"]:
                    fail("Reaction.delta|barrierless-estimate", f"delta({s!r}) = {got[1]!r}, diffusion-limit estimate is {float(want[1])!r}", spelling=s)
                else:
                    fail("Reaction.delta|value", f"delta({s!r}) = {got[1]!r} Ha, sum over {'TS' if ts else 'products'} minus sum over "
                         f"reactants = {float(want[1])!r} Ha", spelling=s)
            want_cls = {"energy": "PotentialEnergy", "enthalpy": "Enthalpy", "free_energy": "FreeEnergy"}[kind]
            if got[3] not in ("", want_cls):
                fail("Reaction.delta|class", f"delta({s!r}) returned a {got[3]}, expected {want_cls}", spelling=s)
            if got[2] not in ("", "Ha"):
                fail("Reaction.delta|unit", f"delta({s!r}) returned in {got[2]}", spelling=s)
    # --- no spelling containing 'free' gives a potential energy
    for s in spellings:
        if "free" in s.lower():
            got = im.delta(rxn, s)
            if got[0] == "val" and got[3] == "PotentialEnergy":
                fail("Reaction.delta|free-as-potential", f"delta({s!r}) returned a potential energy", spelling=s)
    # --- unit independence
    spec2 = reexpress(rng, im, spec)
    st2, rxn2 = im.build(spec2)
    if st2 != "ok":
        fail("Reaction.__init__|unit-dependent", "re-expressing energies in other units made construction fail")
    else:
        for s, (kind, ts) in DOC.items():
            a, b = base[s], im.delta(rxn2, s)
            same = a[0] == b[0] and (a[0] != "val" or relclose(a[1], b[1]))
            if not same:
                if (ts and len(spec["tss"]) >= 2 and a[0] == b[0] == "val" and matches_other_ts(im, spec, kind, a[1], None)
                        and matches_other_ts(im, spec, kind, b[1], None)):
                    fail("TransitionStates.lowest_energy|mixed-units",
                         f"delta({s!r}) = {a} but {b} after re-expressing the same energies in other units "
                         f"(several transition states: the lowest is picked by the raw numbers)", spelling=s, reexpressed=spec2)
                else:
                    fail("Reaction.delta|unit-dependent", f"delta({s!r}) = {a} but {b} after re-expressing the same energies in other units",
                         spelling=s, reexpressed=spec2)
    # --- swap symmetry (non-barrier types) and type after the swap
    try:
        rxn.switch_reactants_products()
        swapped = True
    except Exception as e:  # noqa
        swapped = False
        fail("Reaction.switch_reactants_products|raises",
             f"switch_reactants_products of a {nr}->{np_} reaction raised {type(e).__name__}: {e}; the reaction is left with "
             f"{len(rxn.reacs)} reactants and {len(rxn.prods)} products, type {getattr(rxn.type, 'name', None)!r}")
        _, rxn = im.build(spec)
    for s, (kind, ts) in DOC.items():
        if ts or not swapped:
            continue
        a, b = base[s], im.delta(rxn, s)
        ok = a[0] == b[0] and (a[0] != "val" or relclose(b[1], -a[1]))
        if not ok:
            fail("Reaction.delta|swap-sign", f"delta({s!r}) = {a} before and {b} after switch_reactants_products", spelling=s)
    want_t = TYPE_TABLE.get((np_, nr), "<unsupported>")
    before_t = tname
    tname = None if rxn.type is None else rxn.type.name
    if not swapped:
        pass
    elif tname != want_t and tname != before_t:
        fail("Reaction.switch_reactants_products|type-changed-wrongly",
             f"after switch_reactants_products the reaction is {np_}->{nr}, its type went from {before_t!r} to {tname!r} "
             f"(classification by the numbers of molecules gives {want_t!r})")
    elif tname != want_t:
        fail("Reaction.switch_reactants_products|type-not-reclassified",
             f"after switch_reactants_products the reaction is {np_}->{nr} but its type is still {tname!r} "
             f"(classification by the numbers of molecules gives {want_t!r})")
    if swapped:
        try:
            rxn.switch_reactants_products()
        except Exception as e:  # noqa
            fail("Reaction.switch_reactants_products|raises", f"switching a {nr}->{np_} reaction back raised {type(e).__name__}: {e}")
            _, rxn = im.build(spec)
    for s in DOC:
        if im.delta(rxn, s) != base[s]:
            fail("Reaction.switch_reactants_products|not-involutive", f"delta({s!r}) differs after switching twice", spelling=s)
            break
    # --- energies replaced IN PLACE after deltas were queried (single points, refinement): nothing may be stale
    _, rxn = im.build(spec)
    upd = json.loads(json.dumps(spec))
    comps = [("reacs", i) for i in range(nr)] + [("prods", i) for i in range(np_)] + [("tss", i) for i in range(len(spec["tss"]))]
    for s_ in DOC6:
        im.delta(rxn, s_)                                    # query everything once
    for it in range(2):
        if not comps:
            break
        grp, i = comps[rng.randrange(len(comps))]
        new_e = gen_energies(rng, im, 1.0)
        if grp == "tss" and len(spec["tss"]) >= 2:          # make this TS the lowest one by a wide margin
            new_e = [e for e in new_e if e[0] != "PotentialEnergy"] + [["PotentialEnergy", -4096.0 * (it + 1), "Ha"]]
        upd[grp][i] = dict(upd[grp][i], energies=new_e, supply=[])
        im.set_energies(getattr(rxn, grp)[i], new_e)
        for s_ in DOC6:
            kind, ts = DOC[s_]
            got, want = im.delta(rxn, s_), spec_delta(im, upd, kind, ts)
            if want[0] == "ambiguous":
                continue
            if got[0] != want[0] or (got[0] == "val" and not relclose(got[1], float(want[1]))):
                fail("Reaction.delta|stale-after-energy-update",
                     f"after replacing the energies of {grp}[{i}] in place by {new_e}: delta({s_!r}) = {got}, "
                     f"from the current energies = {want}", spelling=s_, updated=[grp, i, new_e])
                break
    _, rxn = im.build(spec)
    # --- the ts setter: None removes every TS (barrier = diffusion-limit estimate), a TS becomes the only one;
    #     both persist through switch / save / load
    os.makedirs(workdir, exist_ok=True)
    path = os.path.join(workdir, "setter.chk")
    no_ts = dict(spec, tss=[])
    rxn.ts = None
    for stage in ("ts = None", "ts = None; switch; save; load; switch"):
        if stage != "ts = None":
            rxn = apply_ops(im, rxn, [["switch"], ["saveload"], ["switch"]], path)
        if len(rxn.tss) != 0 or rxn.ts is not None or not rxn.is_barrierless:
            fail("Reaction.ts.setter|none-keeps-transition-states",
                 f"after `{stage}` (reaction built with {len(spec['tss'])} TS): len(tss) = {len(rxn.tss)}, "
                 f"is_barrierless = {rxn.is_barrierless}", stage=stage)
            break
        for s, (kind, ts) in DOC.items():
            if ts:
                got, want = im.delta(rxn, s), spec_delta(im, no_ts, kind, True)
                if got[0] != want[0] or (got[0] == "val" and not relclose(got[1], float(want[1]))):
                    fail("Reaction.ts.setter|none-barrier-not-estimate", f"after `{stage}`: delta({s!r}) = {got}, "
                         f"diffusion-limit estimate = {want}", stage=stage, spelling=s)
                    break
    new_t = {"atoms": ["H"], "charge": 0, "mult": 1, "solvent": None, "energies": gen_energies(rng, im, 1.0)}
    one_ts = dict(spec, tss=[new_t])
    rxn.ts = im.ts(new_t, "tsn")
    rxn = apply_ops(im, rxn, [["saveload"]], path)
    if len(rxn.tss) != 1 or rxn.is_barrierless:
        fail("Reaction.ts.setter|value", f"after `ts = TS; save; load`: len(tss) = {len(rxn.tss)}, is_barrierless = {rxn.is_barrierless}", new_ts=new_t)
    else:
        for s, (kind, ts) in DOC.items():
            if ts:
                got, want = im.delta(rxn, s), spec_delta(im, one_ts, kind, True)
                if got[0] != want[0] or (got[0] == "val" and not relclose(got[1], float(want[1]))):
                    fail("Reaction.ts.setter|value", f"after `ts = TS; save; load`: delta({s!r}) = {got}, TS minus reactants = {want}",
                         new_ts=new_t, spelling=s)
                    break
    # --- checkpoint round trip (every reaction) and the checkpointing decorator (a sample)
    _, rxn = im.build(spec)
    out += roundtrip_oracle(im, rxn, spellings, workdir)
    if with_ckpt:
        out += checkpoint_oracles(im, spec, spellings, workdir)
    return out


def roundtrip_oracle(im, rxn, spellings, workdir):
    out = []
    os.makedirs(workdir, exist_ok=True)
    path = os.path.join(workdir, "rxn.chk")
    spellings = list(DOC)[::2] + spellings[len(DOC):][:4]
    before = im.observe(rxn, spellings)
    rxn.save(path)
    for how in (("load",) if len(rxn.tss) % 2 else ("from_checkpoint",)):
        if how == "load":
            r2 = im.Reaction()
            r2.load(path)
        else:
            r2 = im.Reaction.from_checkpoint(path)
        try:                                    # the reloaded reaction must be usable like the saved one
            after = im.observe(r2, spellings)
            _ = (r2.solvent, str(r2), r2.is_barrierless, r2.ts)
            r2.switch_reactants_products()
            r2.switch_reactants_products()
            again = im.observe(r2, spellings)
        except Exception as e:  # noqa
            out.append(("Reaction.save/load|reloaded-unusable", f"after save + {how} of a reaction with solvent "
                        f"{getattr(rxn.solvent, 'name', None)!r}: using the reloaded reaction (solvent / delta / switch) raised "
                        f"{type(e).__name__}: {e}", {"how": how}))
            continue
        if after != before or again != before:
            bad = [k for k in before if before[k] != after.get(k) or before[k] != again.get(k)]
            out.append(("Reaction.save/load|roundtrip", f"after save + {how}: {bad[0]} was {before[bad[0]]}, now {after.get(bad[0])}",
                        {"how": how}))
    os.remove(path)
    return out


def checkpoint_oracles(im, spec, spellings, workdir):
    """The checkpointing decorator with a substituted clock: a step of >= 1 s that RETURNS is checkpointed and later
    runs are handed exactly its state; a shorter step, or one that RAISES (whatever it did before), leaves no checkpoint."""
    import autode.utils as autils
    out = []
    os.makedirs(workdir, exist_ok=True)
    cwd, real_time = os.getcwd(), autils.time
    clock, calls = [100.0], [0]
    try:
        os.chdir(workdir)
        autils.time = lambda: clock[0]
        for dur in (0.5, 1.0, 2.5):
            step_name = f"verif{int(dur * 10)}"

            @autils.checkpoint_rxn_profile_step(step_name)
            def step(reaction):
                calls[0] += 1
                clock[0] += dur
                for m in reaction.reacs + reaction.prods:
                    m.energies.append(im.val.PotentialEnergy(float(m.charge) + 0.125 * calls[0], units="Ha"))

            _, ra = im.build(spec)
            step(ra)
            fp = os.path.join("checkpoints", f"{str(ra)}_{step_name}.chk")
            if os.path.exists(fp) != (dur >= 1.0):
                out.append(("checkpoint_rxn_profile_step|threshold", f"step of {dur} s: checkpoint written = {os.path.exists(fp)}", {"dur": dur}))
            obs_a = im.observe(ra, spellings)
            _, rb = im.build(spec)
            n0 = calls[0]
            step(rb)
            obs_b = im.observe(rb, spellings)
            if dur >= 1.0:
                if calls[0] != n0:
                    out.append(("checkpoint_rxn_profile_step|not-skipped", f"step of {dur} s re-executed although its checkpoint exists", {"dur": dur}))
                elif obs_b != obs_a:
                    bad = [k for k in obs_a if obs_a[k] != obs_b.get(k)]
                    out.append(("checkpoint_rxn_profile_step|restore", f"reloaded checkpoint: {bad[0]} was {obs_a[bad[0]]}, now {obs_b.get(bad[0])}",
                                {"dur": dur}))
            elif calls[0] != n0 + 1:
                out.append(("checkpoint_rxn_profile_step|skipped-without-checkpoint", f"step of {dur} s not executed the second time", {"dur": dur}))
        # a step that fails half way (after swapping reactants and products, as locate_transition_state does)
        for dur in (0.25, 3.0):
            step_name = f"verifx{int(dur * 100)}"

            @autils.checkpoint_rxn_profile_step(step_name)
            def failing(reaction):
                calls[0] += 1
                clock[0] += dur
                reaction.switch_reactants_products()
                raise RuntimeError("step failed")

            _, ra = im.build(spec)
            fp = os.path.join("checkpoints", f"{str(ra)}_{step_name}.chk")
            raised = False
            try:
                failing(ra)
            except RuntimeError:
                raised = True
            if not raised:
                out.append(("checkpoint_rxn_profile_step|exception-swallowed", f"a step raising after {dur} s returned normally", {"dur": dur}))
            if os.path.exists(fp):
                _, rb = im.build(spec)
                want = im.observe(rb, spellings)
                n0 = calls[0]
                try:
                    failing(rb)
                except RuntimeError:
                    pass
                got = im.observe(rb, spellings) if calls[0] == n0 else want
                bad = [k for k in want if want[k] != got.get(k)]
                out.append(("checkpoint_rxn_profile_step|checkpoint-after-exception",
                            f"a step that swapped reactants and products and then raised after {dur} s left a checkpoint; the next run "
                            f"skips the step and loads the half-done state" +
                            (f": {bad[0]} should be {want[bad[0]]}, is {got.get(bad[0])}" if bad else ""), {"dur": dur}))
    finally:
        autils.time = real_time
        os.chdir(cwd)
    return out


# ------------------------------------------------------------------------------------------ Coq literals
SHORT = {"Ha": "nHa", "kcal mol-1": "nKcal", "kJ mol-1": "nKj", "eV": "nEv", "J": "nJ",
         "PotentialEnergy": "cPE", "Enthalpy": "cH", "FreeEnergy": "cG"}


def cstr(s):
    """Coq string literal; non-ASCII text is written as its UTF-8 bytes (Coq strings are byte strings)."""
    return SHORT.get(s) or coq_string(s)


def coq_opt_nat(i):
    return "None" if i is None else f"(Some {int(i)}%nat)"


def coq_species(sp):
    ents = [f"En {ECLS[c]} {qc(x)} {cstr(u)}" for c, x, u in sp["energies"]]
    sid = None if sp["solvent"] is None else POOL.index(sp["solvent"])
    base = f"(mkS {coq_z(len(sp['atoms']))} {coq_z(sp['charge'])} {coq_z(sp['mult'])} {coq_opt_nat(sid)} {coq_list(ents)})"
    if not sp.get("supply"):
        return base
    sup = []
    for v in sp["supply"]:
        if v[0] == "None":
            sup.append("SNone")
        elif v[0] in ("float", "str"):
            sup.append(f"SNumber {qc(v[1])}")
        else:
            sup.append(f"SE {ECLS[v[0]]} {qc(v[1])} {cstr(v[2])}")
    return f"(supply {base} {coq_list(sup)})"


def coq_built(spec):
    sn = None if spec["solvent_name"] is None else POOL.index(spec["solvent_name"])
    return (f"(built {coq_opt_nat(sn)} {coq_list([coq_species(s) for s in spec['reacs']])} "
            f"{coq_list([coq_species(s) for s in spec['prods']])} {coq_list([coq_species(s) for s in spec['tss']])})")


def coq_dexp(d):
    if d[0] == "val":
        return f"(XVal {qc(d[1])} {cstr(d[2])} {cstr(d[3])} {coq_bool(d[4])})"
    if d[0] == "none":
        return "XNone"
    return f"(XErr {cstr(d[1])})"


class Spellings:
    """All delta_type strings of a run, defined once in the Coq preamble and referred to by index."""

    def __init__(self):
        self.idx, self.items = {}, []

    def ref(self, s):
        if s not in self.idx:
            self.idx[s] = len(self.items)
            self.items.append(s)
        return f"(sp {self.idx[s]})"

    def preamble(self):
        return ("Definition SPL : list string := " + coq_list([coq_string(s) for s in self.items]) +
                ".\nDefinition sp (i : nat) : string := nth_str SPL i.\n")


def coq_deltas(spl, rterm, pairs):
    return f"check_deltas {rterm} " + coq_list([f"({spl.ref(s)}, {coq_dexp(d)})" for s, d in pairs])


# ------------------------------------------------------------------------------------------ correspondence
def probe_spec(im):
    """A reaction on which every (kind, is_ts) gives a different delta: decodes the parser's decision."""
    def sp(e, h, g):
        return {"atoms": ["H"], "charge": 0, "mult": 1, "solvent": None,
                "energies": [["PotentialEnergy", float(e), "Ha"], ["EnthalpyCont", float(h), "Ha"], ["FreeEnergyCont", float(g), "Ha"]]}
    return {"solvent_name": None, "reacs": [sp(0, 0, 0)], "prods": [sp(1, 2, 4)], "tss": [sp(16, 32, 64)]}


PROBE = {1.0: ("energy", False), 3.0: ("enthalpy", False), 5.0: ("free_energy", False),
         16.0: ("energy", True), 48.0: ("enthalpy", True), 80.0: ("free_energy", True)}


STEP_SPELLINGS = ["E", "E‡", "H‡", "G ddagger"]


def apply_op(im, rxn, o, path):
    """One history operation: ['switch'] | ['saveload'] | ['set_ts', ts-spec or None] | ['append_ts', ts-spec]."""
    if o[0] == "switch":
        rxn.switch_reactants_products()
    elif o[0] == "saveload":
        rxn.save(path)
        if len(o) > 1 and o[1] == "from_checkpoint":
            rxn = im.Reaction.from_checkpoint(path)
        else:
            rxn = im.Reaction()
            rxn.load(path)
    elif o[0] == "set_ts":
        rxn.ts = None if o[1] is None else im.ts(o[1], "tsx")
    elif o[0] == "set_ts_invalid":
        try:
            rxn.ts = "not a transition state"
            raise AssertionError("the ts setter accepted a str")
        except ValueError:
            pass
    elif o[0] == "upd":                 # energies replaced in place (which: 0 reactants, 1 products, 2 tss)
        lst = [rxn.reacs, rxn.prods, rxn.tss][o[1]]
        if o[2] < len(lst):
            im.set_energies(lst[o[2]], o[3])
    else:
        rxn.tss.append(im.ts(o[1], "tsa"))
    return rxn


def apply_ops(im, rxn, ops, path):
    for o in ops:
        rxn = apply_op(im, rxn, o, path)
    return rxn


def gen_ops(rng, im, spec):
    n_at = sum(len(s["atoms"]) for s in spec["reacs"])

    def ts_spec():
        return {"atoms": ["H"] * n_at, "charge": 0, "mult": 1, "solvent": None,
                "energies": gen_energies(rng, im, rng.choice([1.0, 1.0, 0.7]))}
    ops = []
    for _ in range(rng.randint(1, 5)):
        k = rng.random()
        if k < 0.25:
            ops.append(["switch"])
        elif k < 0.45:
            ops.append(["saveload", rng.choice(["load", "from_checkpoint"])])
        elif k < 0.58:
            ops.append(["set_ts", None])
        elif k < 0.70:
            ops.append(["set_ts", ts_spec()])
        elif k < 0.80:
            ops.append(["append_ts", ts_spec()])
        elif k < 0.85:
            ops.append(["set_ts_invalid"])
        else:
            ops.append(["upd", rng.randint(0, 2), rng.randint(0, 2), gen_energies(rng, im, rng.choice([1.0, 1.0, 0.7]))])
    return ops


def coq_op(o):
    if o[0] == "switch":
        return "OSwitch"
    if o[0] == "saveload":
        return "OSaveLoad"
    if o[0] == "set_ts":
        return "(OSetTS None)" if o[1] is None else f"(OSetTS (Some {coq_species(o[1])}))"
    if o[0] == "set_ts_invalid":
        return "OSetTSInvalid"
    if o[0] == "upd":
        ents = [f"En {ECLS[c]} {qc(x)} {cstr(u)}" for c, x, u in o[3]]
        return f"(OUpd {o[1]}%nat {o[2]}%nat {coq_list(ents)})"
    return f"(OAppendTS {coq_species(o[1])})"


def observe_state(im, rxn):
    """-> Coq arguments of check_state: len(tss), is_barrierless, energy of reaction.ts"""
    try:
        t = rxn.ts
    except Exception:  # noqa  (pinned lowest_energy: TypeError among several TSs without energy)
        return f"{len(rxn.tss)}%nat None TErr", (len(rxn.tss), "err", "err")
    b = bool(rxn.is_barrierless)
    if t is None:
        e, eo = "TNone", None
    elif t.energy is None:
        e, eo = "(TSome None)", "no-energy"
    else:
        e, eo = f"(TSome (Some ({qc(float(t.energy))}, {cstr(t.energy.units.name)})))", (float(t.energy), t.energy.units.name)
    return f"{len(rxn.tss)}%nat (Some {coq_bool(b)}) {e}", (len(rxn.tss), b, eo)


def correspondence(ctx, im, specs, spell_lists, full, smiles=()):
    terms, descr = [], []
    spl = Spellings()

    def add(term, d, stream, key, nontrivial=True, evals=1):
        terms.append(term)
        descr.append(d)
        ctx.count(stream, key, nontrivial, sample=d if len(json.dumps(d)) < 1500 else None)
        ctx.cov["evaluations"] += evals - 1
        ctx.cov["streams"][stream]["evaluations"] += evals - 1
    # (a) classify called directly
    top = 7 if full else 5
    for nr in range(top):
        for np_ in range(top):
            try:
                t = im.reaction_types.classify([None] * nr, [None] * np_)
                exp = "CRNone" if t is None else f"(CRType {cstr(t.name)})"
            except Exception as e:  # noqa
                exp = f"(CRRaise {cstr(type(e).__name__)})"
            add(f"check_classify {nr}%nat {np_}%nat {exp}", {"kind": "classify", "nr": nr, "np": np_}, "classify", (nr, np_))
    # (b) the parser's decision for many strings, decoded on a probe reaction
    _, probe = im.build(probe_spec(im))
    strings = list(DOC) + list(EXTRA_SPELLINGS)
    for _ in range(1500 if full else 250):
        strings.append("".join(ctx.rng.choice(FUZZ_ALPHABET) for _ in range(ctx.rng.randint(1, 6))))
    for s in strings:
        d = im.delta(probe, s)
        if d[0] == "err" and d[1] == "ValueError":
            name, ts = "", False
        elif d[0] == "val" and d[1] in PROBE:
            name, ts = PROBE[d[1]]
        else:
            name, ts = "?", False
        ctx.hist("delta_kind", f"{name or 'ValueError'}{'+ts' if ts else ''}")
        add(f"check_kind {coq_string(s)} {coq_string(name)} {coq_bool(ts)}", {"kind": "delta_kind", "string": s, "impl": [name, ts]},
            "delta_kind", s)
    # (b') the SMILES constructor: same constructor model on the fragments of the string
    for smi in smiles:
        _, spec, res = smiles_oracle(im, smi)
        if spec is None:
            continue
        args = f"None {coq_list([coq_species(x) for x in spec['reacs']])} {coq_list([coq_species(x) for x in spec['prods']])}"
        if res[0] == "err":
            exp = f"(XFail {coq_string(type(res[1]).__name__)} {coq_string(err_tag(res[1]))})"
        else:
            rxn = res[1]
            tname = "None" if rxn.type is None else f"(Some {coq_string(rxn.type.name)})"
            exp = (f"(XOk {tname} {coq_opt_nat(im.sid(rxn.solvent))} {coq_z(rxn.charge)} "
                   f"{coq_list([coq_opt_nat(im.sid(m.solvent)) for m in rxn.reacs + rxn.prods])})")
        add(f"check_ctor {args} {exp}", {"kind": "ctor-smiles", "smiles": smi}, "ctor-smiles", smi)
    # (c) reactions: constructor, deltas, histories
    for idx, (spec, spellings) in enumerate(zip(specs, spell_lists)):
        nr, np_ = len(spec["reacs"]), len(spec["prods"])
        st, rxn = im.build(spec)
        sn = None if spec["solvent_name"] is None else POOL.index(spec["solvent_name"])
        args = (f"{coq_opt_nat(sn)} {coq_list([coq_species(s) for s in spec['reacs']])} "
                f"{coq_list([coq_species(s) for s in spec['prods']])}")
        key = json.dumps(spec, sort_keys=True)
        ctx.hist("ctor", f"{nr}->{np_}")
        if st == "err":
            ctx.hist("ctor", "outcome " + type(rxn).__name__ + ":" + err_tag(rxn)[:12])
            add(f"check_ctor {args} (XFail {coq_string(type(rxn).__name__)} {coq_string(err_tag(rxn))})",
                {"kind": "ctor", "spec": spec, "impl": [type(rxn).__name__, str(rxn)]}, "ctor", key)
            continue
        ctx.hist("ctor", "outcome ok")
        ctx.hist("delta", f"n_ts={len(spec['tss'])}")
        tname = "None" if rxn.type is None else f"(Some {coq_string(rxn.type.name)})"
        solv = coq_list([coq_opt_nat(im.sid(m.solvent)) for m in rxn.reacs + rxn.prods])
        add(f"check_ctor {args} (XOk {tname} {coq_opt_nat(im.sid(rxn.solvent))} {coq_z(rxn.charge)} {solv})",
            {"kind": "ctor", "spec": spec, "impl": "ok"}, "ctor", key, nontrivial=(nr + np_ > 0))
        pairs = [(s, im.delta(rxn, s)) for s in spellings]
        for s, d in pairs:
            ctx.hist("delta", "outcome " + (d[0] if d[0] != "err" else d[1]))
        # a history of switch / save+load / set-TS / append-TS operations on the same reaction, observed after EVERY step
        ops = gen_ops(ctx.rng, im, spec)
        path = os.path.join(ctx.work, "hist.chk")
        lets, checks = [], []
        st0, _ = observe_state(im, rxn)
        checks.append(f"check_state r {st0}")
        prev = "r"
        for k, o in enumerate(ops):
            try:
                rxn = apply_op(im, rxn, o, path)
                _ = rxn.solvent
            except Exception as e:  # noqa  (the model has no failing history operation)
                checks.append("false")
                ctx.hist("delta+history", f"op {o[0]} raised {type(e).__name__}")
                ops = ops[:k + 1]
                nh = 0
                break
            ctx.hist("delta+history", "op " + o[0] + ("(None)" if o[0] == "set_ts" and o[1] is None else ""))
            name = f"h{k}"
            lets.append(f"let {name} := run_op {coq_op(o)} {prev} in")
            prev = name
            sterm, _ = observe_state(im, rxn)
            checks.append(f"check_state {name} {sterm}")
            last = k == len(ops) - 1
            sub = (spellings[:len(DOC)][::2] + spellings[len(DOC):][::4]) if last else STEP_SPELLINGS
            hp = [(s, im.delta(rxn, s)) for s in sub]
            checks.append(coq_deltas(spl, name, hp))
            nh = len(hp)
        rt = getattr(rxn, "type", None)
        tname = "None" if rt is None else f"(Some {coq_string(rt.name)})"
        checks.append(f"opt_string_eqb (rtype {prev}) {tname}")
        add(f"(let r := {coq_built(spec)} in {' '.join(lets)}\n   {coq_deltas(spl, 'r', pairs)} && " + " && ".join(checks) + ")",
            {"kind": "delta", "spec": spec, "spellings": spellings, "ops": ops},
            "delta+history", (key, tuple(spellings), json.dumps(ops, sort_keys=True)), nontrivial=(nr + np_ > 0),
            evals=len(pairs) + len(ops) * len(STEP_SPELLINGS) + nh)
    # balance the shards: cheap (classify / parser) and expensive (reaction) cases are dealt round-robin
    nsh = 12 if not full else max(12, len(terms) // 150)
    order = sorted(range(len(terms)), key=lambda i: (i % nsh, i))
    per_file = -(-len(terms) // nsh)
    bad, err = ctx.coq_bad_indices(PRE + spl.preamble(), [terms[i] for i in order], per_file=per_file, name="c05cases")
    bad = sorted(order[i] for i in bad)
    return [(descr[i], terms[i]) for i in bad], err


def pinpoint(ctx, im, bad):
    """For disagreeing delta/history cases: which observation, after which step?  (second pass)"""
    notes = []
    for d, _ in bad[:3]:
        if d["kind"] != "delta":
            continue
        st, rxn = im.build(d["spec"])
        if st != "ok":
            continue
        spl = Spellings()
        rterm = coq_built(d["spec"])
        terms, labels = [], []
        for s in d["spellings"]:
            r = im.delta(rxn, s)
            terms.append(f"check_delta {rterm} {spl.ref(s)} {coq_dexp(r)}")
            labels.append(("initial", s, list(r)))
        hterm = rterm
        for k, o in enumerate(d["ops"]):
            rxn = apply_op(im, rxn, o, os.path.join(ctx.work, "hist2.chk"))
            hterm = f"(run_op {coq_op(o)} {hterm})"
            where = "after " + " / ".join(x[0] + ("(None)" if x[0] == "set_ts" and x[1] is None else "") for x in d["ops"][:k + 1])
            sterm, sobs = observe_state(im, rxn)
            terms.append(f"check_state {hterm} {sterm}")
            labels.append((where, "len(tss), is_barrierless, ts.energy", list(sobs)))
            for s in STEP_SPELLINGS + (list(DOC) if k == len(d["ops"]) - 1 else []):
                r = im.delta(rxn, s)
                terms.append(f"check_delta {hterm} {spl.ref(s)} {coq_dexp(r)}")
                labels.append((where, s, list(r)))
        tname = "None" if rxn.type is None else f"(Some {coq_string(rxn.type.name)})"
        terms.append(f"opt_string_eqb (rtype {hterm}) {tname}")
        labels.append(("final type", "", [str(tname)]))
        b2, _ = ctx.coq_bad_indices(PRE + spl.preamble(), terms, per_file=400, name="c05pin")
        notes.append({"implementation_observed_but_model_differs": [labels[i] for i in b2[:6]]})
    return notes


# ------------------------------------------------------------------------------------------ run / replay
SMILES_FIXED = ["C=C.C=C>>C1CCC1", "CCl.[OH-]>>CO.[Cl-]", "CC>>C=C.[H][H]", "[OH-].[H+]>>O", "[H][H]>>[H].[H]",
                "C1CCC1>>C=C.C=C", "C=C"]
SMILES_POOL = ["[H][H]", "C", "C=C", "O", "[OH-]", "[H+]", "[H-]", "[CH3]", "[H]", "CC", "[Cl-]", "CCl", "CO"]


def gen_smiles(rng, n_random):
    out = list(SMILES_FIXED)
    for _ in range(n_random):
        nr, np_ = rng.choice([(1, 1), (2, 1), (1, 2), (2, 2), (1, 3), (2, 3), (3, 1)])
        out.append(".".join(rng.choice(SMILES_POOL) for _ in range(nr)) + ">>" + ".".join(rng.choice(SMILES_POOL) for _ in range(np_)))
    return out


_FRAG = {}


def smiles_spec(im, smi):
    """The reaction a reaction-SMILES string denotes: one molecule per '.'-separated fragment, in order, duplicates kept
    (atom count / charge / multiplicity of a fragment from building that fragment on its own)."""
    if smi.count(">>") != 1:
        return None

    def frag(f):
        if f not in _FRAG:
            m = im.Reactant(smiles=f)
            _FRAG[f] = {"atoms": ["H"] * m.n_atoms, "charge": m.charge, "mult": m.mult, "solvent": None, "energies": []}
        return _FRAG[f]
    lhs, rhs = smi.split(">>")
    return {"solvent_name": None, "reacs": [frag(f) for f in lhs.split(".")], "prods": [frag(f) for f in rhs.split(".")], "tss": []}


def smiles_oracle(im, smi):
    """Reaction(<reaction SMILES>): exists iff balanced, type from the numbers of fragments. -> (findings, spec, outcome)"""
    out = []
    spec = smiles_spec(im, smi)
    try:
        rxn = im.Reaction(smi)
        res = ("ok", rxn)
    except Exception as e:  # noqa
        res = ("err", e)
    if spec is None:
        if res[0] == "ok" or type(res[1]).__name__ != "UnbalancedReaction":
            out.append(("Reaction.__init__|smiles-undecomposable", f"Reaction({smi!r}) -> {res}", {"smiles": smi}))
        return out, spec, res
    should, errs = spec_ctor(spec)
    nr, np_ = len(spec["reacs"]), len(spec["prods"])
    if res[0] == "err":
        name = type(res[1]).__name__
        if should:
            out.append(("Reaction.__init__|smiles-balanced-rejected", f"Reaction({smi!r}) ({nr}->{np_}, balanced) raised {name}: {res[1]}", {"smiles": smi}))
        elif name not in errs:
            out.append(("Reaction.__init__|smiles-wrong-error", f"Reaction({smi!r}) violating {sorted(errs)} raised {name}: {res[1]}", {"smiles": smi}))
        return out, spec, res
    rxn = res[1]
    if not should:
        out.append(("Reaction.__init__|smiles-unbalanced-accepted", f"Reaction({smi!r}) should raise one of {sorted(errs)}", {"smiles": smi}))
        return out, spec, res
    got = ([m.n_atoms for m in rxn.reacs], [m.n_atoms for m in rxn.prods])
    want = ([len(s["atoms"]) for s in spec["reacs"]], [len(s["atoms"]) for s in spec["prods"]])
    tname = None if rxn.type is None else rxn.type.name
    if got != want or tname != TYPE_TABLE[(nr, np_)]:
        out.append(("Reaction.__init__|smiles-molecules", f"Reaction({smi!r}): molecules with atom counts {got}, type {tname}; the string has "
                    f"fragments with {want} atoms, type {TYPE_TABLE[(nr, np_)]}", {"smiles": smi}))
    return out, spec, res


def run_oracles(ctx, im, specs, spell_lists, full, smiles=()):
    nfail, per_key = 0, {}
    for smi in smiles:
        res, _, _ = smiles_oracle(im, smi)
        ctx.count("smiles", smi)
        for key, what, extra in res:
            nfail += 1
            per_key[key] = per_key.get(key, 0) + 1
            if per_key[key] <= 2:
                ctx.finding(key, what, dict({"kind": "smiles", "key": key}, **extra))
    # the three dagger spellings are interchangeable, whatever precedes them
    _, probe = im.build(probe_spec(im))
    for _ in range(120 if full else 40):
        pre = "".join(ctx.rng.choice(FUZZ_ALPHABET) for _ in range(ctx.rng.randint(0, 4)))
        res = [im.delta(probe, pre + d) for d in ("‡", " ddagger", " double dagger")]
        ctx.count("dagger-spellings", pre)
        if not (res[0] == res[1] == res[2]):
            nfail += 1
            per_key["Reaction.delta|dagger-spellings-differ"] = per_key.get("Reaction.delta|dagger-spellings-differ", 0) + 1
            if per_key["Reaction.delta|dagger-spellings-differ"] <= 2:
                ctx.finding("Reaction.delta|dagger-spellings-differ", f"delta({pre + '‡'!r}) = {res[0]}, with ' ddagger' {res[1]}, "
                            f"with ' double dagger' {res[2]}", {"kind": "dagger", "prefix": pre, "spec": probe_spec(im), "spellings": [pre + "‡", pre + " ddagger", pre + " double dagger"]})
    for idx, (spec, spellings) in enumerate(zip(specs, spell_lists)):
        with_ckpt = (idx % (4 if full else 7) == 0)
        try:
            res = oracles(im, spec, spellings, ctx.rng, os.path.join(ctx.work, f"ck{idx}"), with_ckpt)
        except Exception as e:  # noqa  an exception nobody documents, on a generated input: that input is the replay
            import traceback
            res = [(f"Reaction|unexpected-exception:{type(e).__name__}", f"{type(e).__name__}: {e} at " +
                    traceback.format_exc().strip().split("\n")[-3].strip()[:160], {})]
        ctx.count("impl-oracle", json.dumps(spec, sort_keys=True), nontrivial=bool(spec["reacs"] or spec["prods"]))
        if with_ckpt:
            ctx.count("checkpoint", json.dumps(spec, sort_keys=True), nontrivial=bool(spec["reacs"] or spec["prods"]))
        for key, what, extra in res:
            nfail += 1
            per_key[key] = per_key.get(key, 0) + 1
            if per_key[key] <= 2:
                ctx.finding(key, what, dict({"kind": "oracle", "key": key, "spec": spec, "spellings": spellings}, **extra))
    ctx.cov["oracle_failures_by_key"] = per_key
    return nfail, per_key


def run(ctx):
    sys.path.insert(0, REPO)
    full = not ctx.quick
    pins_changed = source_pins(ctx.pid, PINS)
    ctx.cov["source_pins"] = {"pinned": len(PINS), "changed": pins_changed}
    if pins_changed:
        ctx.log("source pins changed:", ", ".join(pins_changed))
    # 1. regenerate the model tables from the repository
    ok_tr, outs = True, []
    for tr in ("translate_c05.py",):                 # writes gen/C05_Gen.v and C05's own gen/C05_Units_Gen.v
        rc, out = sh(["python3", f"{VERIF}/tr/{tr}"], timeout=120)
        outs.append(out.strip()[:900])
        ok_tr = ok_tr and rc == 0
    ctx.log("translators:", "ok" if ok_tr else "FAILED CLOSED: " + " | ".join(outs)[-400:])
    ctx.cov["translator"] = {"ok": ok_tr, "output": outs}
    # 2. proofs over the regenerated tables
    info = {"hygiene": [], "log_tail": "\n".join(outs), "build_ok": False}
    proofs_ok = False
    if ok_tr:
        proofs_ok, info = ctx.proofs(SLICE, "C05/Props.v", "AV.C05.Props", extra_targets=["C05/Corr.vo"])
        tail = info.get("log_tail", "")
        if not proofs_ok and not info["hygiene"] and "./C05/" not in tail and "./gen/C05" not in tail:
            # the failure is not located in C05's own files (shared lib / another builder's file mid-edit): retry once
            ctx.log("build failed outside the C05 slice; retrying once in 20 s")
            time.sleep(20)
            ctx.cov["obligations"] = 0
            ctx.cov["theorems"] = []
            proofs_ok, info = ctx.proofs(SLICE, "C05/Props.v", "AV.C05.Props", extra_targets=["C05/Corr.vo"])
        ctx.log("proofs:", "ok" if proofs_ok else "BROKEN")
        ctx.cov["print_assumptions"] = info.get("assumptions", {})
    else:
        ctx.cov["obligations"] += len(ctx.theorems_in("C05/Props.v"))
        ctx.cov["checker_cmd"] = "translator failed closed; proofs not attempted"
    # 3. generated reactions + implementation-side property oracles (always run: they give the replays)
    im = Impl()
    n = 2000 if full else (350 if pins_changed else 200)     # a changed pin: search harder for a failing input
    specs = [probe_spec(im), {"solvent_name": None, "reacs": [], "prods": [], "tss": []}]
    specs += [gen_reaction(ctx.rng, im, full) for _ in range(n)]
    spell_lists = [gen_spellings(ctx.rng, 6 if full else 3, 12 if full else 6) for _ in specs]
    smiles = gen_smiles(ctx.rng, 40 if full else 5)
    nfail, per_key = run_oracles(ctx, im, specs, spell_lists, full, smiles)
    ctx.log(f"implementation oracles: {nfail} failures {per_key}")
    known = set(ctx.known_keys())
    new_fail = sum(v for k, v in per_key.items() if k not in known)
    ctx.check_known_still_fail(set(per_key))
    # 4. correspondence
    corr_bad, corr_err = [], None
    if proofs_ok or os.path.exists(os.path.join(VERIF, "coq", "C05", "Corr.vo")):
        ok_c, log = (True, "") if proofs_ok else ctx.coq_make(["C05/Corr.vo"])
        if ok_c:
            corr_bad, corr_err = correspondence(ctx, im, specs, spell_lists, full, smiles)
            ctx.log(f"correspondence: {len(corr_bad)} disagreements" + (f"; coq error {corr_err[:300]}" if corr_err else ""))
            ctx.cov["disagreements"] = len(corr_bad)
        else:
            corr_err = "model does not build: " + log[-600:]
    # 5. decide
    if not proofs_ok:
        ctx.proof_failure(info, found_any_input=(new_fail > 0))
    if corr_bad or corr_err:
        if new_fail == 0:
            notes = pinpoint(ctx, im, corr_bad) if corr_bad else []
            first = corr_bad[0][0] if corr_bad else None
            ctx.violation("model and implementation disagree (correspondence) and no property-level oracle failed on the "
                          "implementation: " + (f"{first['kind']} case" if first else "Coq error"),
                          {"kind": "correspondence", "first": [d for d, _ in corr_bad[:3]], "pinpoint": notes,
                           "coq_terms": [t[:3000] for _, t in corr_bad[:1]], "coq_error": corr_err},
                          found_input=bool(corr_bad))
        else:
            ctx.log("correspondence disagreements explained by the implementation-level findings above")
    if pins_changed and new_fail == 0 and not (corr_bad or corr_err) and proofs_ok:
        ctx.violation("hand model no longer pinned to the source: " + ", ".join(pins_changed),
                      {"kind": "source-pin", "changed": pins_changed}, found_input=False)


def replay(ctx, obj):
    sys.path.insert(0, REPO)
    im = Impl()
    rp = obj.get("replay", {})
    specs = []
    if "spec" in rp:
        specs = [(rp["spec"], rp.get("spellings") or list(DOC))]
    for d in rp.get("first", []):
        if "spec" in d:
            specs.append((d["spec"], d.get("spellings") or list(DOC)))
    n = 0
    if rp.get("kind") == "smiles":
        res, _, outcome = smiles_oracle(im, rp["smiles"])
        print("replay: Reaction(%r) ->" % rp["smiles"], "ok" if outcome[0] == "ok" else f"{type(outcome[1]).__name__}: {outcome[1]}")
        for key, what, _ in res:
            n += 1 if key == rp.get("key", key) else 0
            print("replay:", key, "-", what)
    if rp.get("kind") == "dagger":
        _, probe = im.build(rp["spec"])
        res = [im.delta(probe, x) for x in rp["spellings"]]
        print("replay:", list(zip(rp["spellings"], res)))
        n += 0 if res[0] == res[1] == res[2] else 1
        specs = []
    for spec, spellings in specs:
        res = oracles(im, spec, spellings, ctx.rng, os.path.join(ctx.work, "replay"), True)
        for key, what, _ in res:
            counted = (key == rp["key"]) if "key" in rp else (key not in ctx.known_keys())
            n += 1 if counted else 0
            print("replay:", key, "-", what, "" if counted else "(not the stored finding)")
        st, rxn = im.build(spec)
        print("replay: constructor ->", "ok" if st == "ok" else f"{type(rxn).__name__}: {rxn}")
        if st == "ok":
            for s in spellings[:40]:
                print(f"replay: delta({s!r}) =", im.delta(rxn, s))
    print("replay: implementation oracle failures =", n, "; stored:", obj.get("what"))
    return 1 if n else 0


MANIFEST = {
    "technique": "Coq proof over tables regenerated from source (ast translator) + hand model tied by source pins and randomized model/implementation correspondence + independent implementation oracles",
    "level_text": ("Machine-checked (coq/C05/Props.v, 16 theorems closed under the global context), for ALL multisets of species, charges, "
                   "multiplicities, solvents, energies and units: the constructor succeeds iff atom count, charge and unpaired-electron "
                   "sums agree, solvents are consistent and the (n_reactants, n_products) pair is classifiable, with the exact error "
                   "otherwise; the type is a function of the two counts (full table); delta equals the sum over products (or the lowest "
                   "TS, lowest meaning lowest energy in Hartree among the TSs that have one) minus the sum over reactants of individually "
                   "converted contributions; it is invariant under re-expressing any contribution in another energy unit (any number of "
                   "TSs) and the energy setter stores the physical quantity assigned; it changes sign under switch for non-barrier types, "
                   "is None exactly when a required contribution is missing and never raises; with no TS it is max(0, delta) (+ 0.00694 "
                   "Ha unless rearrangement); the 16 documented spellings map to their kind, letter case never matters, no string "
                   "containing 'free' maps to the potential energy; switch / set-TS / append histories act as stated."),
    "level_note": ("PARTIAL: 'save/reload preserves' is definitional in the model (checkpoint_roundtrip_partial: save is the identity on the "
                   "modelled attributes, pickle is an oracle); the clause is carried by the translator's statement-by-statement match of "
                   "save/load/decorator and by the pickle round-trip oracle on every generated reaction, the decorator logic (>= 1 s and "
                   "not raising -> stored under its key; else nothing) is proved over that oracle. Interchangeability of the three dagger "
                   "spellings for arbitrary prefixes is exercised (oracle + stream), not proved. The generated tables are re-read from the "
                   "repository on every run; interpreters, _check_solvent, energy look-ups/append/setter, TS choice, ts setter, in-place "
                   "updates are a hand model (36 source pins) validated by correspondence (quick: ~200 reactions x ~25 spellings + 1-5 "
                   "step histories, ~300 parser strings, 12 reaction SMILES). One statement is FALSE of the faithful model and proved as "
                   "type_after_switch_refuted (known finding). energy_supply_spec is stated by cases on the generated setter form "
                   "(unit kept: proved preserved; unit dropped: refuted by witness), so it is never vacuous."),
}
