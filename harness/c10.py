"""C10 — built-in optimisers that report convergence return stationary points (DESIGN 6/C10).

Tie: gen/C10_Gen.v (meets_criteria as an ordered program of guarded returns with every factor list,
the are_satisfied loop body, the __post_init__ sanity test, converged's gate, the body of run's while
loop, the limit test, `iteration`) is regenerated from /repo by tr/translate_c10.py on every run and the
theorems of coq/C10/Props.v are re-checked against it.  Correspondence streams:
  params    real ConvergenceParams (construct / * / are_satisfied / meets_criteria) vs the model
  scripted  the real Optimiser.run + NDOptimiser.converged driven by scripted steps/energies/gradients/
            constraint counters (incl. null steps) vs the model loop
  runs      final states of real RFO/CRFO/PRFO/steepest-descent runs: conv_params, cart_proj_g masking,
            converged, iteration, limit test vs the model
  (calc     optimisations through Calculation/CalculationExecutorO in one directory with the calculation registry on:
            same name + other constraints, unconstrained then constrained, exact repeats — oracles only)
Implementation-side property oracles (always run; they produce the concrete replays): the decision
oracle on ConvergenceParams, and real optimisers driven by an analytic mock Method.
"""
import itertools
import json
import math
import os
import sys
import time
import traceback
from fractions import Fraction

import numpy as np

from common import REPO, VERIF, source_pins, coq_bool, coq_list, coq_nat, coq_z, qc, qc_list, qc_mat, sh

TRUSTED_BASE = [
    "Coq 8.16.1 kernel + coqc (vm_compute only for the two decidable sweeps over the translated meets_criteria program and for the non-vacuity examples; no native_compute)",
    "Print Assumptions: every C10 theorem is closed under the global context (no axioms)",
    "translator tr/translate_c10.py (Python ast -> gen/C10_Gen.v; fail-closed; the text of __mul__, _to_base_units, conv_params, __len__, the _coords getter/setter, the statements around run()'s loop, and of ConstrainedPrimitive.delta / InternalCoordinates.n_constraints / n_satisfied_constraints / constrained_primitives / PIC.n_constrained is pinned)",
    "hand model coq/C10/Model.v of __mul__/__post_init__/conv_params/cart_proj_g/the loop state, tied by the params, scripted and runs correspondence streams",
    "exact rationals stand for IEEE doubles: comparisons whose exact margin is below 1e-12 relative while the float product c*f is inexact are skipped (counted); computed measures compared at 1e-9 relative",
    "numpy/scipy (eigvalsh, lstsq, linprog) in the implementation-side oracles; the analytic test potentials and their finite-difference Hessians written in this file",
]
ASSUMPTIONS = [
    "All ConvergenceParams numbers are in base units (Ha, Ha/Å, Å), where _to_base_units is the identity; unit conversion is property C06",
    "That the numerical step rules (RFO shift, PRFO partitioning, trust radius) REACH a stationary point, and 'exactly one negative Hessian eigenvalue' for PRFO, are explored on the analytic surface family, not proved",
    "Exceptions raised inside _step / the gradient calculation propagate out of run() (no convergence is reported); the model loop covers runs whose step and gradient evaluation return",
    "A user callback does not add entries to the optimiser history",
    "Constructing an optimiser with the documented `coords=` argument makes run() raise AssertionError from conv_params (the user's coordinates carry no energy); modelled (run_with / PRE) and exercised, but outside the property: no convergence is reported",
    "The statement evaluated by logger.info after the loop (self.converged once more) and NDOptimiser._log_convergence are modelled as no-ops; they can only raise where converged itself raises",
    "'line-search helpers' of the property text have no referent in this tree (autode/opt/optimisers has no line-search module); QAOptimiser and Dimer are not in the anchor list and are not exercised",
    "'Gradient within the constraint surface' is checked independently as: some multipliers l exist with RMS(g - sum l_k grad C_k) and max|g - sum l_k grad C_k| within the thresholds (least squares / linear programme)",
]
RULE = ("params: criteria (4 presets, dyadic random, unset attributes, zero/inf) x measured values at ratios "
        "{0..10, inf, nan, None} of each threshold, uniform / per-attribute / targeted at every translated factor "
        "list (just below, at, just above) x strict; non-trivial when some criterion is set and finite. "
        "scripted: random scripts of step/null-step, energies, gradients, constraint flags x maxiter x criteria. "
        "runs: surfaces {harmonic, Morse networks, LJ3/LJ4, triatomic and diatomic double wells} x perturbed starts "
        "(incl. exact stationary start) x {Cartesian/DIC steepest descent, RFO, CRFO with 0-2 distance constraints, "
        "PRFO} x tolerance presets/custom/strict/thresholds in eV, kcal/mol, bohr, pm x maxiter (1..3 and 40..300, incl. "
        "runs of > 10 iterations for the reload; and a file-based (uses_external_io) fake program with two optimisations of "
        "an equally named species from different starts in one directory, keep_input_files on/off; a seed-independent floor of "
        "converging runs per optimiser, NDOptimiser.optimise, the conv_tol setter, coords=, extra_prims, species constraints "
        "with every optimiser, saddle searches started at a minimum, print_geometries incl. an I/O fault); distinct by the full case spec. calc: sequences of Calculation(OptKeywords) "
        "through CalculationExecutorO in one directory (same name with changed / added constraints, exact repeats)")

# Functions the hand-written parts of coq/C10/Model.v (and the structure-mirroring parts of this harness) were written
# from and that tr/translate_c10.py neither regenerates nor pins by text.  (Translated: _num_attrs, are_satisfied,
# meets_criteria, __post_init__, Optimiser.__init__ guard, iteration, _exceeded_maximum_iteration, NDOptimiser.converged,
# the loop of run, is_satisfied.  Text-pinned by the translator: __mul__, _to_base_units, conv_params, __len__, the
# _coords getter/setter, the rest of run, delta, n_constraints, constrained_primitives, n_satisfied_constraints,
# n_constrained.)
_B, _V = "autode/opt/optimisers/base.py", "autode/values.py"
_D, _C = "autode/opt/coordinates/dic.py", "autode/opt/coordinates/cartesian.py"
PINS = [
    # ext_mul / the sanity comparison / |dE| in conv_params: Value arithmetic and strict comparison
    (_V, "Value.__mul__"), (_V, "Value._like_self_from_float"), (_V, "Value._other_same_units"), (_V, "Value.__lt__"),
    (_V, "Value.__gt__"), (_V, "Value.__abs__"), (_V, "Value.__sub__"),
    # the loop state: history bookkeeping and the gradient/energy update of history.final (evalg)
    (_B, "Optimiser.__init__"), (_B, "NDOptimiser.__init__"), (_B, "Optimiser._update_gradient_and_energy"),
    (_B, "OptimiserHistory.__init__"), (_B, "OptimiserHistory.add"), (_B, "OptimiserHistory.final"),
    (_B, "OptimiserHistory.penultimate"), (_B, "OptimiserHistory.__getitem__"),
    # "a step assigns self._coords at most once" (step : hist -> option entry; None = null step)
    ("autode/opt/optimisers/rfo.py", "RFOptimiser._step"), ("autode/opt/optimisers/rfo.py", "RFOptimiser._take_step_within_trust_radius"),
    ("autode/opt/optimisers/crfo.py", "CRFOptimiser._step"), ("autode/opt/optimisers/crfo.py", "CRFOptimiser._take_step_within_max_move"),
    ("autode/opt/optimisers/prfo.py", "PRFOptimiser._step"), ("autode/opt/optimisers/steepest_descent.py", "SteepestDescent._step"),
    # cart_proj_g / masking / constraint counters per coordinate class
    (_D, "DICWithConstraints.cart_proj_g"), (_D, "DICWithConstraints.inactive_indexes"), (_D, "DICWithConstraints.g"),
    (_D, "DIC.cart_proj_g"), (_C, "CartesianCoordinates.cart_proj_g"), (_C, "CartesianCoordinates.n_constraints"),
    (_C, "CartesianCoordinates.n_satisfied_constraints"),
    # mirrored by the oracles of this harness: preset table, reload, executor defaults, stale-energy classification
    (_B, "ConvergenceParams.from_preset"), (_B, "NDOptimiser.from_file"), (_B, "OptimiserHistory.load"),
    ("autode/calculations/executors.py", "CalculationExecutorO.__init__"),
    ("autode/calculations/executors.py", "CalculationExecutorO.run"),
    ("autode/calculations/executors.py", "CalculationExecutorO._max_opt_cycles"),
    ("autode/calculations/executors.py", "CalculationExecutorO._set_properties_from_optimiser"),
    ("autode/species/species.py", "Species._reset_properties_for"), (_V, "Energies.append"), (_V, "Energy.__eq__"),
    # wrappers / settings / post-run helpers exercised by the oracles (round 3)
    (_B, "NDOptimiser.optimise"), (_B, "NDOptimiser.conv_tol"), (_B, "NDOptimiser.optimiser_params"),
    (_B, "NDOptimiser.print_geometries"), (_B, "print_geometries_from"), (_B, "NDOptimiser._log_convergence"),
    (_B, "OptimiserHistory.close"), (_B, "OptimiserHistory.save_opt_params"), (_B, "OptimiserHistory.get_opt_params"),
    ("autode/calculations/executors.py", "CalculationExecutorO._calc_is_ts_opt"),
    ("autode/calculations/executors.py", "CalculationExecutorO._step_size"),
    ("autode/calculations/executors.py", "CalculationExecutorO._opt_trajectory_name"),
    # how each optimiser builds its coordinates (constraints enter only through CRFO's) and its step helpers
    ("autode/opt/optimisers/rfo.py", "RFOptimiser._initialise_run"), ("autode/opt/optimisers/prfo.py", "PRFOptimiser._initialise_run"),
    ("autode/opt/optimisers/crfo.py", "CRFOptimiser._initialise_run"), ("autode/opt/optimisers/crfo.py", "CRFOptimiser._build_internal_coordinates"),
    ("autode/opt/optimisers/crfo.py", "CRFOptimiser._get_rfo_step"), ("autode/opt/optimisers/crfo.py", "CRFOptimiser._check_shifted_hessian_has_correct_struct"),
    ("autode/opt/optimisers/prfo.py", "PRFOptimiser._get_imag_mode_idx"),
    ("autode/opt/optimisers/steepest_descent.py", "CartesianSDOptimiser._initialise_run"),
    ("autode/opt/optimisers/steepest_descent.py", "DIC_SD_Optimiser._initialise_run"),
    (_D, "DICWithConstraints._calc_U"), (_D, "DICWithConstraints.from_cartesian"),
]

SLICE = ["lib/Sums.v", "lib/QcInst.v", "C10/Base.v", "C10/Model.v", "C10/Lemmas.v", "C10/Props.v", "C10/Corr.v",
         "gen/C10_Gen.v"]
PRE = ("From Coq Require Import ZArith QArith Qcanon List Bool.\nFrom AV.lib Require Import QcInst.\n"
       "From AV.C10 Require Import Base Model Corr.\nFrom AV.gen Require Import C10_Gen.\nImport ListNotations.\n")
ATTRS = ["abs_d_e", "rms_g", "max_g", "rms_s", "max_s"]
GRAD = {"rms_g", "max_g"}
CONSTRAINT_TOL = 1e-4          # ConstrainedPrimitive.is_satisfied default (primitives.py:177-183)


# independent conversion factors to the base units (Ha, Ha/Å, Å) and the documented (ORCA) presets
BOHR = 0.529177210903
TO_BASE = {"abs_d_e": {"Ha": 1.0, "eV": 1.0 / 27.211386245988, "kcalmol": 1.0 / 627.5094740631, "kjmol": 1.0 / 2625.4996394799},
           "grad": {"Ha/ang": 1.0, "Ha/bohr": 1.0 / BOHR, "eV/ang": 1.0 / 27.211386245988},
           "dist": {"ang": 1.0, "bohr": BOHR, "pm": 0.01, "nm": 10.0}}
UNIT_KIND = {"abs_d_e": "abs_d_e", "rms_g": "grad", "max_g": "grad", "rms_s": "dist", "max_s": "dist"}
PRESETS = {"loose": (3e-5, 5e-4, 2e-3, 7e-3, 1e-2), "normal": (5e-6, 1e-4, 3e-4, 2e-3, 4e-3),
           "tight": (1e-6, 3e-5, 1e-4, 6e-4, 1e-3), "verytight": (2e-7, 8e-6, 3e-5, 1e-4, 2e-4)}   # Ha, Ha/bohr, bohr


def independent_tol(spec):
    """The requested thresholds in base units, computed without the implementation. -> ([5 values], strict)"""
    if isinstance(spec, str):
        e, rg, mg, rs, ms = PRESETS[spec]
        return [e, rg / BOHR, mg / BOHR, rs * BOHR, ms * BOHR], False
    out = []
    for a in ATTRS:
        v = spec.get(a)
        if isinstance(v, (list, tuple)):
            v = v[0] * TO_BASE[UNIT_KIND[a]][v[1]]
        out.append(v)
    return out, bool(spec.get("strict", False))


# ============================================================================ Coq literals
def ext(x):
    if x is None:
        return "None"
    x = float(x)
    if math.isnan(x):
        return "(Some NaN)"
    if math.isinf(x):
        return "(Some PInf)" if x > 0 else "(Some NInf)"
    return f"(Some (Fin {qc(x)}))"


def params_lit(vals, strict=False):
    return "(mkP " + " ".join(ext(v) for v in vals) + f" {coq_bool(strict)})"


def res_bool(r):
    return r if isinstance(r, str) else f"(Ok {coq_bool(r)})"


def cp_vals(p):
    return [None if getattr(p, a) is None else float(getattr(p, a)) for a in ATTRS]


def finite(x):
    return x is not None and not math.isnan(x) and not math.isinf(x)


def near_boundary(cvals, vvals, factor_lists):
    """A comparison float(v) <= float(c*f) the exact model could decide differently: the float product is
    inexact and v is within 1e-12 (relative) of the exact product."""
    for f in [[1, 1, 1, 1, 1]] + [fl for fl in factor_lists if len(fl) == 5]:
        for a in range(5):
            c, v = cvals[a], vvals[a]
            if not finite(c) or not finite(v):
                continue
            exact = Fraction(c) * Fraction(f[a])
            if Fraction(c * f[a]) == exact:
                continue
            fv = Fraction(v)
            if abs(fv - exact) <= Fraction(1, 10 ** 12) * max(abs(exact), abs(fv)):
                return True
    return False


# ============================================================================ analytic surfaces
class Pot:
    """Energy as a function of the pair distances; chain rule to Cartesian gradients (Ha, Å)."""

    def e_de(self, r):
        raise NotImplementedError

    def eg(self, x):
        x = np.asarray(x, dtype=float).reshape(-1, 3)
        n = len(x)
        r = {(i, j): float(np.linalg.norm(x[i] - x[j])) for i, j in itertools.combinations(range(n), 2)}
        e, de = self.e_de(r)
        g = np.zeros_like(x)
        for (i, j), d in de.items():
            u = (x[i] - x[j]) / r[(i, j)]
            g[i] += d * u
            g[j] -= d * u
        return float(e), g

    def hess(self, x, h=1e-4):
        x = np.asarray(x, dtype=float).reshape(-1, 3)
        n = x.size
        H = np.zeros((n, n))
        xf = x.flatten()
        for a in range(n):
            xp, xm = xf.copy(), xf.copy()
            xp[a] += h
            xm[a] -= h
            H[:, a] = (self.eg(xp)[1].flatten() - self.eg(xm)[1].flatten()) / (2 * h)
        return 0.5 * (H + H.T)


class BondNet(Pot):
    def __init__(self, terms):
        self.terms = terms      # ["h", i, j, k, r0] | ["m", i, j, D, a, r0]

    def e_de(self, r):
        e, de = 0.0, {}
        for t in self.terms:
            i, j = int(t[1]), int(t[2])
            rr = r[(i, j)]
            if t[0] == "h":
                k, r0 = t[3], t[4]
                e += 0.5 * k * (rr - r0) ** 2
                d = k * (rr - r0)
            else:
                D, a, r0 = t[3], t[4], t[5]
                ex = math.exp(-a * (rr - r0))
                e += D * (1 - ex) ** 2
                d = 2 * D * (1 - ex) * a * ex
            de[(i, j)] = de.get((i, j), 0.0) + d
        return e, de


class LJ(Pot):
    def __init__(self, eps, sig):
        self.eps, self.sig = eps, sig

    def e_de(self, r):
        e, de = 0.0, {}
        for p, rr in r.items():
            s6 = (self.sig / rr) ** 6
            e += 4 * self.eps * (s6 * s6 - s6)
            de[p] = 4 * self.eps * (-12 * s6 * s6 + 6 * s6) / rr
        return e, de


class DW3(Pot):
    """Triatomic double well in q = r01 - r12 with a first-order saddle at q = 0."""

    def __init__(self, A, q0, B, s0, C, r30):
        self.p = (A, q0, B, s0, C, r30)

    def e_de(self, r):
        A, q0, B, s0, C, r30 = self.p
        r1, r2, r3 = r[(0, 1)], r[(1, 2)], r[(0, 2)]
        q, s = r1 - r2, r1 + r2
        e = A * (q * q - q0 * q0) ** 2 + B * (s - s0) ** 2 + C * (r3 - r30) ** 2
        dq, ds = 4 * A * q * (q * q - q0 * q0), 2 * B * (s - s0)
        return e, {(0, 1): dq + ds, (1, 2): -dq + ds, (0, 2): 2 * C * (r3 - r30)}


class DW2(Pot):
    """Diatomic quartic double well in r with a maximum at rm (one negative curvature along the bond)."""

    def __init__(self, A, rm, w):
        self.p = (A, rm, w)

    def e_de(self, r):
        A, rm, w = self.p
        u = r[(0, 1)] - rm
        return A * (u * u - w * w) ** 2, {(0, 1): 4 * A * u * (u * u - w * w)}


def make_pot(spec):
    k = spec["kind"]
    if k == "bondnet":
        return BondNet(spec["terms"])
    if k == "lj":
        return LJ(spec["eps"], spec["sig"])
    if k == "dw3":
        return DW3(*spec["p"])
    if k == "dw2":
        return DW2(*spec["p"])
    raise ValueError(k)


# ============================================================================ the fake external program
# A stand-alone script (written under ctx.work) that reads the generated input file (surface spec + geometry) and
# writes energy and gradient of a bond network: the way the wrapped electronic-structure codes are driven.
EXT_PROGRAM = r'''import json, math, sys
inp, out = sys.argv[1], sys.argv[2]
lines = open(inp).read().splitlines()
terms = json.loads(lines[0])
xyz = [[float(v) for v in l.split()[1:4]] for l in lines[1:] if len(l.split()) == 4]
e, g = 0.0, [[0.0, 0.0, 0.0] for _ in xyz]
for t in terms:
    i, j = int(t[1]), int(t[2])
    d = [xyz[i][k] - xyz[j][k] for k in range(3)]
    r = math.sqrt(sum(c * c for c in d))
    if t[0] == "h":
        e += 0.5 * t[3] * (r - t[4]) ** 2
        de = t[3] * (r - t[4])
    else:
        ex = math.exp(-t[4] * (r - t[5]))
        e += t[3] * (1 - ex) ** 2
        de = 2 * t[3] * (1 - ex) * t[4] * ex
    for k in range(3):
        g[i][k] += de * d[k] / r
        g[j][k] -= de * d[k] / r
with open(out, "w") as f:
    f.write("ENERGY %r\n" % e)
    for row in g:
        f.write("GRAD %r %r %r\n" % tuple(row))
    f.write("NORMAL TERMINATION\n")
'''


# ============================================================================ implementation environment
class Env:
    pass


class _Runaway(Exception):
    pass


def get_env():
    sys.path.insert(0, REPO)
    import logging
    logging.disable(logging.CRITICAL)
    import autode as ade
    import autode.methods as methods_mod
    from autode.wrappers.methods import Method
    from autode.wrappers.keywords.keywords import KeywordsSet, HessianKeywords
    from autode.values import PotentialEnergy, Gradient, GradientRMS, Distance
    from autode.calculations import Calculation
    from autode.calculations.types import CalculationType
    from autode.wrappers.keywords.keywords import OptKeywords
    import copy as _copy
    from autode.hessians import Hessian
    from autode.opt.optimisers.base import ConvergenceParams, NDOptimiser
    from autode.opt.optimisers.steepest_descent import CartesianSDOptimiser, DIC_SD_Optimiser
    from autode.opt.optimisers.rfo import RFOptimiser
    from autode.opt.optimisers.crfo import CRFOptimiser
    from autode.opt.optimisers.prfo import PRFOptimiser
    from autode.opt.coordinates import CartesianCoordinates

    class Mock(Method):
        """Analytic method: energies, gradients and Hessians of a Pot, no external program."""

        def __init__(self, pot):
            super().__init__(name="c10mock", keywords_set=KeywordsSet(), doi_list=[])
            self.pot = pot
            self.log = []

        def __repr__(self):
            return "C10Mock"

        native_opt = True

        def implements(self, calculation_type):
            return self.native_opt or calculation_type != CalculationType.opt

        def __deepcopy__(self, memo):
            # CalculationExecutorO.run works on method.copy(): the evaluation log must stay shared
            new = type(self)(self.pot)
            new.log, new.native_opt = self.log, self.native_opt
            new.keywords = _copy.deepcopy(self.keywords, memo)
            return new

        @property
        def uses_external_io(self):
            return False

        def execute(self, calc):
            mol = calc.molecule
            x = np.array(mol.coordinates, dtype=float).reshape(-1, 3)
            e, g = self.pot.eg(x)
            hk = isinstance(calc.input.keywords, HessianKeywords)
            self.log.append(("hess" if hk else "grad", x.copy(), e, g.copy()))
            mol.energy = PotentialEnergy(e, units="Ha", method=self, keywords=calc.input.keywords)
            mol.gradient = Gradient(g, units="Ha/ang")
            if hk:
                mol.hessian = Hessian(self.pot.hess(x), atoms=mol.atoms, units="Ha Å^-2")

    class FileMock(Method):
        """The same surfaces behind a file interface (uses_external_io = True): input file written by autodE's
        executor, a separate program run on it, output file parsed.  Energy and gradient only."""
        program = None          # path of the script, set by the stream

        def __init__(self, pot_spec):
            super().__init__(name="c10prog", keywords_set=KeywordsSet(), doi_list=[])
            self.pot_spec = pot_spec
            self.log = []
            self.n_exec = 0

        def __repr__(self):
            return "C10FileMock"

        def implements(self, calculation_type):
            return calculation_type in (CalculationType.energy, CalculationType.gradient)

        @property
        def uses_external_io(self):
            return True

        @staticmethod
        def input_filename_for(calc):
            return f"{calc.name}.inp"

        @staticmethod
        def output_filename_for(calc):
            return f"{calc.name}.out"

        def generate_input_for(self, calc):
            with open(calc.input.filename, "w") as f:
                f.write(json.dumps(self.pot_spec["terms"]) + "\n")
                for atom in calc.molecule.atoms:
                    x, y, z = (float(v) for v in atom.coord)
                    f.write(f"{atom.label} {x!r} {y!r} {z!r}\n")

        def execute(self, calc):
            self.n_exec += 1
            rc, out = sh([sys.executable, FileMock.program, calc.input.filename, calc.output.filename], timeout=60)
            if rc != 0:
                raise RuntimeError("fake program failed: " + out[-300:])
            # what the program evaluated: geometry of the input file, values of the output file
            x = np.array([[float(v) for v in l.split()[1:4]] for l in open(calc.input.filename).read().splitlines()[1:]
                          if len(l.split()) == 4])
            lines = open(calc.output.filename).read().splitlines()
            e = float([l for l in lines if l.startswith("ENERGY")][0].split()[1])
            g = np.array([[float(v) for v in l.split()[1:4]] for l in lines if l.startswith("GRAD")])
            self.log.append(("grad", x, e, g))

        def terminated_normally_in(self, calc):
            return any("NORMAL TERMINATION" in l for l in calc.output.file_lines)

        def energy_from(self, calc):
            for l in calc.output.file_lines:
                if l.startswith("ENERGY"):
                    return PotentialEnergy(float(l.split()[1]), units="Ha")
            raise RuntimeError("no energy in output")

        def gradient_from(self, calc):
            return Gradient(np.array([[float(v) for v in l.split()[1:4]] for l in calc.output.file_lines
                                      if l.startswith("GRAD")]), units="Ha/ang")

    class SCoords(CartesianCoordinates):
        """Cartesian coordinates with one (scripted) constraint: satisfied or not by coordinate id."""
        TABLE = {}

        @property
        def n_constraints(self):
            return 1

        @property
        def n_satisfied_constraints(self):
            return 1 if SCoords.TABLE.get(float(np.asarray(self)[0]), True) else 0

    class Scripted(NDOptimiser):
        """The REAL run()/converged/_exceeded_maximum_iteration/iteration with scripted _step and energies."""

        def __init__(self, script, fuel, **kw):
            self.script, self.fuel, self.j, self.passes = script, fuel, 0, 0
            super().__init__(callback=self._guard, **kw)

        def _guard(self, coords):
            if self.passes >= self.fuel:
                raise _Runaway()
            self.passes += 1

        def _initialise_run(self):
            self._coords = SCoords(np.full(6, self.script["X"][0]))
            self._update_gradient_and_energy()

        def _step(self):
            if self.script["STP"][self.j - 1]:
                self._coords = SCoords(np.full(6, self.script["X"][len(self._history)]))

        def _update_gradient_and_energy(self):
            c = self._coords
            c.e = PotentialEnergy(self.script["E"][self.j])
            c.g = np.full(6, self.script["G"][self.j])
            self.j += 1

    # picklable by the trajectory writer: make the scripted coordinate class importable from this module
    SCoords.__qualname__ = "SCoords"
    SCoords.__module__ = __name__
    globals()["SCoords"] = SCoords
    env = Env()
    env.ade, env.methods_mod, env.Mock, env.CP = ade, methods_mod, Mock, ConvergenceParams
    env.SCoords, env.Scripted = SCoords, Scripted
    env.PotentialEnergy, env.GradientRMS, env.Distance = PotentialEnergy, GradientRMS, Distance
    env.Calculation, env.OptKeywords = Calculation, OptKeywords
    env.FileMock = FileMock
    from autode.opt.coordinates.primitives import PrimitiveDistance
    from autode.wrappers.keywords.keywords import OptTSKeywords, MaxOptCycles
    env.PrimitiveDistance, env.CartesianCoordinates = PrimitiveDistance, CartesianCoordinates
    env.OptTSKeywords, env.MaxOptCycles = OptTSKeywords, MaxOptCycles
    env.classes = {"sd_cart": CartesianSDOptimiser, "sd_dic": DIC_SD_Optimiser, "rfo": RFOptimiser,
                   "crfo": CRFOptimiser, "prfo": PRFOptimiser}
    env.base_file = os.path.join(REPO, "autode", "opt", "optimisers", "base.py")
    return env


def make_value(env, a, v):
    """A threshold as the user would write it: a bare number (base units) or [number, unit] -> a Value object"""
    if not isinstance(v, (list, tuple)):
        return v
    cls = {"abs_d_e": env.PotentialEnergy, "grad": env.GradientRMS, "dist": env.Distance}[UNIT_KIND[a]]
    return cls(v[0], units=v[1])


def make_tol(env, spec):
    if isinstance(spec, str):
        return env.CP.from_preset(spec)
    return env.CP(**{a: make_value(env, a, spec[a]) for a in ATTRS if spec.get(a) is not None},
                  strict=bool(spec.get("strict", False)))


# ============================================================================ stream 1: ConvergenceParams
RATIOS = [0.0, 0.05, 0.09, 0.11, 0.19, 0.21, 0.45, 0.5, 0.55, 0.69, 0.71, 0.79, 0.81, 0.99, 1.0, 1.01, 1.4, 1.5, 1.6,
          1.9, 2.0, 2.1, 2.9, 3.0, 3.1, 10.0]


def call_result(f):
    try:
        return f(), None
    except ValueError:
        return None, "ValueError"
    except TypeError:
        return None, "TypeError"
    except AssertionError:
        return None, "AssertionError"


def decision_oracle(cvals, strict, vvals, answer):
    """The property, evaluated directly on what the implementation answered.  -> None or description"""
    if answer is not True:
        return None
    for a, c, v in zip(ATTRS, cvals, vvals):
        if c is None or not finite(c):
            continue
        k = 1.0 if (strict or a in GRAD) else 3.0
        if v is None or not (v <= k * c * (1 + 1e-12)):
            return (f"meets_criteria returned True with {a} = {v!r} for threshold {c!r} "
                    f"({'strict' if strict else 'relaxed'}: allowed {k:g} x threshold)")
    return None


def params_cases(ctx, env, factor_lists, full):
    rng = ctx.rng
    crit = []
    for name in ("loose", "normal", "tight", "verytight"):
        p = env.CP.from_preset(name)
        crit.append(cp_vals(p))
    n_rand = 30 if full else 5
    for _ in range(n_rand):
        m = rng.choice([6, 10, 14])
        c = [rng.randint(1, 64) / 2 ** m if rng.random() > 0.25 else None for _ in ATTRS]
        if c[1] is None:
            c[1] = rng.randint(1, 64) / 2 ** m
        if rng.random() < 0.15:
            c[rng.choice([0, 3, 4])] = 0.0
        crit.append(c)
    crit.append([None, 1 / 64, None, None, None])
    crit.append([1 / 128, 1 / 64, 1 / 32, math.inf, 1 / 16])
    cases = []
    for c in crit:
        profiles = []
        for r in (RATIOS if full else rng.sample(RATIOS, 9) + [1.0, 3.0]):
            profiles.append([None if x is None else x * r for x in c])
        rules = [[1, 1, 1, 1, 1]] + [f for f in factor_lists if len(f) == 5]
        for f in rules:
            for delta in (0.99, 1.0, 1.01):
                base = [None if x is None else x * fa * delta for x, fa in zip(c, f)]
                profiles.append(base)
                for a in (range(5) if full else rng.sample(range(5), 1)):
                    if base[a] is not None:
                        p = list(base)
                        p[a] = c[a] * f[a] * 1.02
                        profiles.append(p)
        for _ in range(12 if full else 4):
            profiles.append([None if x is None else x * rng.choice(RATIOS) for x in c])
        sp = [None if x is None else x * 0.4 for x in c]
        for a, val in ((0, math.inf), (1, math.nan), (3, math.inf), (2, None), (4, 0.0), (0, None)):
            p = list(sp)
            p[a] = val
            profiles.append(p)
        for v in profiles:
            # attributes whose criterion is unset still carry a measured number
            v = [rng.choice([0.001, 5.0, math.inf]) if (x is None and c[i] is None) else x for i, x in enumerate(v)]
            if v[1] is None:
                continue          # the measured object itself needs rms_g
            for strict in ((False, True) if full or rng.random() < 0.5 else (False,)):
                cases.append((c, strict, v))
    return cases


def stream_params(ctx, env, factor_lists, full, fail):
    terms, descr = [], []
    skipped = 0
    for c, strict, v in params_cases(ctx, env, factor_lists, full):
        cobj, cerr = call_result(lambda: env.CP(**dict(zip(ATTRS, c)), strict=strict))
        vobj, verr = call_result(lambda: env.CP(**dict(zip(ATTRS, v))))
        if cobj is None or vobj is None:
            continue
        cv, vv = cp_vals(cobj), cp_vals(vobj)
        ans, err = call_result(lambda: bool(cobj.meets_criteria(vobj)))
        sat, serr = call_result(lambda: [bool(b) for b in cobj.are_satisfied(vobj)])
        key = (tuple(cv), strict, tuple(repr(x) for x in vv))
        if sat is not None and any(c_a is None and not s_a for c_a, s_a in zip(cv, sat)):
            fail("are_satisfied|unset-criterion-not-satisfied",
                 f"are_satisfied = {sat} for criteria {dict(zip(ATTRS, cv))}: an unset criterion must count as satisfied",
                 {"kind": "params", "criteria": dict(zip(ATTRS, cv)), "strict": strict, "values": dict(zip(ATTRS, vv))})
        what = decision_oracle(cv, strict, vv, ans)
        if what:
            fail("meets_criteria|criterion-exceeded", what,
                 {"kind": "params", "criteria": dict(zip(ATTRS, cv)), "strict": strict, "values": dict(zip(ATTRS, vv))})
        if near_boundary(cv, vv, factor_lists):
            skipped += 1
            ctx.hist("params", "margin-skipped")
            continue
        ctx.hist("params", "True" if ans else ("False" if err is None else err))
        d = {"kind": "params", "criteria": dict(zip(ATTRS, cv)), "strict": strict,
             "values": dict(zip(ATTRS, [repr(x) for x in vv])), "impl": ans if err is None else err}
        C, V = params_lit(cv, strict), params_lit(vv)
        sat_t = f"(Ok {coq_list([coq_bool(b) for b in sat])})" if serr is None else serr
        terms.append(f"(check_meets {C} {V} {res_bool(ans if err is None else err)} && check_sat {C} {V} {sat_t})")
        descr.append(d)
        ctx.count("params", key, nontrivial=any(finite(x) for x in cv), sample=d)
    # thresholds written in other units must be stored (and compared) in base units
    rng = ctx.rng
    unit_specs = [{"abs_d_e": [0.01, "kcalmol"], "rms_g": [0.02, "eV/ang"], "max_g": [0.05, "eV/ang"],
                   "rms_s": [0.004, "bohr"], "max_s": [1.0, "pm"]},
                  {"abs_d_e": [0.05, "kjmol"], "rms_g": [2e-4, "Ha/bohr"], "max_g": None, "rms_s": [0.0005, "nm"], "max_s": None},
                  {"abs_d_e": [1e-4, "eV"], "rms_g": [1e-3, "Ha/ang"], "max_g": [0.1, "eV/ang"], "rms_s": None, "max_s": [0.01, "bohr"]}]
    for _ in range(6 if full else 2):
        unit_specs.append({a: (None if (a != "rms_g" and rng.random() < 0.3) else
                               [round(rng.uniform(0.5, 5.0), 3) * {"abs_d_e": 1e-2, "grad": 1e-2, "dist": 1e-2}[UNIT_KIND[a]],
                                rng.choice(sorted(TO_BASE[UNIT_KIND[a]]))]) for a in ATTRS})
    for spec in unit_specs:
        for strict in (False, True):
            spec = dict(spec, strict=strict)
            want, _ = independent_tol(spec)
            cobj, cerr = call_result(lambda: make_tol(env, spec))
            rep = {"kind": "params-units", "criteria": spec}
            ctx.count("params", ("units", json.dumps(spec, sort_keys=True)), sample=rep if not strict else None)
            if cobj is None:
                fail("ConvergenceParams|threshold-units-not-converted", f"ConvergenceParams({spec}) raised {cerr}", rep)
                continue
            got = cp_vals(cobj)
            bad = [f"{a}: {spec[a]} stored as {g!r}, is {w!r} in base units" for a, g, w in zip(ATTRS, got, want)
                   if (g is None) != (w is None) or (w is not None and abs(g - w) > 1e-4 * abs(w))]
            if bad:
                fail("ConvergenceParams|threshold-units-not-converted",
                     "thresholds given in non-base units are not converted to Ha, Ha/Å, Å: " + "; ".join(bad), rep)
            for r in (0.5, 0.95, 1.05, 2.5, 3.5):
                vv = [None if w is None else w * r for w in want]
                vv = [0.001 if x is None else x for x in vv]
                ans, err = call_result(lambda: bool(cobj.meets_criteria(env.CP(**dict(zip(ATTRS, vv))))))
                what = decision_oracle(want, strict, vv, ans)
                if what:
                    fail("meets_criteria|criterion-exceeded", what + f" [thresholds requested as {spec}]",
                         dict(rep, values=dict(zip(ATTRS, vv))))
    # the decision depends on its two arguments only: families of criteria that differ by less than the precision they
    # are printed with, evaluated one after the other in this process (looser first), on the same measured values
    for scale in (1e-3, 1e-4, 1e-5, 1e-6):
        for shape in ([1, 1, 1, 1, 1], [None, 1, None, None, None], [1, 1, 2, None, None]):
            loose = [None if k is None else 1.4 * scale * k for k in shape]
            tight = [None if k is None else 0.6 * scale * k for k in shape]
            vv = [0.001 if c is None else c * (0.69 if a in GRAD else 0.9) for a, c in zip(ATTRS, loose)]
            vobj = env.CP(**dict(zip(ATTRS, vv)))
            for cvals in (loose, tight, loose, tight):
                ans, err = call_result(lambda: bool(env.CP(**dict(zip(ATTRS, cvals))).meets_criteria(vobj)))
                ctx.count("params", ("sequence", scale, tuple(shape), tuple(cvals)))
                what = decision_oracle(cvals, False, vv, ans)
                if what:
                    fail("meets_criteria|criterion-exceeded",
                         what + " [after the same values were judged against criteria 1.4/0.6 times as large]",
                         {"kind": "params-sequence", "sequence": [loose, tight, loose, tight], "values": vv})
    # constructor and multiplication
    ctor = [[1e-3, 1e-3, 1e-3, 1e-3, 1e-3], [0.0, 1e-3, 0.0, 0.0, 0.0], [1e-3, 0.0, 1e-3, 1e-3, 1e-3],
            [-1e-3, 1e-3, None, None, None], [1e-3, -1e-9, None, None, None], [None, 1e-3, None, None, -0.5],
            [1e-3, None, 1e-3, None, None], [math.inf, 1e-3, math.inf, math.inf, math.inf],
            [math.nan, 1e-3, None, None, None], [-math.inf, 1e-3, None, None, None], [None, 1e-3, None, None, None],
            [None, math.inf, None, None, None]]
    for vals in ctor:
        obj, err = call_result(lambda: env.CP(**dict(zip(ATTRS, vals))))
        ok = obj is not None
        if err not in (None, "ValueError"):
            ok = None
        d = {"kind": "construct", "values": [repr(x) for x in vals], "impl": "ok" if ok else err}
        terms.append(f"check_construct {params_lit(vals)} {coq_bool(bool(ok))}" if ok is not None else "false")
        descr.append(d)
        ctx.count("params", ("ctor", tuple(repr(x) for x in vals)), sample=None)
        legit = vals[1] is not None and all(x is None or (not math.isnan(x) and x >= 0) for x in vals)
        if legit and not ok:
            fail("ConvergenceParams|rejects-legitimate-values",
                 f"ConvergenceParams({dict(zip(ATTRS, vals))}) raised {err}: zero / +inf are values conv_params produces",
                 {"kind": "construct", "values": dict(zip(ATTRS, [repr(x) for x in vals]))})
    muls = [f for f in factor_lists] + [[1, 1, 1, 1, 1], [0.5, 2, 1, 1], [1, 1, 1, 1, 1, 1], [1, -1, 1, 1, 1],
                                         [0, 1, 1, 0, 0], [-2, 1, 1, 1, 1]]
    bases = [[1 / 64, 1 / 32, 3 / 64, 1 / 16, 5 / 64], [None, 1 / 32, None, 1 / 16, None],
             [math.inf, 1 / 32, 0.0, math.inf, 1 / 8], [0.0, 1 / 32, None, None, None]]
    for b, f in itertools.product(bases, muls):
        for strict in (False, True):
            cobj, cerr = call_result(lambda: env.CP(**dict(zip(ATTRS, b)), strict=strict))
            if cobj is None:
                continue        # rejected by the constructor: reported by the constructor cases above
            prod, err = call_result(lambda: cobj * f)
            exp = err if prod is None else f"(Ok {params_lit(cp_vals(prod), bool(prod.strict))})"
            d = {"kind": "mul", "criteria": [repr(x) for x in b], "factors": f, "strict": strict,
                 "impl": err if prod is None else [repr(x) for x in cp_vals(prod)]}
            terms.append(f"check_mul {params_lit(cp_vals(cobj), strict)} {qc_list(f)} {exp}")
            descr.append(d)
            ctx.count("params", ("mul", tuple(repr(x) for x in b), tuple(f), strict))
    ctx.cov["streams"].setdefault("params", {})["margin_skipped"] = skipped
    return terms, descr


# ============================================================================ stream 2: scripted loop
SAFE = [Fraction(1, 16), Fraction(7, 16), Fraction(5, 8), Fraction(3, 4), Fraction(7, 8), Fraction(1), Fraction(5, 4),
        Fraction(7, 4), Fraction(5, 2), Fraction(23, 8), Fraction(7, 2), Fraction(10)]


def run_scripted(env, d, name, fail):
    """Drive the real Optimiser.run / NDOptimiser.converged with the script d; apply the loop oracles.
    -> (kind, iteration, flag)  kind: 0 left the loop, 1 exception from the bookkeeping, 2 more than fuel passes"""
    script, SAT, maxiter = d["script"], d["SAT"], d["maxiter"]
    env.SCoords.TABLE = {x: s for x, s in zip(script["X"], SAT)}     # X is strictly increasing: ids are distinct
    tolobj = env.CP(**dict(zip(ATTRS, d["criteria"])), strict=d["strict"])
    extra = {"coords": env.SCoords(np.full(6, script["X"][0]))} if d.get("coords_arg") else {}
    opt = env.Scripted(script, d["fuel"], maxiter=maxiter, conv_tol=tolobj, **extra)
    mol = env.ade.Molecule(name=name, atoms=[env.ade.Atom("H"), env.ade.Atom("H", x=1.0)])
    kind = 0
    try:
        opt.run(mol, env.Mock(None), name=f"{name}_opt_trj.zip")
    except _Runaway:
        kind = 2
    except (ValueError, TypeError, AssertionError):
        kind = 1
    try:
        flag = res_bool(bool(opt.converged))
    except (ValueError, TypeError, AssertionError) as e:
        flag = type(e).__name__
    it = opt.iteration
    try:
        opt.clean_up()
    except Exception:  # noqa
        pass
    final_id = len(opt._history) - 1
    if flag == "(Ok true)" and not SAT[final_id]:
        fail("converged|constraint-unmet:scripted",
             f"scripted run: NDOptimiser.converged is True at iteration {it} although the (single) constraint of "
             f"the final coordinates is not satisfied (n_constraints=1, n_satisfied_constraints=0)", d)
    if it > maxiter:
        fail("run|iteration-exceeds-maxiter:scripted", f"scripted run: iteration {it} > maxiter {maxiter}", d)
    if kind == 0 and flag == "(Ok false)" and it < maxiter:
        fail("run|stopped-early-unconverged:scripted",
             f"scripted run left the loop at iteration {it} < maxiter {maxiter} without convergence", d)
    if d.get("coords_arg"):
        pass    # constructor `coords=`: conv_params asserts on the unevaluated user coordinates (modelled: PRE = true)
    elif kind == 1 or flag not in ("(Ok true)", "(Ok false)"):
        fail("run|convergence-bookkeeping-raises:scripted",
             f"scripted run: converged / conv_params raised ({flag}) on non-negative measures", d)
    return kind, it, flag


def stream_scripted(ctx, env, full, fail):
    rng = ctx.rng
    terms, descr = [], []
    n = 160 if full else 48
    for case_i in range(n):
        maxiter = rng.choice([1, 1, 2, 3, 4, 6, 9])
        fuel = rng.choice([maxiter, maxiter, maxiter + 2, max(1, maxiter - 1), 2 * maxiter + 1])
        c = [Fraction(rng.randint(1, 32), 1024) if rng.random() > 0.2 else None for _ in ATTRS]
        if c[1] is None:
            c[1] = Fraction(rng.randint(1, 32), 1024)
        strict = rng.random() < 0.25
        L = max(fuel, maxiter) + 4
        conv_bias = rng.random()        # how strongly the script drifts towards convergence
        def ratio():
            return rng.choice(SAFE[:7]) if rng.random() < conv_bias else rng.choice(SAFE)
        ce, cg, cx = (c[0] or Fraction(1, 64)), c[1], (c[3] or c[4] or Fraction(1, 64))
        if c[2] is not None and rng.random() < 0.5:
            cg = c[2]
        E, X, G = [Fraction(1)], [Fraction(0)], []
        for _ in range(L):
            E.append(E[-1] - ratio() * ce)
            X.append(X[-1] + ratio() * cx)
        for _ in range(L + 1):
            G.append(ratio() * cg * rng.choice([1, -1]))
        STP = [rng.random() > 0.15 for _ in range(L + 1)]
        SAT = [rng.random() > 0.2 for _ in range(L + 1)]
        script = {"X": [float(x) for x in X], "E": [float(e) for e in E], "G": [float(g) for g in G], "STP": STP}
        d = {"kind": "scripted", "maxiter": maxiter, "fuel": fuel, "criteria": [None if v is None else float(v) for v in c],
             "strict": strict, "script": script, "SAT": SAT, "coords_arg": case_i % 8 == 5}
        kind, it, flag = run_scripted(env, d, f"c10s{case_i}", fail)
        d["impl"] = {"kind": kind, "iteration": it, "converged": flag}
        ctx.hist("scripted", ["done", "raised", "fuel"][kind] + ":" + flag)
        ctx.hist("scripted", "coords-arg" if d["coords_arg"] else "default-history")
        terms.append(f"check_scripted {coq_list([coq_bool(b) for b in STP])} {qc_list(X)} {qc_list(E)} {qc_list(G)} "
                     f"{coq_list([coq_bool(b) for b in SAT])} {coq_bool(d['coords_arg'])} {params_lit([None if v is None else float(v) for v in c], strict)} "
                     f"{coq_nat(maxiter)} {coq_nat(fuel)} {coq_nat(kind)} {coq_nat(it)} {flag}")
        descr.append(d)
        ctx.count("scripted", (case_i, maxiter, fuel, strict), sample={k: d[k] for k in ("maxiter", "fuel", "impl")})
    return terms, descr


# ============================================================================ stream 3: real optimisers
TEMPLATES = {
    "tri": [["O", 0.0, 0.3, 0.0], ["H", -0.9, -0.2, 0.05], ["H", 0.85, -0.15, 0.0]],
    "tetra": [["N", 0.0, 0.0, 0.0], ["H", 1.0, 0.1, 0.0], ["H", -0.3, 1.0, 0.1], ["H", -0.4, -0.5, 0.9]],
    "ar3": [["Ar", 0.0, 0.0, 0.0], ["Ar", 1.9, 0.1, 0.0], ["Ar", 0.8, 1.6, 0.2]],
    "ar4": [["Ar", 0.0, 0.0, 0.0], ["Ar", 1.9, 0.1, 0.0], ["Ar", 0.8, 1.6, 0.2], ["Ar", 0.9, 0.6, 1.5]],
    "hoh_ts": [["H", -1.0, 0.0, 0.0], ["O", 0.1, 0.45, 0.0], ["H", 1.05, 0.02, 0.0]],
    "h2": [["H", 0.0, 0.0, 0.0], ["H", 1.25, 0.0, 0.0]],
}


def gen_cases(ctx, full):
    rng = ctx.rng
    u = rng.uniform
    cases = []

    def perturb(tmpl, sigma):
        return [[a[0]] + [round(c + rng.gauss(0, sigma), 4) for c in a[1:]] for a in TEMPLATES[tmpl]]

    def tol_choice():
        r = rng.random()
        if r < 0.55:
            return rng.choice(["loose", "normal", "normal", "tight", "verytight"])
        if r < 0.7:
            return {"rms_g": rng.choice([1e-3, 2e-4]), "strict": rng.random() < 0.5}
        if r < 0.85:
            return {"abs_d_e": 5e-6, "rms_g": 2e-4, "max_g": 6e-4, "rms_s": 1e-3, "max_s": 2e-3, "strict": True}
        return {"abs_d_e": rng.choice([1e-5, 1e-6]), "rms_g": rng.choice([5e-4, 1e-4]), "max_g": None,
                "rms_s": rng.choice([None, 2e-3]), "max_s": None, "strict": False}

    def surfaces():
        r0 = [round(u(0.9, 1.3), 3), round(u(0.9, 1.3), 3), round(u(1.4, 1.8), 3)]
        yield ("harm3", {"kind": "bondnet", "terms": [["h", 0, 1, round(u(0.3, 0.8), 3), r0[0]],
                                                        ["h", 0, 2, round(u(0.3, 0.8), 3), r0[1]],
                                                        ["h", 1, 2, round(u(0.2, 0.5), 3), r0[2]]]}, "tri")
        yield ("morse3", {"kind": "bondnet", "terms": [["m", 0, 1, round(u(0.1, 0.3), 3), round(u(1.4, 2.0), 2), r0[0]],
                                                         ["m", 0, 2, round(u(0.1, 0.3), 3), round(u(1.4, 2.0), 2), r0[1]],
                                                         ["h", 1, 2, round(u(0.15, 0.3), 3), r0[2]]]}, "tri")
        yield ("harm4", {"kind": "bondnet", "terms": [["h", 0, 1, 0.5, 1.1], ["h", 0, 2, 0.45, 1.05], ["h", 0, 3, 0.55, 1.1],
                                                        ["h", 1, 2, 0.2, 1.55], ["h", 1, 3, 0.2, 1.6], ["h", 2, 3, 0.25, 1.6]]},
               "tetra")
        yield ("lj3", {"kind": "lj", "eps": round(u(0.005, 0.02), 4), "sig": round(u(1.4, 1.6), 3)}, "ar3")
        yield ("lj4", {"kind": "lj", "eps": round(u(0.005, 0.02), 4), "sig": round(u(1.4, 1.6), 3)}, "ar4")
        yield ("dw3", {"kind": "dw3", "p": [round(u(1.0, 3.0), 2), round(u(0.2, 0.35), 2), round(u(0.6, 1.2), 2), 2.2,
                                            round(u(0.3, 0.7), 2), 1.9]}, "hoh_ts")
        yield ("dw2", {"kind": "dw2", "p": [round(u(0.5, 1.5), 2), 1.5, round(u(0.3, 0.45), 2)]}, "h2")

    rounds = 6 if full else 1
    idx = 0
    for _ in range(rounds):
        for sname, pot, tmpl in surfaces():
            opts = [("sd_cart", {"step_size": round(u(0.3, 0.6), 2)}), ("sd_dic", {"step_size": round(u(0.3, 0.6), 2)}),
                    ("rfo", {"init_alpha": round(u(0.05, 0.2), 3)}), ("crfo", {"init_trust": round(u(0.05, 0.15), 3)})]
            if sname in ("dw3", "dw2"):
                opts.append(("prfo", {"init_alpha": round(u(0.03, 0.1), 3)}))
                opts.append(("prfo", {"init_alpha": 0.05, "recalc_hessian_every": rng.choice([2, 3, 10])}))
            if sname in ("lj3", "lj4", "morse3") :
                opts = [o for o in opts if o[0] != "sd_dic" or sname == "morse3"]
            for oname, kw in opts:
                sig = rng.choice([0.03, 0.08, 0.15]) if oname != "prfo" else rng.choice([0.01, 0.03])
                if sname == "dw2" and oname != "prfo":
                    sig = 0.15
                atoms = perturb(tmpl, sig)
                if sname == "dw2":
                    atoms = [["H", 0.0, 0.0, 0.0], ["H", round(1.5 + (rng.gauss(0, 0.03) if oname == "prfo" else rng.choice([-1, 1]) * u(0.1, 0.3)), 4), 0.0, 0.0]]
                tiny = rng.random() < 0.25
                case = {"name": f"c10r{idx}", "surface": sname, "pot": pot, "atoms": atoms, "opt": oname, "kwargs": kw,
                        "tol": tol_choice(), "maxiter": rng.choice([1, 2, 3]) if tiny else rng.choice([40, 80, 200]),
                        "constraints": []}
                cases.append(case)
                idx += 1
            # constrained CRFO (distance constraints on one or two pairs)
            if sname in ("harm3", "morse3", "harm4", "dw3"):
                for ncons in (1, 2):
                    atoms = perturb(tmpl, 0.05)
                    pairs = [(0, 1), (1, 2)] if sname != "harm4" else [(0, 1), (0, 3)]
                    cons = [[i, j, round(u(0.95, 1.35), 3)] for i, j in pairs[:ncons]]
                    cases.append({"name": f"c10r{idx}", "surface": sname, "pot": pot, "atoms": atoms, "opt": "crfo",
                                  "kwargs": {"init_trust": round(u(0.05, 0.15), 3)}, "tol": tol_choice(),
                                  "maxiter": rng.choice([2, 60, 150]), "constraints": cons})
                    idx += 1
    # exact stationary starts (zero gradient, then zero step and zero energy change) and a single atom
    for oname, kw in (("sd_cart", {"step_size": 0.4}), ("rfo", {}), ("crfo", {})):
        cases.append({"name": f"c10r{idx}", "surface": "harm2-at-minimum", "pot": {"kind": "bondnet", "terms": [["h", 0, 1, 0.5, 1.25]]},
                      "atoms": TEMPLATES["h2"], "opt": oname, "kwargs": kw, "tol": rng.choice(["normal", "tight"]),
                      "maxiter": 10, "constraints": []})
        idx += 1
    cases.append({"name": f"c10r{idx}", "surface": "harm2-at-minimum", "pot": {"kind": "bondnet", "terms": [["h", 0, 1, 0.5, 1.25]]},
                  "atoms": TEMPLATES["h2"], "opt": "rfo", "kwargs": {}, "tol": {"rms_g": 1e-4}, "maxiter": 5, "constraints": []})
    # long trajectories (> 10 stored points) so that the reload oracle sees two-digit entry names
    for oname, kw, tolspec in (("sd_cart", {"step_size": 0.12}, "tight"), ("sd_dic", {"step_size": 0.1}, "normal")):
        cases.append({"name": f"c10r{idx + 6 + len(cases) % 2}{oname}", "surface": "harm3-long",
                      "pot": {"kind": "bondnet", "terms": [["h", 0, 1, 0.5, 1.0], ["h", 0, 2, 0.6, 1.1], ["h", 1, 2, 0.3, 1.6]]},
                      "atoms": perturb("tri", 0.1), "opt": oname, "kwargs": kw, "tol": tolspec, "maxiter": 300,
                      "constraints": [], "min_iterations": 11})
    # thresholds requested in non-base units
    for oname, kw in (("sd_cart", {"step_size": 0.4}), ("rfo", {}), ("crfo", {})):
        cases.append({"name": f"c10ru{oname}", "surface": "harm3-units",
                      "pot": {"kind": "bondnet", "terms": [["h", 0, 1, 0.5, 1.0], ["h", 0, 2, 0.6, 1.1], ["h", 1, 2, 0.3, 1.6]]},
                      "atoms": perturb("tri", 0.1), "opt": oname, "kwargs": kw, "maxiter": 200, "constraints": [],
                      "tol": {"abs_d_e": [0.01, "kcalmol"], "rms_g": [0.02, "eV/ang"], "max_g": [0.05, "eV/ang"],
                              "rms_s": [0.01, "bohr"], "max_s": [2.0, "pm"], "strict": rng.random() < 0.5}})
    # energies/gradients through input/output files; a second optimisation of an equally named species from another
    # start in the same directory must not be fed the first one's results
    ext_pot = {"kind": "bondnet", "terms": [["m", 0, 1, 0.15, 1.8, 0.97], ["m", 0, 2, 0.15, 1.8, 0.97], ["m", 1, 2, 0.15, 1.8, 1.55]]}
    starts = [[["O", -0.0011, 0.3631, 0.0], ["H", -0.88, -0.1819, 0.05], ["H", 0.8261, -0.25, 0.0]],
              [["O", 0.0, 0.40, 0.0], ["H", -1.05, -0.30, 0.0], ["H", 0.62, -0.12, 0.10]]]
    ext_opts = [("crfo", {}), ("sd_cart", {"step_size": 0.4})] + ([("rfo", {}), ("sd_dic", {"step_size": 0.4})] if full else [])
    for oname, kw in ext_opts:
        for keep in (True, False):
            mk = lambda st: {"name": f"c10x{oname}", "surface": "morse3-extio", "pot": ext_pot, "atoms": st, "opt": oname,   # noqa
                             "kwargs": kw, "tol": "normal", "maxiter": 200, "constraints": [], "extio": True,
                             "keep_input_files": keep}
            first = mk(starts[0])
            cases.append(first)
            cases.append(dict(mk(starts[1]), prior_cases=[first]))
    # a step far below 1e-8 A (the geometry-change threshold of Species._reset_properties_for)
    cases.append({"name": f"c10r{idx + 2}", "surface": "harm2-tiny-step", "pot": {"kind": "bondnet", "terms": [["h", 0, 1, 0.5, 1.25]]},
                  "atoms": [["H", 0.0, 0.0, 0.0], ["H", 1.25 + 1e-8, 0.0, 0.0]], "opt": "sd_cart", "kwargs": {"step_size": 0.4},
                  "tol": "normal", "maxiter": 5, "constraints": []})
    # constrained searches with loose, gradient-only criteria (the constraint gate is then the only guard)
    for k in range(3 if full else 2):
        cases.append({"name": f"c10r{idx + 3 + k}", "surface": "harm3-loose-constrained",
                      "pot": {"kind": "bondnet", "terms": [["h", 0, 1, 0.5, 1.0], ["h", 0, 2, 0.6, 1.1], ["h", 1, 2, 0.3, 1.6]]},
                      "atoms": perturb("tri", 0.05), "opt": "crfo", "kwargs": {"init_trust": round(u(0.05, 0.15), 3)},
                      "tol": {"rms_g": [1e-1, 2e-2, 5e-3][k], "strict": False}, "maxiter": 60,
                      "constraints": [[0, 1, round(u(1.2, 1.5), 3)]] + ([[1, 2, round(u(1.7, 1.9), 3)]] if k else [])})
    cases.append({"name": f"c10r{idx + 1}", "surface": "single-atom", "pot": {"kind": "lj", "eps": 0.01, "sig": 1.5},
                  "atoms": [["Ar", 0.1, 0.2, 0.3]], "opt": "crfo", "kwargs": {}, "tol": "normal", "maxiter": 5,
                  "constraints": []})
    return cases + fixed_cases(full)


H3_POT = {"kind": "bondnet", "terms": [["h", 0, 1, 0.5, 1.0], ["h", 0, 2, 0.6, 1.1], ["h", 1, 2, 0.3, 1.6]]}
H3_START = [["O", 0.02, 0.32, 0.0], ["H", -0.93, -0.22, 0.04], ["H", 0.88, -0.13, 0.02]]
H3_FAR = [["O", 0.05, 0.40, 0.0], ["H", -1.10, -0.30, 0.10], ["H", 1.00, -0.05, -0.05]]
DW3_POT = {"kind": "dw3", "p": [2.0, 0.3, 1.0, 2.2, 0.5, 1.9]}
DW3_TS = [["H", -1.0, 0.01, 0.0], ["O", 0.1, 0.45, 0.0], ["H", 1.04, 0.02, 0.01]]
DW3_MIN = [["H", -1.25, 0.0, 0.0], ["O", 0.0, 0.0, 0.0], ["H", 0.458, 0.8323, 0.0]]
DW2_POT = {"kind": "dw2", "p": [1.0, 1.5, 0.4]}


def fixed_cases(full):
    """Seed-independent cases: a floor of well-behaved converging runs per optimiser (so that an edit which makes a
    whole class of runs raise cannot pass silently), the wrappers/settings of the optimiser API, and the inputs on
    which the unchanged code is known to miss a clause of the property."""
    out = []

    def add(name, surface, pot, atoms, opt, kwargs=None, tol="normal", maxiter=200, constraints=None, **extra):
        out.append(dict({"name": "c10f" + name, "surface": surface, "pot": pot, "atoms": atoms, "opt": opt,
                         "kwargs": kwargs or {}, "tol": tol, "maxiter": maxiter, "constraints": constraints or []}, **extra))
    # --- floor
    for oname, kw in (("sd_cart", {"step_size": 0.4}), ("sd_dic", {"step_size": 0.4}), ("rfo", {}), ("crfo", {})):
        add("floor_" + oname, "harm3-fixed", H3_POT, H3_START, oname, kw, floor=True)
    add("floor_c1", "harm3-fixed", H3_POT, H3_START, "crfo", constraints=[[0, 1, 1.2]], floor=True)
    add("floor_c2", "harm3-fixed", H3_POT, H3_START, "crfo", constraints=[[0, 1, 1.2], [1, 2, 1.7]], floor=True)
    add("floor_ts3", "dw3-fixed", DW3_POT, DW3_TS, "prfo", {"init_alpha": 0.05}, floor=True)
    add("floor_ts2", "dw2-fixed", DW2_POT, [["H", 0.0, 0.0, 0.0], ["H", 1.52, 0.0, 0.0]], "prfo", {"init_alpha": 0.05}, floor=True)
    # --- API wrappers and settings
    add("opt_rfo", "harm3-fixed", H3_POT, H3_FAR, "rfo", tol="tight", maxiter=5, via="optimise")
    add("opt_sd", "harm3-fixed", H3_POT, H3_FAR, "sd_cart", {"step_size": 0.3}, tol="normal", maxiter=3, via="optimise")
    add("opt_crfo", "harm3-fixed", H3_POT, H3_START, "crfo", tol="normal", maxiter=100, via="optimise", constraints=[[0, 1, 1.2]])
    add("set_sd", "harm3-fixed", H3_POT, H3_START, "sd_cart", {"step_size": 0.4}, tol="verytight", maxiter=300, via="setter")
    add("set_rfo", "harm3-fixed", H3_POT, H3_START, "rfo", tol="tight", via="setter")
    add("coords_sd", "harm3-fixed", H3_POT, H3_START, "sd_cart", {"step_size": 0.4}, maxiter=20, coords_arg=True)
    add("xprims", "harm3-fixed", H3_POT, H3_START, "crfo", constraints=[[0, 1, 1.2]], extra_prims=[[1, 2]])
    # --- two consecutive optimisations whose criteria differ by less than their printed precision (looser first)
    add("twin_a", "harm3-fixed", H3_POT, H3_FAR, "sd_cart", {"step_size": 0.3}, tol={"rms_g": 1.4e-4}, maxiter=400)
    add("twin_b", "harm3-fixed", H3_POT, H3_FAR, "sd_cart", {"step_size": 0.3}, tol={"rms_g": 0.6e-4}, maxiter=400)
    # --- species.constraints.distance with the optimisers that are not CRFO
    add("cons_prfo", "dw3-fixed", DW3_POT, DW3_TS, "prfo", {"init_alpha": 0.05}, maxiter=80, constraints=[[0, 1, 1.3]])
    for oname, kw in (("rfo", {}), ("sd_cart", {"step_size": 0.4}), ("sd_dic", {"step_size": 0.4})):
        add("cons_" + oname, "harm3-fixed", H3_POT, H3_START, oname, kw, constraints=[[0, 1, 1.3]])
    # --- a saddle search started at a minimum with a gradient-only tolerance
    add("tsmin2", "dw2-at-minimum", DW2_POT, [["H", 0.0, 0.0, 0.0], ["H", 1.9003, 0.0, 0.0]], "prfo", {"init_alpha": 0.05},
        tol={"rms_g": 1e-3}, maxiter=40)
    if full:
        add("tsmin3", "dw3-at-minimum", DW3_POT, DW3_MIN, "prfo", {"init_alpha": 0.05}, tol={"rms_g": 1e-3}, maxiter=40)
    return out


FLOORS = {"sd_cart:converged": 3, "sd_dic:converged": 2, "rfo:converged": 3, "crfo:converged": 5,
          "crfo:converged-constrained": 2, "prfo:converged-with-1-negative-eigenvalues": 2}


CONV_FRAMES = ("conv_params", "__post_init__", "converged", "meets_criteria", "are_satisfied", "__mul__",
               "_exceeded_maximum_iteration", "_log_convergence", "iteration")


def run_case(env, case):
    """Run one real optimiser; returns everything the oracles need."""
    pot = make_pot(case["pot"])
    M = env.Mock(pot)
    env.methods_mod.get_lmethod = lambda: env.Mock(pot)   # RFO/CRFO initial Hessian: "low-level method" (rfo.py:96-107)
    if case.get("extio"):
        M = env.FileMock(case["pot"])                # energies and gradients arrive through input/output files
        env.ade.Config.keep_input_files = bool(case.get("keep_input_files", True))
    mol = env.ade.Molecule(name=case["name"], atoms=[env.ade.Atom(a[0], a[1], a[2], a[3]) for a in case["atoms"]])
    if case["constraints"]:
        mol.constraints.distance = {(int(i), int(j)): float(r) for i, j, r in case["constraints"]}
    tol = make_tol(env, case["tol"])
    passes = [0]

    def guard(coords):
        passes[0] += 1
        if passes[0] > case["maxiter"] + 3:
            raise _Runaway()
    cls = env.classes[case["opt"]]
    kwargs = dict(case["kwargs"])
    if case.get("extra_prims"):              # CRFO: additional primitives in the DIC space (crfo.py:252-271)
        kwargs["extra_prims"] = [env.PrimitiveDistance(int(i), int(j)) for i, j in case["extra_prims"]]
    if case.get("coords_arg"):               # the documented `coords=` constructor argument (base.py:51-90)
        kwargs["coords"] = env.CartesianCoordinates(np.array(mol.coordinates, dtype=float))
    tol_arg = case["tol"] if isinstance(case["tol"], str) else tol      # presets go in as strings (base.py:698-699)
    via = case.get("via", "run")
    opt = None
    if via != "optimise":
        opt = cls(maxiter=case["maxiter"], conv_tol=("loose" if via == "setter" else tol_arg), callback=guard, **kwargs)
        if via == "setter":
            opt.conv_tol = tol_arg           # conv_tol setter, string branch for presets (base.py:714-730)
    res = {"exc": None, "runaway": False, "opt": opt, "mol": mol, "M": M, "tol": tol, "pot": pot, "passes": passes}
    x0 = np.array(mol.coordinates, dtype=float).copy()
    try:
        if via == "optimise":                # the convenience classmethod NDOptimiser.optimise (base.py:737-780)
            cls.optimise(mol, M, maxiter=case["maxiter"], conv_tol=tol_arg, callback=guard, **kwargs)
        else:
            opt.run(mol, M)
    except _Runaway:
        res["runaway"] = True
    except Exception as e:  # noqa
        frames = [f.name for f in traceback.extract_tb(e.__traceback__) if f.filename == env.base_file]
        res["exc"] = (type(e).__name__, str(e)[:200], [f for f in frames if f in CONV_FRAMES])
    res["x0"] = x0
    res["trj"] = f"{case['name']}_opt_trj.zip"
    if via == "optimise" and res["exc"] is None and not res["runaway"]:
        try:                                 # the optimiser object is not returned: its state is read back from the trajectory
            res["opt"] = cls.from_file(res["trj"])
        except Exception as e:  # noqa
            res["exc"] = (type(e).__name__, f"optimise() left no loadable trajectory: {e}"[:200], ["from_file"])
    return res


def rigid_projector(x):
    """Projector onto the complement of translations and rotations."""
    x = x.reshape(-1, 3)
    n = len(x)
    c = x - x.mean(axis=0)
    vecs = []
    for k in range(3):
        t = np.zeros((n, 3))
        t[:, k] = 1.0
        vecs.append(t.flatten())
        ax = np.zeros(3)
        ax[k] = 1.0
        vecs.append(np.cross(ax, c).flatten())
    U, sv, _ = np.linalg.svd(np.array(vecs).T, full_matrices=False)
    Q = U[:, sv > 1e-8]            # orthonormal basis of the rigid-body motions (5 for a linear molecule)
    return np.eye(3 * n) - Q @ Q.T


def constraint_vectors(x, cons):
    V = []
    for i, j, _ in cons:
        v = np.zeros_like(x)
        u = (x[i] - x[j]) / np.linalg.norm(x[i] - x[j])
        v[i], v[j] = u, -u
        V.append(v.flatten())
    return np.array(V).T if V else np.zeros((x.size, 0))


def projected_measures(g, V):
    """min over multipliers of RMS and of max|.| of g - V l (independent of the implementation's projection)."""
    g = g.flatten()
    if V.shape[1] == 0:
        return math.sqrt(float(np.mean(g * g))), float(np.max(np.abs(g)))
    lam = np.linalg.lstsq(V, g, rcond=None)[0]
    r = g - V @ lam
    rms = math.sqrt(float(np.mean(r * r)))
    from scipy.optimize import linprog
    m = V.shape[1]
    cvec = np.zeros(m + 1)
    cvec[-1] = 1.0
    A = np.vstack([np.hstack([-V, -np.ones((len(g), 1))]), np.hstack([V, -np.ones((len(g), 1))])])
    b = np.concatenate([-g, g])
    lp = linprog(cvec, A_ub=A, b_ub=b, bounds=[(None, None)] * m + [(0, None)], method="highs")
    mx = float(lp.fun) if lp.status == 0 else None      # None: the max-norm minimum is not available
    return rms, mx


def check_run(ctx, env, case, res, fail, terms, descr, factor_lists, coq_budget):
    """Implementation-side oracles on one finished run + correspondence terms for its final state."""
    opt, mol, M, tol, pot = res["opt"], res["mol"], res["M"], res["tol"], res["pot"]
    cls = case["opt"]
    rep = {"kind": "run", "case": case}
    label = f"{cls} on {case['surface']} (tol={case['tol']}, maxiter={case['maxiter']}, constraints={case['constraints']})"
    if res["exc"] is not None:
        name, msg, frames = res["exc"]
        ctx.hist("runs", f"raised:{name}")
        ctx.hist("runs", f"{cls}:raised")
        if case.get("coords_arg") and name == "AssertionError" and "conv_params" in frames:
            # Optimiser.__init__ appends the user's coordinates (no energy) before _initialise_run appends the start
            # point: conv_params asserts on the missing energy.  No convergence is reported: outside C10 (see README).
            ctx.hist("runs", "coords-arg:AssertionError-from-conv_params")
            return
        if frames:
            fail(f"run|convergence-bookkeeping-raises:{name}",
                 f"{label}: {name} raised from {frames}: {msg}", rep)
        return
    maxiter = case["maxiter"]
    grads = [l for l in M.log if l[0] == "grad"]
    it, hlen = opt.iteration, len(opt._history)
    tol = opt.conv_tol                       # the tolerance the optimiser actually holds
    single = len(case["atoms"]) == 1
    if single:
        ctx.hist("runs", "single-atom")
        if not opt.converged or M.log or not np.array_equal(np.array(mol.coordinates), res["x0"]):
            fail("run|single-atom", f"{label}: single atom: converged={opt.converged}, calls={len(M.log)}", rep)
        return
    # --- the iteration limit is never exceeded
    if res["runaway"] or it > maxiter or hlen - 1 > maxiter or len(grads) - 1 > maxiter:
        fail(f"run|iteration-exceeds-maxiter:{cls}",
             f"{label}: iteration={it}, len(history)-1={hlen - 1}, gradient evaluations after the first={len(grads) - 1}"
             f"{', loop still running after maxiter+3 passes' if res['runaway'] else ''}; limit is {maxiter}", rep)
        if res["runaway"]:
            return
    try:
        conv = bool(opt.converged)
    except Exception as e:  # noqa
        fail(f"run|convergence-bookkeeping-raises:{type(e).__name__}", f"{label}: optimiser.converged raised {e}", rep)
        return
    ctx.hist("runs", f"{cls}:{'converged' if conv else 'limit'}")
    if conv and case["constraints"] and int(opt._history.final.n_constraints) > 0:
        ctx.hist("runs", f"{cls}:converged-constrained")
    if case.get("min_iterations") and it < case["min_iterations"]:
        ctx.hist("runs", "long-run-too-short")
    # --- a run that is not converged stopped because of the limit
    if not conv and it < maxiter:
        fail(f"run|stopped-early-unconverged:{cls}", f"{label}: left the loop at iteration {it} < {maxiter} unconverged", rep)
    x = np.array(mol.coordinates, dtype=float).reshape(-1, 3)
    cv, strict = independent_tol(case["tol"])        # what was REQUESTED, in base units
    cv_impl = cp_vals(tol)
    if bool(tol.strict) != strict or any((a is None) != (b is None) or (b is not None and finite(b) and abs(a - b) > 1e-4 * abs(b))
                                         for a, b in zip(cv_impl, cv)):
        fail("ConvergenceParams|threshold-units-not-converted",
             f"{label}: the optimiser's conv_tol holds {cv_impl}, the requested thresholds are {cv} in base units", rep)
    # --- the species holds coordinates, energy and gradient of the last evaluated point
    if grads:
        _, xl, el, gl = grads[-1]
        bad = []
        if not np.array_equal(x, xl, equal_nan=True):
            bad.append(f"coordinates differ from the last evaluated point by {np.abs(x - xl).max():.3e}")
        if mol.energy is None or float(mol.energy) != el:
            bad.append(f"energy {mol.energy!r} != last evaluated {el!r}")
        if mol.gradient is None or not np.array_equal(np.array(mol.gradient), gl):
            bad.append("gradient differs from the last evaluated gradient")
        fin = opt._history.final
        if not np.array_equal(np.array(fin.to("cart")).reshape(-1, 3), xl):
            bad.append("history.final does not hold the coordinates of the last evaluated point")
        if fin.e is None or float(fin.e) != el:
            bad.append(f"energy of history.final {fin.e!r} != last evaluated {el!r}")
        if bad:
            only_energy = all(b.startswith("energy") for b in bad)
            tiny = len(grads) >= 2 and math.sqrt(float(np.mean((grads[-1][1] - grads[-2][1]) ** 2))) <= 2e-8
            if only_energy and tiny and mol.energy is not None and abs(float(mol.energy) - el) < 1.59e-5:
                fail("species|stale-energy-after-sub-1e-8A-step",
                     f"{label}: last step RMSD <= 1e-8 A: species.energy = {float(mol.energy)!r} is the energy of an earlier "
                     f"point, the last evaluated energy is {el!r} (Energies.append keeps the old 'equal' energy)", rep)
            else:
                fail(f"species|state-not-last-evaluated:{cls}", f"{label}: " + "; ".join(bad), rep)
    # --- independent evaluation at the returned geometry
    e_ind, g_ind = pot.eg(x)
    cons = case["constraints"]
    V = constraint_vectors(x, cons)
    rms_g, max_g = projected_measures(g_ind, V)
    if len(grads) >= 2:
        (_, xk, ek, _), (_, xl, el, _) = grads[-2], grads[-1]
        d_e, dx = abs(el - ek), (xl - xk).flatten()
        rms_s, max_s = math.sqrt(float(np.mean(dx * dx))), float(np.max(np.abs(dx)))
    else:
        d_e = rms_s = max_s = math.inf
    if max_g is None:
        ctx.hist("runs", "linprog-failed")
        max_g = 0.0                          # no statement about the max measure for this run
    ind = [d_e, rms_g, max_g, rms_s, max_s]
    # --- conv_params of the history = the measures of the last two evaluated points
    try:
        impl_m = cp_vals(opt._history.conv_params())
    except Exception as e:  # noqa
        fail(f"run|convergence-bookkeeping-raises:{type(e).__name__}", f"{label}: conv_params() raised {e}", rep)
        return
    stale = bool(grads) and opt._history.final.e is not None and float(opt._history.final.e) != grads[-1][2]
    badm = []
    for a, vi, vm in zip(ATTRS, ind, impl_m):
        if a == "abs_d_e" and stale:
            continue                     # reported separately (stale energy)
        if cons and a in GRAD:
            # the implementation's projection is one particular choice of multipliers: never below the minimum
            if not vm >= vi * (1 - 1e-6) - 1e-14:
                badm.append(f"{a}: conv_params {vm!r} < minimum over multipliers {vi!r}")
        elif not (vm == vi or abs(vm - vi) <= 1e-9 * max(abs(vm), abs(vi)) + 1e-18):
            badm.append(f"{a}: conv_params {vm!r}, independent {vi!r}")
    if badm:
        fail(f"conv_params|differs-from-independent-measures:{cls}", f"{label}: " + "; ".join(badm), rep)
    if conv:
        for a, c, v in zip(ATTRS, cv, ind):
            if c is None or not finite(c):
                continue
            k = 1.0 if (strict or a in GRAD) else 3.0
            if not v <= k * c * (1 + 1e-6) + 1e-14:
                fail(f"converged|{a}-above-threshold:{cls}",
                     f"{label}: reported converged at iteration {it} but independent {a} = {v:.6e} > "
                     f"{k:g} x {c:.6e}", dict(rep, measures=dict(zip(ATTRS, ind))))
        n_cons_impl = int(opt._history.final.n_constraints)
        for i, j, r in cons:
            dist = float(np.linalg.norm(x[i] - x[j]))
            if not abs(dist - r) < CONSTRAINT_TOL * (1 + 1e-9):
                if n_cons_impl == 0:
                    # the optimiser's coordinates carry no constraint at all: species.constraints.distance is ignored
                    fail(f"converged|species-constraint-ignored:{cls}",
                         f"{label}: {cls} builds coordinates without the species' distance constraints (n_constraints = 0) and "
                         f"reports converged with distance({i},{j}) = {dist:.6f}, constraint {r}", rep)
                else:
                    fail(f"converged|constraint-unmet:{cls}",
                         f"{label}: reported converged with distance({i},{j}) = {dist:.6f}, constraint {r} (tolerance {CONSTRAINT_TOL})", rep)
        if cls == "prfo":
            H = pot.hess(x)
            P = rigid_projector(x)
            ev = np.linalg.eigvalsh(P @ H @ P)
            nneg = int(np.sum(ev < -1e-4))
            ctx.hist("runs", f"prfo:converged-with-{nneg}-negative-eigenvalues")
            if nneg != 1:
                when = "at-iteration-0" if it == 0 else "after-steps"
                fail(f"converged|prfo-not-first-order-saddle:{when}",
                     f"{label}: converged saddle search ({'no step taken: converged has no curvature test' if it == 0 else f'{it} steps'}) "
                     f"has {nneg} negative Hessian eigenvalues (lowest {ev[:3]})", rep)
    # --- writing the trajectory as xyz (also when that fails) leaves the species as it was
    if res.get("opt") is not None and opt._species is not None and it >= 1 and case.get("via", "run") != "optimise":
        snap = (np.array(mol.coordinates, dtype=float).copy(), None if mol.energy is None else float(mol.energy),
                None if mol.gradient is None else np.array(mol.gradient).copy())

        def species_changed():
            out = []
            if not np.array_equal(np.array(mol.coordinates, dtype=float), snap[0], equal_nan=True):
                out.append(f"coordinates moved by {np.abs(np.array(mol.coordinates, dtype=float) - snap[0]).max():.3e} A")
            if (None if mol.energy is None else float(mol.energy)) != snap[1]:
                out.append(f"energy {mol.energy!r} (was {snap[1]!r})")
            if (mol.gradient is None) != (snap[2] is None) or (snap[2] is not None and not np.array_equal(np.array(mol.gradient), snap[2])):
                out.append("gradient " + ("lost" if mol.gradient is None else "changed"))
            return out
        for target, faulty in ((f"{case['name']}_c10print", False), (os.path.join("c10_no_such_dir", "trj"), True)):
            try:
                opt.print_geometries(target)
                raised = None
            except Exception as e:  # noqa
                raised = type(e).__name__
            ch = species_changed()
            if ch:
                fail("species|modified-by-print-geometries" + (":after-io-fault" if faulty else ""),
                     f"{label}: optimiser.print_geometries({target!r}) {'raised ' + str(raised) if raised else 'returned'} and left the "
                     f"species changed: " + "; ".join(ch), dict(rep, print_target=target))
                break
    # --- reload from the saved trajectory reproduces the final state
    trj = res["trj"]
    if os.path.exists(trj):
        for rc_name in sorted({cls, "crfo"}):       # executors.py:357 always reloads with CRFOptimiser.from_file
            try:
                o2 = env.classes[rc_name].from_file(trj)
                f1, f2 = opt._history.final, o2._history.final
                bad = []
                if bool(o2.converged) != conv:
                    bad.append(f"converged {o2.converged} vs {conv}")
                if o2.iteration != it:
                    bad.append(f"iteration {o2.iteration} vs {it}")
                if not np.array_equal(np.array(f2.to("cart")), np.array(f1.to("cart"))) or not np.array_equal(np.array(f2), np.array(f1)):
                    bad.append("final coordinates differ")
                if f2.e is None or float(f2.e) != float(f1.e):
                    bad.append(f"energy {f2.e!r} vs {f1.e!r}")
                g1, g2 = f1.to("cart").g, f2.to("cart").g
                if (g1 is None) != (g2 is None) or (g1 is not None and not np.array_equal(np.array(g1), np.array(g2))):
                    bad.append("gradient differs")
                p1, p2 = cp_vals(opt._history.conv_params()), cp_vals(o2._history.conv_params())
                if any(not (a == b or abs(a - b) <= 1e-12 * max(abs(a), abs(b))) for a, b in zip(p1, p2)):
                    bad.append(f"conv_params {p2} vs {p1}")
                if o2._maxiter != maxiter or cp_vals(o2.conv_tol) != cv_impl or bool(o2.conv_tol.strict) != strict:
                    bad.append("maxiter / conv_tol differ")
                if bad:
                    fail(f"reload|state-differs:{cls}", f"{label}: reloaded with {rc_name}.from_file: " + "; ".join(bad), rep)
            except Exception as e:  # noqa
                fail(f"reload|raises:{cls}", f"{label}: {rc_name}.from_file raised {type(e).__name__}: {e}", rep)
    elif len(case["atoms"]) > 1:
        fail(f"reload|no-trajectory:{cls}", f"{label}: no trajectory file {trj} was written", rep)
    # --- correspondence terms for the final state
    if coq_budget[0] <= 0:
        return
    coq_budget[0] -= 1
    fin = opt._history.final
    impl_cp = cp_vals(opt._history.conv_params())
    nc, ns = int(fin.n_constraints), int(fin.n_satisfied_constraints)
    parts = [f"check_iteration {coq_nat(hlen)} {coq_nat(it)}",
             f"check_exceeded {coq_nat(it)} {coq_nat(maxiter)} {coq_bool(bool(opt._exceeded_maximum_iteration))}"]
    if not near_boundary(cv_impl, impl_cp, factor_lists):
        parts.append(f"check_converged false {coq_nat(nc)} {coq_nat(ns)} {params_lit(impl_cp)} {params_lit(cv_impl, strict)} {res_bool(conv)}")
    else:
        ctx.hist("runs", "margin-skipped")
    if not cons and grads:
        pl = f"(mkPoint (Some {qc(grads[-1][2])}) {qc_list(grads[-1][1].flatten().tolist())} (Some {qc_list(grads[-1][3].flatten().tolist())}))"
        pk = "None"
        if len(grads) >= 2:
            pk = f"(Some (mkPoint (Some {qc(grads[-2][2])}) {qc_list(grads[-2][1].flatten().tolist())} None))"
        parts.append(f"check_conv_params {pl} {pk} {params_lit(impl_cp)}")
    if cons and nc > 0 and getattr(fin, "B", None) is not None:
        deltas = [float(np.linalg.norm(x[i] - x[j])) - r for i, j, r in cons]
        if all(abs(abs(dl) - CONSTRAINT_TOL) > 1e-9 for dl in deltas):
            parts.append(f"check_nsat {qc_list(deltas)} {coq_nat(nc)} {coq_nat(ns)}")
        n = len(fin)
        sat_idx = [k for k, (i, j, r) in enumerate(cons) if abs(float(np.linalg.norm(x[i] - x[j])) - r) < CONSTRAINT_TOL]
        m = len(cons)
        inactive = [n - m + k for k in sat_idx] + [n + k for k in sat_idx]
        parts.append(f"check_cart_proj_g {coq_nat(x.size)} {qc_mat(np.array(fin.B).tolist())} "
                     f"{coq_list([coq_nat(k) for k in inactive])} {qc_list(np.array(fin.g).tolist())} "
                     f"{qc_list(np.array(fin.cart_proj_g).tolist())}")
    terms.append("(" + " && ".join(parts) + ")")
    descr.append({"kind": "run-state", "case": case, "impl": {"converged": conv, "iteration": it, "conv_params": [repr(v) for v in impl_cp],
                                                               "n_constraints": nc, "n_satisfied": ns}})


def stream_runs(ctx, env, factor_lists, full, fail, only=None):
    terms, descr = [], []
    cases = only if only is not None else gen_cases(ctx, full)
    rundir = os.path.join(ctx.work, "runs")
    os.makedirs(rundir, exist_ok=True)
    cwd = os.getcwd()
    os.chdir(rundir)
    budget = [len(cases) if full else 40]
    t0 = time.time()
    try:
        env.FileMock.program = os.path.join(rundir, "c10_fake_program.py")
        with open(env.FileMock.program, "w") as f:
            f.write(EXT_PROGRAM)
        keep0 = env.ade.Config.keep_input_files
        for case in cases:
            if case.get("extio"):
                # its own directory; earlier optimisations of the same-named species are run there first
                sub = os.path.join(rundir, "ext_" + case["name"] + "_" + str(len(case.get("prior_cases", []))) +
                                   ("k" if case.get("keep_input_files", True) else "n"))
                os.makedirs(sub, exist_ok=True)
                os.chdir(sub)
                os.environ.pop("AUTODE_FIXUNIQUE", None)
                for prior in case.get("prior_cases", []):
                    run_case(env, prior)
            res = run_case(env, case)
            check_run(ctx, env, case, res, fail, terms, descr, factor_lists, budget)
            if case.get("extio"):
                ctx.hist("runs", f"extio:program-executions={res['M'].n_exec > 0}")
                env.ade.Config.keep_input_files = keep0
                os.chdir(rundir)
            ctx.count("runs", json.dumps(case, sort_keys=True), nontrivial=len(case["atoms"]) > 1,
                      sample={k: case[k] for k in ("surface", "opt", "tol", "maxiter", "constraints")})
            ctx.hist("runs", "surface:" + case["surface"])
            try:
                if os.path.exists(res["trj"]):
                    os.remove(res["trj"])
            except OSError:
                pass
    finally:
        os.chdir(cwd)
    ctx.log(f"real optimiser runs: {len(cases)} in {time.time() - t0:.1f}s")
    if only is None:
        h = ctx.cov["streams"].get("runs", {}).get("histogram", {})
        low = {k: (h.get(k, 0), n) for k, n in FLOORS.items() if h.get(k, 0) < n}
        if low:
            fail("runs|coverage-collapsed",
                 "too few converging optimiser runs to exercise the property (count, floor): " + json.dumps(low) +
                 "; raised: " + json.dumps({k: v for k, v in h.items() if k.startswith("raised:") or k.endswith(":raised")}),
                 {"kind": "coverage", "low": low})
    # the maxiter guard of Optimiser.__init__
    for mval in (-3, 0, 1, 2, 50):
        try:
            env.classes["sd_cart"](maxiter=mval, conv_tol="normal")
            rej = False
        except ValueError:
            rej = True
        terms.append(f"check_maxiter_guard {coq_z(mval)} {coq_bool(rej)}")
        descr.append({"kind": "maxiter-guard", "maxiter": mval, "impl_rejected": rej})
    return terms, descr


# ============================================================================ stream 4: the calculation layer
CALC_POT = {"kind": "bondnet", "terms": [["h", 0, 1, 0.5, 1.1], ["h", 0, 2, 0.45, 1.05], ["h", 0, 3, 0.55, 1.1],
                                         ["h", 1, 2, 0.2, 1.55], ["h", 1, 3, 0.2, 1.6], ["h", 2, 3, 0.25, 1.6]]}
CALC_ATOMS = [["N", 0.0, 0.0, 0.0], ["H", 1.05, 0.1, 0.0], ["H", -0.3, 1.0, 0.1], ["H", -0.4, -0.5, 0.9]]


def calc_sequences(rng, full):
    r1, r2, r3 = round(rng.uniform(1.2, 1.35), 3), round(rng.uniform(1.36, 1.5), 3), round(rng.uniform(1.0, 1.15), 3)
    seq = [["a", []], ["b", [[0, 1, r1]]],
           ["scan", [[0, 1, r1]]], ["scan", [[0, 1, r1]]], ["scan", [[0, 1, r2]]], ["scan", [[0, 1, r3]]], ["scan", [[0, 1, r1]]],
           ["opt", []], ["opt", [[2, 3, 1.75]]], ["opt", [[2, 3, 1.75], [0, 1, r1]]], ["opt", []]]
    if full:
        seq += [["scan2", [[0, 2, 1.2], [0, 3, 1.0]]], ["scan2", [[0, 2, 1.0], [0, 3, 1.2]]], ["scan2", [[0, 2, 1.2], [0, 3, 1.0]]],
                ["a", [[1, 2, 1.7]]], ["b", []], ["b", [[0, 1, r1]]]]
    return seq


def run_calc_sequence(ctx, env, spec, fail, rundir):
    """Optimisations through Calculation -> CalculationExecutorO -> CRFOptimiser (executors.py:343-474) with the
    analytic method, all in ONE directory with the calculation registry enabled; oracles after every step."""
    os.environ.pop("AUTODE_FIXUNIQUE", None)         # the registry is on unless this is "False" (executors.py)
    os.makedirs(rundir, exist_ok=True)
    cwd = os.getcwd()
    os.chdir(rundir)
    try:
        pot = make_pot(spec["pot"])
        M = env.Mock(pot)
        M.native_opt = False                          # no native optimiser -> built-in CRFO is used
        env.methods_mod.get_lmethod = lambda: M
        want, _ = independent_tol("normal")           # CalculationExecutorO.conv_tol = "normal"
        first = {}
        for k, entry in enumerate(spec["sequence"]):
            name, cons = entry[0], entry[1]
            mode = entry[2] if len(entry) > 2 else "opt"      # "opt" | "ts" (OptTSKeywords -> PRFO) | "cycN" (MaxOptCycles(N))
            maxcyc = int(mode[3:]) if mode.startswith("cyc") else 50
            mol = env.ade.Molecule(name="tet", atoms=[env.ade.Atom(a[0], a[1], a[2], a[3]) for a in spec["atoms"]])
            if cons:
                mol.constraints.distance = {(int(i), int(j)): float(r) for i, j, r in cons}
            n0 = len(M.log)
            rep = {"kind": "calc", "pot": spec["pot"], "atoms": spec["atoms"], "sequence": spec["sequence"][:k + 1]}
            label = f"Calculation '{name}' #{k} ({mode}) with constraints {cons} after {[tuple(e) for e in spec['sequence'][:k]]}"
            try:
                kwds = (env.OptTSKeywords() if mode == "ts" else
                        env.OptKeywords([env.MaxOptCycles(maxcyc)]) if mode.startswith("cyc") else env.OptKeywords())
                calc = env.Calculation(name, mol, M, keywords=kwds)
                calc.run()
                conv = bool(calc.optimiser.converged)
                it = calc.optimiser.iteration
            except Exception as e:  # noqa
                ctx.hist("calc", f"raised:{type(e).__name__}")
                fail("calc|raises", f"{label}: {type(e).__name__}: {str(e)[:200]}", rep)
                continue
            grads = [l for l in M.log[n0:] if l[0] == "grad"]
            reused = not grads
            ctx.count("calc", (name, json.dumps(cons), k), sample={"name": name, "constraints": cons, "reused": reused})
            ctx.hist("calc", mode + ":" + ("reused" if reused else "ran") + (":converged" if conv else ":unconverged"))
            want_cls = "PRFOptimiser" if mode == "ts" else "CRFOptimiser"
            if not reused and type(calc.optimiser).__name__ != want_cls:
                fail("calc|wrong-optimiser-type", f"{label}: run with {type(calc.optimiser).__name__}, the keywords ask for {want_cls}", rep)
            x = np.array(mol.coordinates, dtype=float).reshape(-1, 3)
            e_ind, g_ind = pot.eg(x)
            bad = []
            if mol.energy is None or abs(float(mol.energy) - e_ind) > 1e-12 * max(1.0, abs(e_ind)):
                bad.append(f"species energy {mol.energy!r} is not the energy {e_ind!r} of its geometry")
            if mol.gradient is None or np.abs(np.array(mol.gradient) - g_ind).max() > 1e-10:
                bad.append("species gradient is not the gradient at its geometry")
            if grads and not np.array_equal(x, grads[-1][1]):
                bad.append("species coordinates are not the last evaluated point")
            if bad:
                fail("calc|species-state", f"{label}: " + "; ".join(bad), rep)
            if it > maxcyc:
                fail("calc|iteration-exceeds-maxiter", f"{label}: iteration {it} > {maxcyc}", rep)
            if not conv and not reused and it < maxcyc:
                fail("calc|stopped-early-unconverged", f"{label}: stopped unconverged at iteration {it} < {maxcyc}", rep)
            if conv and mode == "ts":
                ev = np.linalg.eigvalsh(rigid_projector(x) @ pot.hess(x) @ rigid_projector(x))
                nneg = int(np.sum(ev < -1e-4))
                ctx.hist("calc", f"ts:{nneg}-negative-eigenvalues; hessian {'set' if mol.hessian is not None else 'None'}; reused={reused}")
                if nneg != 1:
                    fail("calc|ts-not-first-order-saddle",
                         f"{label}: the transition-state calculation reports converged with {nneg} negative Hessian eigenvalues", rep)
            if conv:
                for i, j, r in cons:
                    dist = float(np.linalg.norm(x[i] - x[j]))
                    if not abs(dist - r) < CONSTRAINT_TOL * (1 + 1e-9):
                        if mode == "ts" and int(calc.optimiser._history.final.n_constraints) == 0:
                            fail("calc|ts-species-constraint-ignored",
                                 f"{label}: OptTSKeywords -> PRFOptimiser drops the molecule's distance constraints: converged with "
                                 f"distance({i},{j}) = {dist:.6f}, constraint {r}", rep)
                            continue
                        fail("calc|converged-constraint-unmet",
                             f"{label}: the calculation's optimiser reports converged but distance({i},{j}) = {dist:.6f} "
                             f"for the molecule's constraint {r} (tolerance {CONSTRAINT_TOL}); reloaded trajectory: {reused}", rep)
                rms_g, max_g = projected_measures(g_ind, constraint_vectors(x, cons) if mode != "ts" else constraint_vectors(x, []))
                for a, v in (("rms_g", rms_g), ("max_g", max_g)):
                    c = want[ATTRS.index(a)]
                    if v is not None and not v <= c * (1 + 1e-5):
                        fail(f"calc|converged-{a}-above-threshold",
                             f"{label}: reports converged but independent in-surface {a} = {v:.4e} > {c:.4e}; reloaded: {reused}", rep)
            key = (name, json.dumps(cons), mode)
            if key in first:
                x1, e1, c1 = first[key]
                if c1 != conv or np.abs(x - x1).max() > 1e-10 or abs(float(mol.energy) - e1) > 1e-12:
                    fail("calc|repeat-differs", f"{label}: exact repeat gives a different final state (reused={reused})", rep)
            elif mol.energy is not None:
                first[key] = (x.copy(), float(mol.energy), conv)
    finally:
        os.chdir(cwd)


def stream_calc(ctx, env, full, fail):
    t0 = time.time()
    for rnd in range(2 if full else 1):
        spec = {"pot": CALC_POT, "atoms": CALC_ATOMS, "sequence": calc_sequences(ctx.rng, full)}
        run_calc_sequence(ctx, env, spec, fail, os.path.join(ctx.work, f"calc{rnd}"))
    # transition-state calculations (OptTSKeywords -> PRFOptimiser + final Hessian), a repeat, a cycle limit, and a
    # distance constraint on a TS calculation
    run_calc_sequence(ctx, env, {"pot": DW3_POT, "atoms": DW3_TS,
                                 "sequence": [["ts", [], "ts"], ["ts", [], "ts"], ["min", [], "opt"], ["few", [], "cyc2"],
                                              ["tsc", [[0, 1, 1.3]], "ts"]]}, fail, os.path.join(ctx.work, "calc_ts"))
    ctx.log(f"calculation-layer sequences in {time.time() - t0:.1f}s")


# ============================================================================ driver
def run(ctx):
    import fcntl
    os.makedirs(os.path.join(VERIF, ".work"), exist_ok=True)
    lk = open(os.path.join(VERIF, ".work", "c10.run.lock"), "w")
    fcntl.flock(lk, fcntl.LOCK_EX)       # coq/gen/C10_Gen.v is regenerated per run: one C10 check at a time
    try:
        return _run(ctx)
    finally:
        fcntl.flock(lk, fcntl.LOCK_UN)
        lk.close()


def _run(ctx):
    full = not ctx.quick
    pins_changed = source_pins(ctx.pid, PINS)
    ctx.cov["source_pins"] = {"pinned": len(PINS), "changed": pins_changed}
    if pins_changed:
        ctx.log("source pins changed:", ", ".join(pins_changed))
    # 1. regenerate the model from the repository
    rc, out = sh(["python3", f"{VERIF}/tr/translate_c10.py"], timeout=120)
    translated = rc == 0
    factor_lists = [[0.5, 0.5, 0.8, 3, 3], [1.5, 0.1, 0.2, 2, 2], [3, 0.7, 0.7, 1, 1]]
    for line in out.splitlines():
        if line.startswith("JSON:"):
            try:
                factor_lists = json.loads(line[5:])["factor_lists"]
            except Exception:  # noqa
                pass
    ctx.log("translator:", out.strip().splitlines()[0][:300] if out.strip() else "")
    ctx.cov["translator"] = {"ok": translated, "output": out.strip().splitlines()[0][:600] if out.strip() else ""}
    # 2. proofs over the regenerated model
    info = {"hygiene": [], "log_tail": out, "build_ok": False}
    proofs_ok = False
    if translated:
        proofs_ok, info = ctx.proofs(SLICE, "C10/Props.v", "AV.C10.Props", extra_targets=["C10/Corr.vo"])
        ctx.log("proofs:", "ok" if proofs_ok else "BROKEN")
        if not proofs_ok:
            ctx.log(info["log_tail"][-1200:])
        ctx.cov["print_assumptions"] = info.get("assumptions", {})
    else:
        ctx.cov["obligations"] += len(ctx.theorems_in("C10/Props.v"))
        ctx.cov["checker_cmd"] = "translator failed closed; proofs not attempted"
    # 3. implementation-side oracles + correspondence terms
    env = get_env()
    nfail = [0]
    seen_keys = {}

    known = set(ctx.known_keys())

    def fail(key, what, rep):
        if key in known:
            ctx.finding(key, what, rep)          # prints KNOWN-FINDING once; not a failure of this run
            return
        nfail[0] += 1
        seen_keys[key] = seen_keys.get(key, 0) + 1
        if seen_keys[key] <= 2 and sum(1 for k in seen_keys) <= 16:
            ctx.finding(key, what, rep)
    t1, d1 = stream_params(ctx, env, factor_lists, full, fail)
    ctx.log(f"params stream: {len(t1)} terms")
    cwd = os.getcwd()
    os.makedirs(os.path.join(ctx.work, "runs"), exist_ok=True)
    os.chdir(os.path.join(ctx.work, "runs"))
    try:
        t2, d2 = stream_scripted(ctx, env, full, fail)
    finally:
        os.chdir(cwd)
    ctx.log(f"scripted stream: {len(t2)} terms")
    t3, d3 = stream_runs(ctx, env, factor_lists, full, fail)
    stream_calc(ctx, env, full, fail)
    ctx.log(f"implementation oracles: {nfail[0]} failures {dict(seen_keys) if seen_keys else ''}")
    ctx.cov["oracle_failures"] = dict(seen_keys)
    # 4. correspondence
    corr_bad, corr_err = [], None
    corr_ran = False
    try:
        corr_build_ok = proofs_ok or (translated and ctx.coq_make(["C10/Corr.vo"])[0])
    except Exception:  # noqa
        corr_build_ok = False
    if corr_build_ok:
        corr_ran = True
        terms, descr = t1 + t2 + t3, d1 + d2 + d3
        # spread the expensive (scripted / run-state) terms evenly over the shards
        nsh = 12 if len(terms) >= 240 else 4
        order = sorted(range(len(terms)), key=lambda i: (i % nsh, i))
        terms, descr = [terms[i] for i in order], [descr[i] for i in order]
        bad, corr_err = ctx.coq_bad_indices(PRE, terms, per_file=max(20, -(-len(terms) // nsh)), name="c10cases")
        corr_bad = [(descr[i], terms[i]) for i in bad]
        ctx.log(f"correspondence: {len(terms)} terms, {len(corr_bad)} disagreements" +
                (f"; coq error {corr_err[:300]}" if corr_err else ""))
        ctx.cov["disagreements"] = len(corr_bad)
    # 5. decide
    if not translated:
        if nfail[0] == 0:
            ctx.violation("translator failed closed (the source no longer fits the vocabulary / pinned text the model was "
                          "written from): " + out.strip()[:400],
                          {"kind": "translator", "output": out.strip()[:2000]}, found_input=False)
    elif not proofs_ok:
        ctx.proof_failure(info, found_any_input=(nfail[0] > 0))
    if corr_bad or corr_err:
        if nfail[0] == 0:
            ctx.violation("model and implementation disagree and no property-level oracle failed on the implementation",
                          {"kind": "correspondence", "first": [d for d, _ in corr_bad[:4]],
                           "coq_terms": [t[:3000] for _, t in corr_bad[:2]], "coq_error": corr_err}, found_input=False)
        else:
            ctx.log("correspondence disagreements explained by the implementation-level findings above")
    if pins_changed and translated and proofs_ok and nfail[0] == 0 and not (corr_bad or corr_err):
        ctx.violation("hand model no longer pinned to the source: " + ", ".join(pins_changed),
                      {"kind": "source-pin", "changed": pins_changed}, found_input=False)
    if not corr_ran and proofs_ok:
        ctx.violation("correspondence did not run", {"kind": "correspondence"}, found_input=False)


def replay(ctx, obj):
    env = get_env()
    rep = obj.get("replay", {})
    fails = []

    def fail(key, what, r):
        fails.append((key, what))
        print("REPLAY-FAIL", key, "::", what)
    kind = rep.get("kind")
    if kind == "params":
        fl = lambda d: [None if d[a] is None else float(d[a]) for a in ATTRS]  # noqa
        c, v = fl(rep["criteria"]), fl(rep["values"])
        cobj = env.CP(**dict(zip(ATTRS, c)), strict=rep["strict"])
        vobj = env.CP(**dict(zip(ATTRS, v)))
        ans = bool(cobj.meets_criteria(vobj))
        print("meets_criteria ->", ans, "are_satisfied ->", cobj.are_satisfied(vobj))
        what = decision_oracle(cp_vals(cobj), rep["strict"], cp_vals(vobj), ans)
        if what:
            fail("meets_criteria|criterion-exceeded", what, rep)
    elif kind == "construct":
        vals = {a: (None if x == "None" else float(x)) for a, x in rep["values"].items()}
        try:
            env.CP(**vals)
            print("constructor accepted", vals)
        except ValueError as e:
            fail("ConvergenceParams|rejects-legitimate-values", str(e), rep)
    elif kind == "calc":
        ctx.cov["streams"] = {}
        run_calc_sequence(ctx, env, rep, fail, os.path.join(ctx.work, "calc_replay"))
    elif kind == "params-sequence":
        vobj = env.CP(**dict(zip(ATTRS, rep["values"])))
        for cvals in rep["sequence"]:
            ans = bool(env.CP(**dict(zip(ATTRS, cvals))).meets_criteria(vobj))
            print("criteria", cvals, "->", ans)
            what = decision_oracle(cvals, False, rep["values"], ans)
            if what:
                fail("meets_criteria|criterion-exceeded", what, rep)
    elif kind == "params-units":
        spec = rep["criteria"]
        want, _ = independent_tol(spec)
        got = cp_vals(make_tol(env, spec))
        print("requested (base units):", want, "stored:", got)
        if any((g is None) != (w is None) or (w is not None and abs(g - w) > 1e-4 * abs(w)) for g, w in zip(got, want)):
            fail("ConvergenceParams|threshold-units-not-converted", f"{spec}: stored {got}, requested {want}", rep)
    elif kind == "scripted":
        os.makedirs(ctx.work, exist_ok=True)
        os.chdir(ctx.work)
        print("scripted run ->", run_scripted(env, rep, "c10replay", fail), "; stored:", rep.get("impl"))
    elif kind == "run":
        ctx.cov["streams"] = {}
        stream_runs(ctx, env, [[0.5, 0.5, 0.8, 3, 3], [1.5, 0.1, 0.2, 2, 2], [3, 0.7, 0.7, 1, 1]], True, fail,
                    only=[rep["case"]])
    else:
        print("replay: nothing executable stored for kind", kind, "- stored:", obj.get("what"))
        return 2
    print("replay:", len(fails), "failure(s); stored:", obj.get("what"))
    return 1 if fails else 0


MANIFEST = {
    "technique": "Coq proof over a model regenerated from source (ast translator of the convergence decision, the "
                 "converged gate, the run loop body, the limit test and the constraint tolerance) + source pins for the "
                 "hand-modelled functions + model/implementation correspondence on ConvergenceParams, scripted loops and "
                 "real optimiser states + analytic-mock optimiser oracles (in-process, file-based, calculation layer)",
    "level_text": ("Machine-checked theorems (coq/C10/Props.v, closed under the global context) over definitions "
                   "regenerated from autode/opt/optimisers/base.py on every run: meets_criteria = True implies RMS and "
                   "max gradient within their thresholds and |dE|, RMS step, max step within 3x theirs (all five within 1x "
                   "when strict) for EVERY pair of ConvergenceParams objects; unset criteria count as satisfied; the "
                   "composition on concrete history entries (converged_point_within_tolerances): converged = True implies "
                   "every constraint deviation within the translated tolerance and the conv_params measures of the final two "
                   "entries within the thresholds; the iteration counter never exceeds maxiter for ANY step / gradient / "
                   "callback functions and any constructor-supplied history prefix shorter than maxiter; maxiter passes "
                   "suffice; the flag read after run() is the decision on the final history; the species component of the "
                   "state always holds the snapshot of the evaluated final entry; conv_params never raises on zero/inf "
                   "measures.  PARTIAL (exercised by oracles on real RFO/CRFO/PRFO/steepest-descent runs over analytic "
                   "surfaces, not proved): that the numerical step rules reach a stationary point; that cart_proj_g is the "
                   "projection onto the constraint surface (only masking of the given inactive indexes is proved: "
                   "projected_gradient_masks_inactive_components_partial); that the species' constraints are the "
                   "coordinates' constraints (FALSE for PRFO/RFO/steepest descent: findings "
                   "converged|species-constraint-ignored:*); 'exactly one negative Hessian eigenvalue' (converged has no "
                   "curvature test: finding converged|prfo-not-first-order-saddle:at-iteration-0); species object = snapshot; "
                   "reload; unit conversion of thresholds; the calculation layer."),
    "level_note": ("Trusted: Coq kernel + vm_compute (two decidable sweeps over the translated program, examples); "
                   "tr/translate_c10.py (fail-closed; text pins) and the 61 source pins of harness/c10.py:PINS; the hand model "
                   "of __mul__/__post_init__/conv_params/cart_proj_g/loop state, validated each run by three correspondence "
                   "streams; exact rationals for doubles (near-tie comparisons with inexact float products skipped and "
                   "counted); the analytic test potentials and numpy/scipy in the oracles.  Base units assumed in the model "
                   "(conversion checked by an oracle).  conv_params is modelled totally (empty / unequal vectors give 0 where "
                   "numpy raises; excluded by premises).  A floor on converging runs per optimiser guards against silent loss "
                   "of coverage (runs|coverage-collapsed)."),
}
